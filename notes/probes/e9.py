import numpy as np, strax, warnings, tempfile, os, glob, shutil, threading
warnings.simplefilter("ignore")
from strax.testutils import Records, Peaks, PeakClassification, run_id
class Both(strax.Plugin):
    provides="both"; depends_on=("peak_classification","lone_hits"); data_kind="both"
    dtype=strax.time_fields+[("n_pc",np.int32),("n_lh",np.int32)]; save_when=strax.SaveWhen.NEVER
    def compute(self, peaks, lone_hits, start, end):
        r=np.zeros(1,self.dtype); r["time"]=start; r["endtime"]=end; r["n_pc"]=len(peaks); r["n_lh"]=len(lone_hits); return r
for proc, kw in [("single_thread",{}),("threaded_mailbox",{}),("threaded_mailbox",{"max_workers":2})]:
    with tempfile.TemporaryDirectory() as d:
        st = strax.Context(storage=strax.DataDirectory(d), register=[Records, Peaks, PeakClassification, Both], config=dict(bonus_area=0), timeout=20)
        full = st.get_array(run_id, "both")
        # now remove lone_hits from storage only -> peak_classification stored, sibling must be recomputed
        for p in glob.glob(d+"/0-lone_hits-*"): shutil.rmtree(p)
        try:
            part = st.get_array(run_id, "both", processor=proc, **kw)
            print(proc, kw, "equal:", np.array_equal(full, part), full["n_pc"].sum(), part["n_pc"].sum(), len(full), len(part))
        except Exception as e:
            print(proc, kw, "raised", type(e).__name__, str(e)[:100])
