"""F18 (C04 / C06): with the threaded processor a failure of Saver.close() on the normal path - the final
metadata write or the rename of the temporary directory - escapes from save_from's `finally` in the
saver thread without being recorded in got_exception: make() returns normally although nothing was
stored."""
import os
import tempfile
import strax
from strax.testutils import Records, Peaks, run_id

real_rename = os.rename


def failing_rename(src, dst, *a, **k):
    if os.path.isdir(src) and str(src).endswith("_temp") and "peaks" in str(src):
        raise OSError(28, "No space left on device (injected at the final directory rename)")
    return real_rename(src, dst, *a, **k)


with tempfile.TemporaryDirectory() as d:
    st = strax.Context(storage=strax.DataDirectory(d), register=[Records, Peaks], allow_multiprocess=False, use_per_run_defaults=True)
    os.rename = failing_rename
    try:
        try:
            st.make(run_id, "peaks", processor="threaded_mailbox", max_workers=1)
            outcome = "make returned normally"
        except BaseException as e:  # noqa
            outcome = f"make raised {type(e).__name__}: {str(e)[:70]}"
    finally:
        os.rename = real_rename
    stored = strax.Context(storage=strax.DataDirectory(d), register=[Records, Peaks], use_per_run_defaults=True).is_stored(run_id, "peaks")
    print(outcome, "| peaks stored:", stored)
    raise SystemExit(1 if outcome.startswith("make returned") and not stored else 0)
