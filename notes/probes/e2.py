import numpy as np, strax, warnings, tempfile, os, sys
warnings.simplefilter("ignore")
from strax.testutils import Records, Peaks, run_id

# C02: re-register same-named plugin with different default
def mk(default):
    @strax.takes_config(strax.Option("base_area", default=default))
    class Peaks2(strax.Plugin):
        provides = "peaks2"; depends_on = ("records",); dtype = strax.peak_dtype(); __version__="1"
        def compute(self, records):
            p = np.zeros(len(records), self.dtype)
            p["time"] = records["time"]; p["dt"]=1; p["length"]=1
            p["area"] = self.config["base_area"]
            return p
    return Peaks2
with tempfile.TemporaryDirectory() as d:
    st = strax.Context(storage=strax.DataDirectory(d), register=[Records, mk(1)], config=dict(bonus_area=0))
    a = st.get_array(run_id, "peaks2")
    k1 = str(st.key_for(run_id, "peaks2"))
    st.register(mk(2))
    k2 = str(st.key_for(run_id, "peaks2"))
    b = st.get_array(run_id, "peaks2")
    fresh = strax.Context(storage=strax.DataDirectory(d+"/x"), register=[Records, mk(2)], config=dict(bonus_area=0))
    k3 = str(fresh.key_for(run_id, "peaks2"))
    print("C02 keys:", k1, k2, k3, "areas", a["area"][0], b["area"][0], fresh.get_array(run_id,"peaks2")["area"][0])
