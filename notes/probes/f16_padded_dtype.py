"""F16 (C12): a chunk-wrapped output whose dtype has the declared fields but a padded memory layout is
accepted, stored under the packed declared dtype, and cannot be loaded again."""
import tempfile
import numpy as np
import strax

packed = np.dtype(strax.time_fields + [(("payload", "x"), np.int8)])
padded = np.dtype({"names": ["time", "endtime", "x"], "formats": [np.int64, np.int64, np.int8], "offsets": [0, 8, 16], "itemsize": 24})
assert packed.itemsize == 17 and padded.itemsize == 24


class Src(strax.Plugin):
    provides = "src"
    depends_on = ()
    dtype = packed
    rechunk_on_save = False

    def source_finished(self):
        return True

    def is_ready(self, chunk_i):
        return chunk_i < 2

    def compute(self, chunk_i):
        d = np.zeros(4, dtype=padded)
        d["time"] = chunk_i * 100 + np.arange(4) * 10
        d["endtime"] = d["time"] + 5
        d["x"] = 7
        # chunk-wrapped result, built with the array's own dtype
        return strax.Chunk(start=chunk_i * 100, end=(chunk_i + 1) * 100, data=d, dtype=d.dtype,
                           data_type="src", data_kind="src", run_id="0", target_size_mb=1)


with tempfile.TemporaryDirectory() as tmp:
    st = strax.Context(storage=[strax.DataDirectory(tmp)], register=[Src], allow_multiprocess=False)
    try:
        st.make("0", "src")
    except Exception as e:
        print("rejected at production time (property holds):", type(e).__name__, str(e)[:100])
        raise SystemExit(0)
    print("make() accepted the padded output; is_stored:", st.is_stored("0", "src"))
    try:
        back = st.get_array("0", "src")
        print("loaded", len(back), "rows, x =", back["x"][:4])
        ok = len(back) == 8 and (back["x"] == 7).all()
    except Exception as e:
        print("load fails:", type(e).__name__, str(e)[:120])
        ok = False
    raise SystemExit(0 if ok else 1)
