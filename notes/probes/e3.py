import numpy as np, strax, warnings, tempfile, os, sys, threading, time
warnings.simplefilter("ignore")
from strax.testutils import Records, Peaks, run_id
import strax.io
# C04: fail a chunk write on the thread pool
orig = strax.save_file
calls = {"n":0}
def bad_save_file(f, data, compressor="zstd"):
    calls["n"] += 1
    if calls["n"] == 2:
        raise OSError("disk full (injected)")
    return orig(f, data, compressor)
import strax.storage.files as sf
strax.save_file = bad_save_file
with tempfile.TemporaryDirectory() as d:
    st = strax.Context(storage=strax.DataDirectory(d), register=[Records, Peaks], config=dict(bonus_area=0), allow_rechunk=False)
    try:
        st.make(run_id, "records", max_workers=2, processor="threaded_mailbox")
        print("C04: make returned normally")
    except Exception as e:
        print("C04: make raised", type(e).__name__, e)
    st2 = strax.Context(storage=strax.DataDirectory(d), register=[Records, Peaks], config=dict(bonus_area=0))
    print("C04: is_stored after:", st2.is_stored(run_id, "records"), "save_file calls", calls)
    strax.save_file = orig
    try:
        x = st2.get_array(run_id, "records")
        print("loaded", len(x))
    except Exception as e:
        print("C04: loading raised", type(e).__name__, str(e)[:100])

# C06: consumer abandons processor iterator
with tempfile.TemporaryDirectory() as d:
    st = strax.Context(storage=strax.DataDirectory(d), register=[Records, Peaks], config=dict(bonus_area=0), timeout=5)
    comps = st.get_components(run_id, "peaks")
    proc = strax.ThreadedMailboxProcessor(comps, max_workers=None, timeout=5)
    it = proc.iter()
    next(it)
    try:
        it.close()
        print("C06: close returned")
    except BaseException as e:
        print("C06: close raised", type(e).__name__, e)
    time.sleep(0.5)
    print("C06 live threads:", [t.name for t in threading.enumerate() if t is not threading.main_thread()])
