"""F20 (C12): with the threaded processor the continuity of a plugin's output is only checked on the
consumer's side of get_iter.  The saver of the same data type reads the mailbox independently; if it is
done before the consumer meets the offending chunk, the gapped data is stored as complete and valid
although the request fails."""
import tempfile
import time
import numpy as np
import strax


class Gappy(strax.Plugin):
    provides = "gappy"
    depends_on = ()
    dtype = strax.time_fields
    rechunk_on_save = False

    def source_finished(self):
        return True

    def is_ready(self, chunk_i):
        return chunk_i < 3

    def compute(self, chunk_i):
        d = np.zeros(1, self.dtype)
        start = chunk_i * 10 + (5 if chunk_i == 2 else 0)   # third chunk starts 5 ns late: a gap
        d["time"], d["endtime"] = start, start + 1
        return self.chunk(start=start, end=chunk_i * 10 + 10, data=d)


with tempfile.TemporaryDirectory() as d:
    st = strax.Context(storage=[strax.DataDirectory(d)], register=[Gappy], allow_multiprocess=False)
    raised = None
    try:
        for i, chunk in enumerate(st.get_iter("0", "gappy", processor="threaded_mailbox", max_workers=1, allow_lazy=False)):
            time.sleep(1.0)      # a slow consumer: the saver thread finishes long before us
    except Exception as e:  # noqa
        raised = e
    print("consumer saw:", type(raised).__name__, str(raised)[:60])
    fresh = strax.Context(storage=[strax.DataDirectory(d)], register=[Gappy])
    stored = fresh.is_stored("0", "gappy")
    print("stored as valid afterwards:", stored)
    raise SystemExit(1 if (raised is not None and stored) else 0)
