"""F19 (C06): in the single-thread processor a failure that happens after some saved data type is
already complete (its saver closed) is masked: kill_spies() closes every saver again, the closed one
raises RuntimeError('... saver already closed') from inside the except block, and the caller receives
that instead of the original exception."""
import tempfile
import numpy as np
import strax
from strax.testutils import Records, run_id


class Boom(Exception):
    pass


class Late(strax.Plugin):
    """fails when its input is exhausted, i.e. after the records saver was closed"""
    provides = "late"
    depends_on = "records"
    data_kind = "late"
    dtype = strax.time_fields
    rechunk_on_save = False

    def compute(self, records):
        return np.zeros(0, self.dtype)

    def cleanup(self, wait_for):
        raise Boom("failure at the very end")


with tempfile.TemporaryDirectory() as d:
    st = strax.Context(storage=strax.DataDirectory(d), register=[Records, Late], use_per_run_defaults=True)
    try:
        st.make(run_id, "late", processor="single_thread")
        got = None
    except BaseException as e:  # noqa
        got = e
    print("caller received:", type(got).__name__, str(got)[:80])
    raise SystemExit(0 if isinstance(got, Boom) else 1)
