import numpy as np, strax, warnings, tempfile
warnings.simplefilter("ignore")
from strax.testutils import Records, Peaks, run_id
def f(data, r, targets):
    return data[:1]   # keep only first row of each chunk
for proc in ["single_thread", "threaded_mailbox"]:
  for rechunk in [True, False]:
    with tempfile.TemporaryDirectory() as d:
        st = strax.Context(storage=strax.DataDirectory(d), register=[Records, Peaks], config=dict(bonus_area=0), apply_data_function=(f,), allow_rechunk=rechunk)
        a = st.get_array(run_id, "peaks", processor=proc)
        st2 = strax.Context(storage=strax.DataDirectory(d), register=[Records, Peaks], config=dict(bonus_area=0))
        b = st2.get_array(run_id, "peaks")
        md = st2.get_metadata(run_id, "peaks")
        print(proc, "rechunk", rechunk, "returned rows", len(a), "stored rows", len(b), [c["n"] for c in md["chunks"]])
