import numpy as np, strax, warnings, tempfile, os, glob
warnings.simplefilter("ignore")
from strax.testutils import Records, run_id
with tempfile.TemporaryDirectory() as d:
    st = strax.Context(storage=strax.DataDirectory(d), register=[Records])
    st.make(run_id, "records")
    src = glob.glob(d + "/0-records-*")[0]
    print("before:", len(os.listdir(src)), "files")
    try:
        strax.rechunker(source_directory=src, dest_directory=d, replace=False, progress_bar=False)
        print("rechunker returned")
    except Exception as e:
        print("rechunker raised", type(e).__name__, str(e)[:90])
    print("after: source exists:", os.path.exists(src), os.listdir(d))
    st2 = strax.Context(storage=strax.DataDirectory(d), register=[Records])
    print("is_stored:", st2.is_stored(run_id, "records"))
