import numpy as np, strax, warnings, tempfile, os, glob
warnings.simplefilter("ignore")
from strax.testutils import Records, Peaks, run_id
class R2(Records):
    rechunk_on_load = True
    chunk_source_size_mb = 1
with tempfile.TemporaryDirectory() as d:
    st = strax.Context(storage=strax.DataDirectory(d), register=[R2, Peaks], config=dict(bonus_area=0))
    st.make(run_id, "records")
    for kw in [dict(), dict(max_workers=2, processor="threaded_mailbox")]:
        try:
            a = st.get_array(run_id, "records", **kw)
            print("rechunk_on_load", kw, "ok rows", len(a))
        except Exception as e:
            print("rechunk_on_load", kw, "raised", type(e).__name__, str(e)[:80])
