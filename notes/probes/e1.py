import numpy as np, strax, warnings
warnings.simplefilter("ignore")
# C12: tautology
dt = strax.time_fields + [("x", np.int32)]
wrong = np.zeros(2, dtype=strax.time_fields + [("y", np.float64)])
wrong["time"]=[0,1]; wrong["endtime"]=[1,2]
try:
    c = strax.Chunk(data_type="a", data_kind="a", dtype=dt, run_id="0", start=0, end=10, data=wrong)
    print("C12: wrong-dtype chunk ACCEPTED", c.dtype.names, c.data.dtype.names)
except Exception as e:
    print("C12: rejected", e)

# C07: one eligible gap
d = np.zeros(4, dtype=strax.time_fields)
d["time"]=[0,1,5000,5001]; d["endtime"]=d["time"]+1
try:
    print("C07 splits:", strax.Rechunker.get_splits(d, target_size=d.itemsize*1, min_gap=1000))
except Exception as e:
    print("C07: get_splits raised", type(e).__name__, e)
d = np.zeros(6, dtype=strax.time_fields)
d["time"]=[0,1,5000,5001,10000,10001]; d["endtime"]=d["time"]+1
try:
    print("C07 splits (2 gaps):", strax.Rechunker.get_splits(d, target_size=d.itemsize*1, min_gap=1000))
except Exception as e:
    print("C07: get_splits raised", type(e).__name__, e)
