import numpy as np, strax, warnings, tempfile, sys, collections
warnings.simplefilter("ignore")
from strax.testutils import Records, Peaks
sys.setswitchinterval(1e-6)
errs = collections.Counter()
for trial in range(10):
    with tempfile.TemporaryDirectory() as d:
        st = strax.Context(storage=strax.DataDirectory(d), register=[Records, Peaks], config=dict(bonus_area=0))
        try:
            st.get_array([str(i) for i in range(6)], ("records",), max_workers=4, progress_bar=False, multi_run_progress_bar=False)
            st.get_array([str(i) for i in range(6)], ("peaks","records") if False else "peaks", max_workers=4, multi_run_progress_bar=False)
            errs["ok"] += 1
        except Exception as e:
            errs[type(e).__name__ + ": " + str(e)[:70]] += 1
print(dict(errs))
