import strax, inspect
class P(strax.Plugin):
    __version__ = None
    provides = "p"; depends_on = tuple(); dtype = strax.time_fields
    def compute(self): pass
cls=P
for attr in [a for a in dir(cls) if not a.startswith("__") and a not in cls.takes_config]:
    if attr in ["takes_config","version","_auto_version"]: continue
    obj=getattr(cls,attr)
    try:
        inspect.getsource(obj); continue
    except TypeError: pass
    try:
        strax.deterministic_hash(obj); continue
    except TypeError:
        print("str fallback:", attr, str(obj)[:60])
