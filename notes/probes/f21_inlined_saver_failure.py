"""F21 (C04): savers inlined into a multiprocess source plugin are closed by ParallelSourcePlugin.cleanup
without looking at the outcome of the compute futures it waited for.  A chunk write that fails in the
worker process fails the request, but the saver is closed as complete: is_stored is True and a chunk is
missing."""
import os
import tempfile
import strax
from strax.testutils import Records, Peaks, run_id

real_save_file = strax.save_file


def failing_save_file(fn, *a, **k):
    if "records" in os.path.basename(fn) and str(fn).endswith("-000009"):
        raise OSError(28, "No space left on device (injected in the worker process, last chunk)")
    return real_save_file(fn, *a, **k)


if __name__ == "__main__":
    with tempfile.TemporaryDirectory() as d:
        st = strax.Context(storage=strax.DataDirectory(d), register=[Records, Peaks], allow_multiprocess=True, use_per_run_defaults=True)
        strax.save_file = failing_save_file
        try:
            try:
                st.make(run_id, "peaks", processor="threaded_mailbox", max_workers=2)
                outcome = "make returned normally"
            except BaseException as e:  # noqa
                outcome = f"make raised {type(e).__name__}: {str(e)[:60]}"
        finally:
            strax.save_file = real_save_file
        fresh = strax.Context(storage=strax.DataDirectory(d), register=[Records, Peaks], use_per_run_defaults=True)
        stored = fresh.is_stored(run_id, "records")
        n = None
        if stored:
            try:
                n = len(fresh.get_array(run_id, "records"))
            except Exception as e:  # noqa
                n = f"load fails: {type(e).__name__}"
        print(outcome, "| records stored:", stored, "| rows:", n)
        raise SystemExit(1 if stored and n != 100 else 0)
