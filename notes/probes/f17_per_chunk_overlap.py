"""F17 (C16): per-chunk processing is refused for an OverlapWindowPlugin that depends directly on the
per-chunked data type, but accepted when an ordinary plugin sits in between.  The overlap plugin then
sees one chunk at a time (no neighbours), and the merged per-chunk data differs from the directly made
data at every chunk boundary."""
import tempfile
import numpy as np
import strax
from strax.testutils import Records, run_id


class Mid(strax.Plugin):
    provides = "mid"
    depends_on = "records"
    data_kind = "records"
    dtype = strax.time_fields + [(("payload", "v"), np.int64)]

    def compute(self, records):
        out = np.zeros(len(records), self.dtype)
        out["time"], out["endtime"] = records["time"], strax.endtime(records)
        out["v"] = 1
        return out


class Ov(strax.OverlapWindowPlugin):
    """number of mids (including itself) starting within +-window of each mid"""
    provides = "ov"
    depends_on = "mid"
    data_kind = "records"
    dtype = strax.time_fields + [(("neighbours", "n"), np.int64)]

    def get_window_size(self):
        return 10

    def compute(self, records):
        t = records["time"]
        out = np.zeros(len(records), self.dtype)
        out["time"], out["endtime"] = t, strax.endtime(records)
        out["n"] = [np.sum(np.abs(t - x) <= 10) for x in t]
        return out


def ctx(d):
    return strax.Context(storage=strax.DataDirectory(d, deep_scan=True), register=[Records, Mid, Ov], use_per_run_defaults=True)


with tempfile.TemporaryDirectory() as d1, tempfile.TemporaryDirectory() as d2:
    direct = ctx(d1).get_array(run_id, "ov")
    st = ctx(d2)
    st.make(run_id, "records")
    n_chunks = len(st.get_metadata(run_id, "records")["chunks"])
    try:
        for i in range(n_chunks):
            st.make(run_id, "ov", chunk_number={"records": [i]})
    except (ValueError, NotImplementedError) as e:
        print("per-chunk processing refused (property holds):", type(e).__name__, str(e)[:90])
        raise SystemExit(0)
    st.merge_per_chunk_storage(run_id, "ov", "records")
    merged = st.get_array(run_id, "ov")
    same = len(merged) == len(direct) and np.array_equal(merged["n"], direct["n"])
    print("rows direct / merged:", len(direct), len(merged), "| identical:", same)
    if not same and len(merged) == len(direct):
        bad = np.flatnonzero(merged["n"] != direct["n"])
        print("first differing rows:", bad[:6], "direct n", direct["n"][bad[:6]], "merged n", merged["n"][bad[:6]])
    raise SystemExit(0 if same else 1)
