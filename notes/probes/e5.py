import numpy as np, strax, warnings, tempfile
warnings.simplefilter("ignore")
from strax.testutils import Records, run_id
class Down(strax.DownChunkingPlugin):
    provides="down"; depends_on=("records",); dtype=strax.record_dtype(); rechunk_on_save=False
    def compute(self, records, start, end):
        # mislabel the chunk as another data type, and use a different dtype
        wrong = np.zeros(1, dtype=strax.time_fields+[("zz", np.int8)]); wrong["time"]=start; wrong["endtime"]=start+1
        yield strax.Chunk(start=start,end=end,data=wrong,data_type="something_else",data_kind="records",dtype=strax.record_dtype(),run_id=self._run_id)
with tempfile.TemporaryDirectory() as d:
    st = strax.Context(storage=strax.DataDirectory(d), register=[Records, Down])
    try:
        a = st.get_array(run_id, "down")
        print("C12 down-chunk: accepted; returned dtype names", a.dtype.names, "stored:", st.is_stored(run_id,"down"))
    except Exception as e:
        print("C12 down-chunk: rejected", type(e).__name__, str(e)[:80])
