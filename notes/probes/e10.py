import strax, numpy as np
class P(strax.Plugin):
    __version__ = None
    provides = "p"; depends_on = tuple(); dtype = strax.time_fields
    def compute(self): pass
print(P.version())
