"""Mutation witnesses: prove on every thorough run that each rule can see the edit class it is
meant to detect, by applying small edits to the *current* source in memory and re-running the rules.

A witness is a text-level edit (old snippet -> new snippet, whitespace-insensitive) of one module.
The mutated module must still compile; the rule named by the witness must report a finding that
is not reported on the unmodified tree.  A witness whose target snippet is not present any more is
skipped and recorded; a witness that applies but is not detected makes the run an ANALYSIS-ERROR.
Nothing is written to disk.
"""

import multiprocessing
import os
import re

from .index import AnalysisError, Repo


class W:
    def __init__(self, name, rule, path, old, new, occurrence=0, survives_tests=None):
        self.name = name
        self.rule = rule  # rule id (prefix) expected to fire; tuple for alternatives
        self.path = path
        self.old = old
        self.new = new
        self.occurrence = occurrence


def _flex(snippet):
    parts = [re.escape(p) for p in snippet.split()]
    return re.compile(r"\s+".join(parts))


def apply_edit(src, old, new, occurrence=0):
    """Replace the occurrence-th whitespace-insensitive match of old by new (verbatim).
    Returns None when old does not occur."""
    ms = list(_flex(old).finditer(src))
    if len(ms) <= occurrence:
        return None
    m = ms[occurrence]
    # `new` is used verbatim: continuation lines carry the absolute indentation of the source
    body = new
    return src[: m.start()] + body + src[m.end() :]


def _worker(args):
    pid, root, w_index, baseline = args
    from .main import load_prop, run_rules

    mod = load_prop(pid)
    w = mod.WITNESSES[w_index]
    path = os.path.join(root, w.path)
    if not os.path.exists(path):
        return (w.name, "skipped", "module missing")
    src = open(path, encoding="utf-8").read()
    new_src = apply_edit(src, w.old, w.new, w.occurrence)
    if new_src is None:
        return (w.name, "skipped", "target construct not present")
    if new_src == src:
        return (w.name, "skipped", "edit is a no-op")
    try:
        compile(new_src, w.path, "exec")
    except SyntaxError as e:
        return (w.name, "broken", f"mutant does not compile: {e}")
    try:
        repo = Repo(root, overrides={w.path: new_src})
        chk, _ = run_rules(pid, repo, "quick")
    except AnalysisError as e:
        return (w.name, "analysis-error", str(e))
    except Exception as e:  # a rule crashed on the variant: a defect of the checker, not a verdict
        import traceback
        return (w.name, "internal-error", traceback.format_exc()[-600:])
    rules = w.rule if isinstance(w.rule, (tuple, list)) else (w.rule,)
    fresh = [f for f in chk.findings if f.key not in baseline]
    hit = [f for f in fresh if any(f.rule.startswith(r) for r in rules)]
    if hit:
        return (w.name, "detected", f"{hit[0].rule} {hit[0].func}: {hit[0].message}"[:300])
    if fresh:
        return (w.name, "other-rule", f"expected {rules}, got {sorted({f.rule for f in fresh})}")
    return (w.name, "undetected", f"expected a new finding of {rules}")


def run_witnesses(pid, mod, root, chk):
    ws = getattr(mod, "WITNESSES", [])
    res = {"run": 0, "detected": 0, "skipped": [], "undetected": [], "details": []}
    if not ws:
        return res
    baseline = {f.key for f in chk.findings}
    jobs = [(pid, root, i, baseline) for i in range(len(ws))]
    nproc = min(int(os.environ.get("VERIF_JOBS", "16")), len(jobs), os.cpu_count() or 1)
    if nproc > 1:
        ctx = multiprocessing.get_context("fork")
        with ctx.Pool(nproc) as pool:
            out = pool.map(_worker, jobs, chunksize=1)
    else:
        out = [_worker(j) for j in jobs]
    for name, status, detail in out:
        if status == "skipped":
            res["skipped"].append(f"{name}: {detail}")
            continue
        res["run"] += 1
        if status == "detected":
            res["detected"] += 1
            if len(res["details"]) < 60:
                res["details"].append(f"{name} -> {detail}")
        else:
            res["undetected"].append(f"{name}: {status}: {detail}")
    return res


def run_negative(pid, root, chk, repo):
    """Negative witnesses: the property's rules must report nothing new on behaviour-preserving
    rewrites of the whole package (reformatting, renaming of locals, mirrored comparisons, an extra
    no-op statement in every function).  Returns {transform: [unexpected findings]}."""
    from .main import run_rules
    from .refactor import TRANSFORMS, transform_sources

    baseline = {f.key for f in chk.findings}
    srcs = {rel: m.source for rel, m in repo.modules.items()}
    out = {}
    for name in TRANSFORMS:
        try:
            ov = transform_sources(root, srcs, name)
            c2, _ = run_rules(pid, Repo(root, overrides=ov), "quick")
            out[name] = [f"{f.rule} {f.func}: {f.message[:120]}" for f in c2.findings if f.key not in baseline]
        except AnalysisError as e:
            out[name] = [f"analysis error: {e}"]
    return out
