"""Comparison-domain evaluator.

A predicate that touches its operands only through < <= > >= == != (and min/max, and/or/not) is a
boolean function of the *weak ordering* of those operands.  Enumerating every weak ordering of the
symbols is therefore a complete decision procedure for equivalence / implication / exhaustiveness
of such predicates.  This is enumeration of a finite abstract domain, not a solver.
"""

import ast
import itertools

from .index import AnalysisError, norm


def weak_orderings(symbols):
    """Yield dicts symbol -> rank for every weak ordering (ranks contiguous from 0)."""
    n = len(symbols)
    for ranks in itertools.product(range(n), repeat=n):
        used = set(ranks)
        if used != set(range(len(used))):
            continue
        yield dict(zip(symbols, ranks))


class NotComparisonOnly(AnalysisError):
    pass


def evaluate(expr, env, symmap):
    """Evaluate AST `expr` under env (symbol -> rank).  `symmap` maps normalised operand text to a
    symbol name.  Integer constants are not allowed (they are not order-only) except via symmap."""

    def val(e):
        t = norm(e)
        if t in symmap:
            return env[symmap[t]]
        if isinstance(e, ast.Call) and isinstance(e.func, ast.Name) and e.func.id in ("min", "max"):
            if e.keywords:
                raise NotComparisonOnly(f"keyword in {t}")
            vals = [val(a) for a in e.args]
            return min(vals) if e.func.id == "min" else max(vals)
        if isinstance(e, ast.Call) and isinstance(e.func, ast.Name) and e.func.id == "int" and len(e.args) == 1:
            return val(e.args[0])
        raise NotComparisonOnly(f"operand {t!r} is not a declared symbol")

    def ev(e):
        if isinstance(e, ast.BoolOp):
            vs = [ev(v) for v in e.values]
            return all(vs) if isinstance(e.op, ast.And) else any(vs)
        if isinstance(e, ast.UnaryOp) and isinstance(e.op, (ast.Not, ast.Invert)):
            return not ev(e.operand)
        if isinstance(e, ast.BinOp) and isinstance(e.op, (ast.BitAnd, ast.BitOr)):
            # element-wise boolean operators on numpy masks
            a, b = ev(e.left), ev(e.right)
            return (a and b) if isinstance(e.op, ast.BitAnd) else (a or b)
        if isinstance(e, ast.Compare):
            left = val(e.left)
            res = True
            for op, right in zip(e.ops, e.comparators):
                r = val(right)
                if isinstance(op, ast.Lt):
                    ok = left < r
                elif isinstance(op, ast.LtE):
                    ok = left <= r
                elif isinstance(op, ast.Gt):
                    ok = left > r
                elif isinstance(op, ast.GtE):
                    ok = left >= r
                elif isinstance(op, ast.Eq):
                    ok = left == r
                elif isinstance(op, ast.NotEq):
                    ok = left != r
                else:
                    raise NotComparisonOnly(f"operator {type(op).__name__}")
                res = res and ok
                left = r
            return res
        if isinstance(e, ast.Constant) and isinstance(e.value, bool):
            return e.value
        raise NotComparisonOnly(f"expression {norm(e)!r} is not comparison-only")

    return ev(expr)


def parse_pred(text):
    return ast.parse(text, mode="eval").body


def compare_predicates(symbols, constraint, lhs, rhs, symmap_l, symmap_r=None, mode="iff"):
    """Enumerate all weak orderings of `symbols` satisfying `constraint` (a predicate AST over the
    symbols themselves, or None) and check lhs <mode> rhs.  Returns (n_checked, counterexamples)."""
    symmap_r = symmap_r if symmap_r is not None else symmap_l
    ident = {s: s for s in symbols}
    bad = []
    n = 0
    for env in weak_orderings(symbols):
        if constraint is not None and not evaluate(constraint, env, ident):
            continue
        n += 1
        a = evaluate(lhs, env, symmap_l)
        b = evaluate(rhs, env, symmap_r)
        ok = (a == b) if mode == "iff" else ((not a) or b)
        if not ok:
            bad.append((dict(env), a, b))
    return n, bad


def describe(env):
    """Human-readable ordering, e.g. 'a < b = c < d'."""
    groups = {}
    for s, r in env.items():
        groups.setdefault(r, []).append(s)
    return " < ".join(" = ".join(sorted(groups[r])) for r in sorted(groups))
