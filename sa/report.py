"""Obligations, findings, known findings, evidence and exit codes."""

import hashlib
import json
import os
import subprocess
import time

from .index import AnalysisError, head, norm

VERIF = os.path.dirname(os.path.dirname(os.path.abspath(__file__)))
KNOWN_PATH = os.path.join(VERIF, "known_findings.json")


class Finding:
    def __init__(self, prop, rule, func, construct, message, loc, site=None):
        self.prop = prop
        self.rule = rule
        self.func = func
        self.construct = construct
        self.message = message
        self.loc = loc
        self.site = site or {"function": func, "construct": construct}

    @property
    def key(self):
        return json.dumps([self.rule, self.site], sort_keys=True)

    def digest(self):
        return hashlib.sha1(self.key.encode()).hexdigest()[:12]

    def as_dict(self):
        return {
            "property": self.prop,
            "rule": self.rule,
            "function": self.func,
            "statement": self.construct,
            "site": self.site,
            "message": self.message,
            "location": self.loc,
        }


def load_known():
    if not os.path.exists(KNOWN_PATH):
        return {"known": [], "fixed": []}
    with open(KNOWN_PATH) as f:
        return json.load(f)


class Check:
    """Collects what one run of one property's rules examined and found."""

    def __init__(self, prop, repo, tier="quick", quiet=False):
        self.prop = prop
        self.repo = repo
        self.tier = tier
        self.quiet = quiet
        self.obligations = []  # (rule, site_text, ok, nontrivial)
        self.findings = []
        self.rules = {}
        self.notes = {}
        self.assumptions = []
        self.exhaustive = False
        self.t0 = time.time()

    # ---------------------------------------------------------------- recording
    def _rule(self, rule):
        return self.rules.setdefault(
            rule, {"obligations": 0, "discharged": 0, "sites": [], "description": ""}
        )

    def describe(self, rule, text):
        self._rule(rule)["description"] = text

    def ok(self, rule, site, nontrivial=True):
        r = self._rule(rule)
        r["obligations"] += 1
        r["discharged"] += 1
        if len(r["sites"]) < 40:
            r["sites"].append(site + " [ok]")
        self.obligations.append((rule, site, True, nontrivial))

    def fail(self, rule, func, stmt, message, site=None, site_text=None):
        """Record a violated obligation.  func: FuncInfo or qualified-name string; stmt: AST node
        or text."""
        fq = func if isinstance(func, str) else func.qualname
        path = "" if isinstance(func, str) else func.path
        if stmt is None:
            text, line = "", (0 if isinstance(func, str) else func.node.lineno)
        elif isinstance(stmt, str):
            text, line = stmt, (0 if isinstance(func, str) else func.node.lineno)
        else:
            text, line = head(stmt, 200), getattr(stmt, "lineno", 0)
        f = Finding(self.prop, rule, fq, text, message, f"{path}:{line}", site)
        r = self._rule(rule)
        r["obligations"] += 1
        st = site_text or f"{fq}: {text}"
        if len(r["sites"]) < 40:
            r["sites"].append(st + " [VIOLATED: " + message + "]")
        self.obligations.append((rule, st, False, True))
        if f.key not in {x.key for x in self.findings}:
            self.findings.append(f)
        return f

    def check(self, cond, rule, func, stmt, message, site_text=None, site=None, nontrivial=True):
        if cond:
            fq = func if isinstance(func, str) else func.qualname
            text = stmt if isinstance(stmt, str) else (head(stmt, 120) if stmt is not None else "")
            self.ok(rule, site_text or f"{fq}: {text}", nontrivial)
        else:
            self.fail(rule, func, stmt, message, site=site, site_text=site_text)
        return bool(cond)

    def floor(self, rule, what, count, minimum):
        """Fail closed when a rule matches fewer instances than were confirmed by hand: recorded as an
        analysis error of this run (exit 2 unless the run also found a violation), the remaining
        rules still run."""
        if count < minimum:
            self.defer(
                f"{rule}: found {count} {what}, expected at least {minimum} "
                "(anchor moved or rule became vacuous)"
            )

    def defer(self, msg):
        if not hasattr(self, "deferred"):
            self.deferred = []
        if msg not in self.deferred:
            self.deferred.append(msg)

    def need(self, cond, msg):
        if not cond:
            raise AnalysisError(msg)

    def note(self, key, value):
        self.notes[key] = value

    def assume(self, text):
        if text not in self.assumptions:
            self.assumptions.append(text)

    # ---------------------------------------------------------------- results
    def split_findings(self):
        known = load_known().get("known", [])
        new, kn = [], []
        for f in self.findings:
            match = None
            for k in known:
                if k.get("property") == f.prop and k.get("rule") == f.rule and k.get("site") == f.site:
                    match = k
                    break
            if match:
                kn.append((f, match))
            else:
                new.append(f)
        return new, kn

    def coverage(self, explanation, rule_text):
        obl = len(self.obligations)
        dis = sum(1 for o in self.obligations if o[2])
        distinct = len({(o[0], o[1]) for o in self.obligations if o[3]})
        samples = []
        per_rule = {}
        for rule, site, ok, _nt in self.obligations:
            per_rule.setdefault(rule, []).append(site + (" [ok]" if ok else " [VIOLATED]"))
        for rule in sorted(per_rule):
            for s in per_rule[rule][:3]:
                samples.append(f"{rule} {s}")
        cov = {
            "explanation": explanation,
            "evaluations": max(obl, 1),
            "distinct_nontrivial": distinct,
            "obligations": obl,
            "discharged": dis,
            "rule": rule_text,
            "samples": samples[:80],
            "analysed": self.repo.stats(),
            "rules": self.rules,
            "exhaustive": bool(self.exhaustive),
        }
        cov.update(self.notes)
        return cov


def repo_head(root):
    try:
        return subprocess.run(
            ["git", "-C", root, "rev-parse", "HEAD"], capture_output=True, text=True, timeout=10
        ).stdout.strip()
    except Exception:
        return "unknown"


def write_replay(f, root):
    d = os.path.join(VERIF, "replays")
    os.makedirs(d, exist_ok=True)
    path = os.path.join(d, f"{f.prop}-{f.digest()}.json")
    body = f.as_dict()
    body["repo_head"] = repo_head(root)
    body["how_to_reproduce"] = (
        f"/venv/bin/python /verif/check {f.prop} --replay {path}  "
        "(re-evaluates the rule on the current tree and reports whether this construct is still "
        "in violation)"
    )
    with open(path, "w") as fh:
        json.dump(body, fh, indent=1)
    return path
