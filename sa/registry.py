"""Per-property registration used to generate MANIFEST.json (tools/gen_manifest.py)."""

# id -> dict(text, note, technique, design_ref)  for claimed properties
CLAIMED = {
    "C05": dict(
        text=(
            "Static monitor-discipline analysis of strax.mailbox over all CFG paths: lockset on the "
            "shared fields, wait/notify completeness (no lost wake-up) with exhaustive "
            "classification of predicate-relevant writes, capacity gate dominating the only heap "
            "insert, removal only under a min-over-subscribers test, nothing blocking under the "
            "lock, end-marker ordering.  These are necessary conditions of exactly-once in-order "
            "delivery for every schedule; value arithmetic of message numbers is not decided."
        ),
        note=(
            "Trusted: CPython ast; threading.Condition semantics; single sending thread per mailbox; "
            "the write-site classification table in sa/props/c05.py (one reason per entry)."
        ),
        technique="lockset + wait/notify completeness + dominator/cut-set path rules on a statement CFG",
        design_ref="DESIGN.md section 4 C05",
    ),
}

NOT_APPLICABLE = {
    "C19": (
        "every clause is numeric (areas add up, windows tile, helper outputs equal formulas) and "
        "lives in loop-carried arithmetic of numba kernels; no lock, ordering, ownership, "
        "exhaustiveness or guard structure carries the property, so no sound static rule is in reach"
    ),
}

# Properties whose checks are still being built in this session (listed as unclaimed until done).
PENDING = {
    pid: "check under construction in this session: not claimed until its rules run clean on the tree"
    for pid in [f"C{i:02d}" for i in range(1, 19)]
    if pid not in CLAIMED
}
