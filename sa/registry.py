"""Per-property registration used to generate MANIFEST.json (tools/gen_manifest.py)."""

# id -> dict(text, note, technique, design_ref)  for claimed properties
CLAIMED = {
    "C01": dict(
        text=(
            "Static necessary conditions of chunking/processor independence: closed ownership table for "
            "in-place edits of chunk objects (a published chunk is never modified while other "
            "subscribers hold it; get_iter must edit a copy), effect summaries showing that plugins "
            "with cross-chunk state resolve parallel=False and that only do_compute is submitted to "
            "executors under the parallel flag, single producer per data type in both processors, "
            "continuity guard on the user-facing iterator.  Row-for-row equality of results is not "
            "decided."
        ),
        note="Trusted: CPython ast; receiver-name table distinguishing plugins from chunks; ownership reasons in sa/props/c01.py.",
        technique="ownership / who-may-write table with reaching-definition conditions, effect summaries over the class hierarchy, provenance of fan-out arguments",
        design_ref="DESIGN.md section 4 C01",
    ),
    "C12": dict(
        text=(
            "Static validation-path analysis: dead-guard lint (a comparison guard whose operands are "
            "the same expression after inlining reaching definitions), must-pass-through of label and "
            "dtype checkers on every chunk-returning path of _fix_output and of every override "
            "(sibling agreement), chunk constructor guards compared with their specification on all "
            "weak orderings, continuity guard, time-field decision table and its coverage of all "
            "plugin construction paths."
        ),
        note="Trusted: CPython ast; numpy dtype inequality; checker discovery by role (functions that raise on data_type / dtype mismatch).",
        technique="dead-guard lint with flow-sensitive inlining, cut-set path rules, ordering-domain enumeration, decision tables",
        design_ref="DESIGN.md section 4 C12",
    ),
    "C15": dict(
        text=(
            "Static race detection on the Context state shared by multi_run workers (lockset analysis "
            "over functions reachable from the submitted callable: size-changing writes vs. Python-level "
            "iteration, rebinding vs. subscript reads), plus CFG rules on multi_run's result "
            "collection.  The tree violates the race rule (Context has no lock): the 15 racy "
            "(attribute, writer, reader) pairs are recorded as known findings; any new pair is a "
            "violation."
        ),
        note="Trusted: GIL atomicity of single dict/list operations and of list()/dict()/.copy(); call graph restricted to self-calls on Context.",
        technique="lockset-style static race detection with effect summaries and alias tracking; dominator rules on multi_run",
        design_ref="DESIGN.md section 4 C15",
    ),
    "C16": dict(
        text=(
            "Closed table of destructive calls with required target provenance and guards, overwrite "
            "decision (find(write=True)) or destination-is-not-source guard before every direct saver "
            "creation, path-sensitive Future-typed-local lint, copy-target filter clauses, inspection of "
            "an asynchronously running saver's outcome before acting on it, ordering of verify / remove "
            "/ move in the rechunker.  Equality of the copied rows is not decided."
        ),
        note="Trusted: CPython ast; concurrent.futures.Future API; the reviewed destructive-call table in sa/props/c16.py.",
        technique="who-may-call table with provenance and guard dominance, path-sensitive abstract interpretation, cut-set path rules",
        design_ref="DESIGN.md section 4 C16",
    ),
    "C02": dict(
        text=(
            "Static cache-coherence and determinism analysis: what the fixed plugin cache is keyed on "
            "versus every way the plugin registry can change (replacing stores must be preceded by an "
            "invalidation), cache reads keyed by the current context hash, a determinism lint over "
            "the whole hash path (no builtin hash values, sorted mappings/sets, nothing address "
            "dependent), the track filter on both lineage branches, exact-vs-fuzzy match structure, and "
            "the no-save guard under fuzzy matching.  Necessary conditions of 'no stale reads after "
            "any history'; equality with a fresh-context oracle is not decided."
        ),
        note="Trusted: CPython ast; json/sha1 determinism; plugin classes are not mutated in place after registration.",
        technique="def-use / provenance comparison of cache key vs. cached value inputs; path (cut-set) rule on registry stores; determinism lint",
        design_ref="DESIGN.md section 4 C02",
    ),
    "C04": dict(
        text=(
            "Static path and provenance rules over the write protocol, valid for every crash / fault "
            "position because they hold on all CFG paths: writes only under *_temp, final rename last "
            "and after the metadata flush, failure/completion markers before publication, every "
            "asynchronous write observed before the normal-path close, broken-data tests on every read "
            "path (exhaustive decision table for the overwrite policy), savers closed while the "
            "exception is active, failed saves recorded and re-raised."
        ),
        note="Trusted: atomicity of os.rename; formatted_exception() non-empty iff an exception is active; CPython ast.",
        technique="provenance of path arguments, dominator / cut-set path rules, decision-table extraction, future-flow rule",
        design_ref="DESIGN.md section 4 C04",
    ),
    "C06": dict(
        text=(
            "Static analysis of all failure paths: thread entries resolved from Thread targets through "
            "the processor wiring must convert exceptions into kills; kill wakes all waiters; both "
            "processors catch Exception and GeneratorExit, assign the relay variable on every handler "
            "path, kill all mailboxes, join, re-raise the original object; a path-sensitive abstract "
            "interpretation rejects statements that fail by construction on those paths; every "
            "catch-all handler in the pipeline modules reacts.  Liveness beyond this structure "
            "(capacity vs. plugin lag) is not decided."
        ),
        note="Trusted: generator.throw semantics; Mailbox.cleanup joins; CPython ast; callee resolution table in sa/resolve.py.",
        technique="handler-path cut-set rules on the CFG, thread-entry resolution, path-sensitive abstract interpretation, provenance of the re-raised object",
        design_ref="DESIGN.md section 4 C06",
    ),
    "C11": dict(
        text=(
            "Exhaustive decision tables (save policy x targets x save; frontend accept filter) "
            "extracted by abstract execution and compared with the specification, plus guard-dominance "
            "rules: the only saver-creating call of get_components is dominated by all no-save guards "
            "and a positive policy test; scheduling only on the not-stored branch and after the "
            "availability errors; single producer per data type in both processors.  The number of "
            "compute calls at run time is not decided."
        ),
        note="Trusted: CPython ast; the guard requirement table in sa/props/c11.py.",
        technique="finite decision-table extraction + dominator rules on guard edges + provenance of fan-out arguments",
        design_ref="DESIGN.md section 4 C11",
    ),
    "C05": dict(
        text=(
            "Static monitor-discipline analysis of strax.mailbox over all CFG paths: lockset on the "
            "shared fields, wait/notify completeness (no lost wake-up) with exhaustive "
            "classification of predicate-relevant writes, capacity gate dominating the only heap "
            "insert, removal only under a min-over-subscribers test, nothing blocking under the "
            "lock, end-marker ordering.  These are necessary conditions of exactly-once in-order "
            "delivery for every schedule; value arithmetic of message numbers is not decided."
        ),
        note=(
            "Trusted: CPython ast; threading.Condition semantics; single sending thread per mailbox; "
            "the write-site classification table in sa/props/c05.py (one reason per entry)."
        ),
        technique="lockset + wait/notify completeness + dominator/cut-set path rules on a statement CFG",
        design_ref="DESIGN.md section 4 C05",
    ),
}

NOT_APPLICABLE = {
    "C19": (
        "every clause is numeric (areas add up, windows tile, helper outputs equal formulas) and "
        "lives in loop-carried arithmetic of numba kernels; no lock, ordering, ownership, "
        "exhaustiveness or guard structure carries the property, so no sound static rule is in reach"
    ),
}

# Properties whose checks are still being built in this session (listed as unclaimed until done).
PENDING = {
    pid: "check under construction in this session: not claimed until its rules run clean on the tree"
    for pid in [f"C{i:02d}" for i in range(1, 19)]
    if pid not in CLAIMED
}
