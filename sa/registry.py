"""Per-property registration used to generate MANIFEST.json (tools/gen_manifest.py)."""

# id -> dict(text, note, technique, design_ref)  for claimed properties
CLAIMED = {
    "C19": dict(
        text=(
            "Only the bookkeeping discipline of the four peak kernels is decided, as a necessary condition of "
            "the conservation laws: find_peaks counts / adds every hit exactly once on every path of the hit "
            "loop, resets the counters where a peak is opened, keeps the peak end as a running maximum, closes "
            "a peak exactly at `next start - end >= gap_threshold` / last hit / too long, and uses the "
            "extensions with the right sign (linear forms); _merge_peaks adds area, per-channel area and hit "
            "count of every constituent once and spans first start to last end; _split_peaks tiles the parent "
            "with a cursor that is reset per parent and advanced after every fragment, and split parents are "
            "replaced and the result re-sorted; _replace_merged pairs every copy / insert with its cursor "
            "advance and keeps its conservation asserts. NOT decided (numeric, out of reach of static "
            "analysis): waveform integrals and down-sampling, area-fraction times and widths, moving "
            "averages, goodness of split, highest density regions."
        ),
        note="Trusted: CPython ast; numba compiles the kernels with the semantics of the Python source.",
        technique="accumulation-on-every-path rules on the loop CFG, cursor / tiling discipline, linear forms with sign conditions for boundary arithmetic, paired store / advance rule",
        design_ref="DESIGN.md section 4 C19 and section 7",
    ),
    "C03": dict(
        text=(
            'Writer/reader agreement decided statically: codec-table entries resolve to code of the named codec library and save/load use matching table roles; every metadata key read on a non-failing loader path is written by the saver side; per-chunk metadata has provenance in the chunk being written; rechunker typestate (flush and save before close, chunk numbers advance once per save); empty-chunk handling agrees on both sides. Necessary conditions of a faithful round trip; bit-identity is not decided.'
            " Added in the strengthening rounds: conservation of the rechunker (the received chunk reaches the returned list or the cache on every path, remainder merged in front, every split's left part emitted), split candidates from gaps against the running maximum of end times, streaming decompressors never truncated."
            ' Also: zero-padded, sortable names of the per-chunk metadata files of forked savers.'
        ),
        note="Trusted: CPython ast; each codec library's compress/decompress are inverse; metadata variable naming table (metadata, md, chunk_info, c).",
        technique='sibling agreement (writer vs. reader key sets, codec family resolution), provenance of stored values, typestate path rules',
        design_ref="DESIGN.md section 4 C03",
    ),
    "C07": dict(
        text=(
            'Guard dominance for merge / concatenate, exhaustive ordering-domain enumeration of the sub/superrun split against its specification, protected use of identity-less reductions (incl. the cursor idiom of the split-point search), and constructor discipline of the rechunk paths (only strict split / concatenate). That rows are preserved and split points optimal is not decided.'
            ' Added: running-maximum discipline of split_array / diff, the split protocol of Chunk.split (no use of the requested time before the actual one is known, adjacent halves), and presence-not-row-count tests for cached chunks before concatenation.'
            ' Also: relative split indices in both rechunk loops, remainder yielded unconditionally on load, split shortcuts only at the chunk edges.'
        ),
        note='Trusted: CPython ast; numpy reductions raise on empty input.',
        technique='dominator rules, weak-ordering enumeration, reduction-site lint with cursor idiom, who-may-construct rule',
        design_ref="DESIGN.md section 4 C07",
    ),
    "C08": dict(
        text=(
            'Structure of Plugin.iter decided on its CFG: raise-instead-of-drop guards (end-of-run re-fetch, left-over buffer, premature end, inconsistent ranges, trim loop else), data flow of every split (left part to compute, right part back in front of the buffer, fetches appended), same-kind merge in both code paths, pacemaker selection and fetch-until-end loop. Exactly-once delivery as a function of data is not decided.'
            ' Added later: merge order of same-kind inputs (depends_on order, never re-sorted) and one computation per chunk for inlined multi-output plugins.'
        ),
        note='Trusted: CPython ast; Chunk.split returns (left, right); Chunk.concatenate preserves argument order.',
        technique='guard-existence rules with dominating facts (incl. handler code), data-flow of tuple targets, sibling agreement',
        design_ref="DESIGN.md section 4 C08",
    ),
    "C09": dict(
        text=(
            "Typestate of the overlap-window plugin's cross-chunk state: final flush on every normal exit, state assigned on every path in both output branches, already-sent results cut before emission, cached input in front of new input, input cache refreshed, plugin sequential. Window arithmetic is not decided."
            ' Window limits are now decided as linear forms with sign conditions (boundary - k * window - c, k >= 1, c >= 0), the cut at sent_until is strict and every cache entry is refreshed on every pass.'
        ),
        note='Trusted: CPython ast; Chunk.split semantics.',
        technique='cut-set path rules on the CFG (must-assign / must-call), dominance ordering of split statements',
        design_ref="DESIGN.md section 4 C09",
    ),
    "C10": dict(
        text=(
            "Exhaustive ordering-domain enumeration (4683 weak orderings of six bounds) showing that chunk pruning equals 'no overlap' and never prunes a chunk with a selected row in either mode, and that both row predicates equal their definitions; plus guard dominance for no-save on partial requests, the no-chunk error, selection-before-yield with the request's own arguments, and the early/strict split discipline of in-chunk trimming. Equality with filter(full result) on data is not decided."
        ),
        note='Trusted: CPython ast; rows have positive duration and lie inside their chunk (enforced by Chunk.__init__).',
        technique='finite abstract-domain enumeration of comparison predicates + dominator rules + argument binding checks',
        design_ref="DESIGN.md section 4 C10",
    ),
    "C13": dict(
        text=(
            'Static backpressure structure: capacity gate dominates the only heap insert; in lazy mode every source advance is gated by the fetch predicate (per output in the divider); exhaustive decision table of _can_fetch; lazy only without worker pools, savers never drive, flow-freely = produced - required; demand published before waiting and withdrawn before extraction. The numeric bound per plugin graph is not decided.'
            ' Added: data-type names are never iterated as collections in the wiring code.'
            ' Also: can_drive relayed by add_reader; plugin-declared capacity unchanged on its output mailbox.'
        ),
        note='Trusted: CPython ast; threading.Condition semantics.',
        technique='cut-set path rules for gates, decision-table extraction, wiring-argument provenance',
        design_ref="DESIGN.md section 4 C13",
    ),
    "C14": dict(
        text=(
            'Key dependence on the subrun specification, persistence of per-chunk subruns, exhaustive enumeration of the run-annotation split, order preservation of the specification from define_run through the metadata writer to the loader chain, and planning rules of the superrun branch. Equality of the concatenated rows is not decided.'
            ' Added later: the whole subrun specification (not a projection of it) is hashed into the key.'
        ),
        note='Trusted: CPython ast; dict order survives json without sort_keys.',
        technique='provenance / who-may-construct rules, weak-ordering enumeration, order-preservation lint on serialisation, dominator rules',
        design_ref="DESIGN.md section 4 C14",
    ),
    "C17": dict(
        text=(
            'Must-pass-through of sortedness checks (ValueError on failure) for both inputs of every public interval wrapper, whole-package stable-sort sweep, and ordering-domain enumeration of the containment and touching-window comparison predicates against their definitions. Kernel loop logic and numeric agreement with quadratic definitions are not decided.'
            ' Added: the break predicate of _find_break_i as a linear form (start - running max end - safe_break >= 0).'
            ' Also: public interval functions never write into their inputs; no stale loop-locals in the kernels.'
        ),
        note='Trusted: CPython ast; numpy mergesort is stable.',
        technique='inter-procedural must-pass-through rule, package-wide call-site sweep with positive fixture, weak-ordering enumeration',
        design_ref="DESIGN.md section 4 C17",
    ),
    "C18": dict(
        text=(
            'Effect (field write-set) analysis of the waveform routines, identical-slice copy rule for the reduction kernel, metadata-copy field set, and assignment coverage / threshold comparison of the hit finder. Which samples are kept and numeric field values are not decided.'
            ' Added: open-ended sample slices into neighbouring fragments only on the right side of zero; record_links links only non-first fragments that start exactly where the previous record ended and updates its per-channel bookkeeping for every record.'
            ' Also: per-hit accumulators reset between hits; no stale loop-locals (per-channel baseline values).'
        ),
        note='Trusted: CPython ast; numpy structured-array store semantics.',
        technique='effect summaries through aliases of record arrays, write-set table, assignment coverage',
        design_ref="DESIGN.md section 4 C18",
    ),
    "C01": dict(
        text=(
            "Static necessary conditions of chunking/processor independence: closed ownership table for "
            "in-place edits of chunk objects (a published chunk is never modified while other "
            "subscribers hold it; get_iter must edit a copy), effect summaries showing that plugins "
            "with cross-chunk state resolve parallel=False and that only do_compute is submitted to "
            "executors under the parallel flag, single producer per data type in both processors, "
            "continuity guard on the user-facing iterator.  Row-for-row equality of results is not "
            "decided."
            " Added later: delivery discipline of the single-thread processor's post office (numbering bases, whole-cache lookup by number, acknowledge-yield-advance, exhaustive decision table of _message_may_come, every message to every spy) and the saver thread's own continuity check."
        ),
        note="Trusted: CPython ast; receiver-name table distinguishing plugins from chunks; ownership reasons in sa/props/c01.py.",
        technique="ownership / who-may-write table with reaching-definition conditions, effect summaries over the class hierarchy, provenance of fan-out arguments",
        design_ref="DESIGN.md section 4 C01",
    ),
    "C12": dict(
        text=(
            "Static validation-path analysis: dead-guard lint (a comparison guard whose operands are "
            "the same expression after inlining reaching definitions), must-pass-through of label and "
            "dtype checkers on every chunk-returning path of _fix_output and of every override "
            "(sibling agreement), chunk constructor guards compared with their specification on all "
            "weak orderings, continuity guard, time-field decision table and its coverage of all "
            "plugin construction paths."
            ' Added: dtype checks compare dtype objects (not order-forgetting projections) and the memory layout, and no check compares an object with something read off that object.'
            ' Also: dtype checks unconditional with respect to the number of rows; the saver thread checks continuity itself.'
        ),
        note="Trusted: CPython ast; numpy dtype inequality; checker discovery by role (functions that raise on data_type / dtype mismatch).",
        technique="dead-guard lint with flow-sensitive inlining, cut-set path rules, ordering-domain enumeration, decision tables",
        design_ref="DESIGN.md section 4 C12",
    ),
    "C15": dict(
        text=(
            "Static race detection on the Context state shared by multi_run workers (lockset analysis "
            "over functions reachable from the submitted callable: size-changing writes vs. Python-level "
            "iteration, rebinding vs. subscript reads), plus CFG rules on multi_run's result "
            "collection.  The tree violates the race rule (Context has no lock): the 15 racy "
            "(attribute, writer, reader) pairs are recorded as known findings; any new pair is a "
            "violation."
            ' Added: work-queue rules of multi_run (one sorted sequence, cursor advanced once per submission, every finished future frees a slot) and publication of a plugin into the shared cache only after it is fully built.'
            ' Also: arguments of the single-run branch forwarded to multi_run; temporary merge plugin removed before the first yield.'
        ),
        note="Trusted: GIL atomicity of single dict/list operations and of list()/dict()/.copy(); call graph restricted to self-calls on Context.",
        technique="lockset-style static race detection with effect summaries and alias tracking; dominator rules on multi_run",
        design_ref="DESIGN.md section 4 C15",
    ),
    "C16": dict(
        text=(
            "Closed table of destructive calls with required target provenance and guards, overwrite "
            "decision (find(write=True)) or destination-is-not-source guard before every direct saver "
            "creation, path-sensitive Future-typed-local lint, copy-target filter clauses, inspection of "
            "an asynchronously running saver's outcome before acting on it, ordering of verify / remove "
            "/ move in the rechunker.  Equality of the copied rows is not decided."
            ' Added: wrapper generators around loaders yield every chunk they take, a loader consumed per target is created per target, streaming decompressors are drained.'
            ' Also: per-chunk processing refused for every transitive dependant that looks across chunks; lineage walk always reached; one stream per copy / merge target.'
        ),
        note="Trusted: CPython ast; concurrent.futures.Future API; the reviewed destructive-call table in sa/props/c16.py.",
        technique="who-may-call table with provenance and guard dominance, path-sensitive abstract interpretation, cut-set path rules",
        design_ref="DESIGN.md section 4 C16",
    ),
    "C02": dict(
        text=(
            "Static cache-coherence and determinism analysis: what the fixed plugin cache is keyed on "
            "versus every way the plugin registry can change (replacing stores must be preceded by an "
            "invalidation), cache reads keyed by the current context hash, a determinism lint over "
            "the whole hash path (no builtin hash values, sorted mappings/sets, nothing address "
            "dependent), the track filter on both lineage branches, exact-vs-fuzzy match structure, and "
            "the no-save guard under fuzzy matching.  Necessary conditions of 'no stale reads after "
            "any history'; equality with a fresh-context oracle is not decided."
            ' Added later: lineage-key agreement between lineage construction and the fuzzy_for translation, and configuration ownership (fresh dict from combine_configs, set_config rebinds, given options win in new_context).'
        ),
        note="Trusted: CPython ast; json/sha1 determinism; plugin classes are not mutated in place after registration.",
        technique="def-use / provenance comparison of cache key vs. cached value inputs; path (cut-set) rule on registry stores; determinism lint",
        design_ref="DESIGN.md section 4 C02",
    ),
    "C04": dict(
        text=(
            "Static path and provenance rules over the write protocol, valid for every crash / fault "
            "position because they hold on all CFG paths: writes only under *_temp, final rename last "
            "and after the metadata flush, failure/completion markers before publication, every "
            "asynchronous write observed before the normal-path close, broken-data tests on every read "
            "path (exhaustive decision table for the overwrite policy), savers closed while the "
            "exception is active, failed saves recorded and re-raised."
            " Added: the temporary directory starts empty on every path; the failure is recorded in got_exception on every way out of the saver thread's handler (exception edges included)."
            " Also: close() failures in the saver thread's finally are recorded; only DataNotAvailable is skipped while savers are created."
        ),
        note="Trusted: atomicity of os.rename; formatted_exception() non-empty iff an exception is active; CPython ast.",
        technique="provenance of path arguments, dominator / cut-set path rules, decision-table extraction, future-flow rule",
        design_ref="DESIGN.md section 4 C04",
    ),
    "C06": dict(
        text=(
            "Static analysis of all failure paths: thread entries resolved from Thread targets through "
            "the processor wiring must convert exceptions into kills; kill wakes all waiters; both "
            "processors catch Exception and GeneratorExit, assign the relay variable on every handler "
            "path, kill all mailboxes, join, re-raise the original object; a path-sensitive abstract "
            "interpretation rejects statements that fail by construction on those paths; every "
            "catch-all handler in the pipeline modules reacts.  Liveness beyond this structure "
            "(capacity vs. plugin lag) is not decided."
            ' Added: the saver thread records its failure before anything in its handler can raise.'
            ' Also: plugin-declared mailbox capacity honoured, kill loops reach every mailbox, closing savers on failure paths is idempotent (known finding F19 in the single-thread processor).'
        ),
        note="Trusted: generator.throw semantics; Mailbox.cleanup joins; CPython ast; callee resolution table in sa/resolve.py.",
        technique="handler-path cut-set rules on the CFG, thread-entry resolution, path-sensitive abstract interpretation, provenance of the re-raised object",
        design_ref="DESIGN.md section 4 C06",
    ),
    "C11": dict(
        text=(
            "Exhaustive decision tables (save policy x targets x save; frontend accept filter) "
            "extracted by abstract execution and compared with the specification, plus guard-dominance "
            "rules: the only saver-creating call of get_components is dominated by all no-save guards "
            "and a positive policy test; scheduling only on the not-stored branch and after the "
            "availability errors; single producer per data type in both processors.  The number of "
            "compute calls at run time is not decided."
            ' Added later: forbid_creation_of normalised before its membership tests; decision table decided through path-local bindings.'
        ),
        note="Trusted: CPython ast; the guard requirement table in sa/props/c11.py.",
        technique="finite decision-table extraction + dominator rules on guard edges + provenance of fan-out arguments",
        design_ref="DESIGN.md section 4 C11",
    ),
    "C05": dict(
        text=(
            "Static monitor-discipline analysis of strax.mailbox over all CFG paths: lockset on the "
            "shared fields, wait/notify completeness (no lost wake-up) with exhaustive "
            "classification of predicate-relevant writes, capacity gate dominating the only heap "
            "insert, removal only under a min-over-subscribers test, nothing blocking under the "
            "lock, end-marker ordering.  These are necessary conditions of exactly-once in-order "
            "delivery for every schedule; value arithmetic of message numbers is not decided."
            ' Added: numbering / cursor discipline (send counter and reader cursor start equal and advance by one per insert / per extracted message, queue-then-advance order, cursor-1 published, every queued message yielded) and sender loops forwarding every item exactly once.'
            ' Also: every subscriber is registered before the mailbox is started.'
        ),
        note=(
            "Trusted: CPython ast; threading.Condition semantics; single sending thread per mailbox; "
            "the write-site classification table in sa/props/c05.py (one reason per entry)."
        ),
        technique="lockset + wait/notify completeness + dominator/cut-set path rules on a statement CFG",
        design_ref="DESIGN.md section 4 C05",
    ),
}

NOT_APPLICABLE = {}

# Properties whose checks are still being built in this session (listed as unclaimed until done).
PENDING = {
    pid: "check under construction in this session: not claimed until its rules run clean on the tree"
    for pid in [f"C{i:02d}" for i in range(1, 19)]
    if pid not in CLAIMED
}
