"""Finite decision-table extraction.

Abstractly executes a small side-effect-free function whose control flow is if/elif/return/raise
(plus simple local assignments and for-loops with an early return) under an *oracle* that assigns a
truth value to every atomic test.  Enumerating all oracle valuations yields the complete decision
table of the function, which a rule compares with the specification.
"""

import ast
import itertools

from .index import AnalysisError, norm


class Unknown(AnalysisError):
    pass


class _Return(Exception):
    def __init__(self, value):
        self.value = value


class _Raise(Exception):
    def __init__(self, name):
        self.name = name


def atoms_of(fnode, is_atom):
    """Collect the distinct atomic tests (normalised text) in a function's tests/returns."""
    out = []

    def rec(e):
        if isinstance(e, ast.BoolOp):
            for v in e.values:
                rec(v)
        elif isinstance(e, ast.UnaryOp) and isinstance(e.op, ast.Not):
            rec(e.operand)
        elif isinstance(e, ast.Constant):
            pass
        else:
            t = norm(e)
            if t not in out:
                out.append(t)

    for n in ast.walk(fnode):
        if isinstance(n, (ast.If, ast.While)):
            rec(n.test)
        elif isinstance(n, ast.Return) and n.value is not None and is_boolish(n.value):
            rec(n.value)
        elif isinstance(n, ast.IfExp):
            rec(n.test)
    return out


def is_boolish(e):
    return isinstance(e, (ast.BoolOp, ast.Compare, ast.Constant)) or (
        isinstance(e, ast.UnaryOp) and isinstance(e.op, ast.Not)
    )


def eval_bool(e, oracle, env):
    if isinstance(e, ast.BoolOp):
        if isinstance(e.op, ast.And):
            for v in e.values:
                if not eval_bool(v, oracle, env):
                    return False
            return True
        for v in e.values:
            if eval_bool(v, oracle, env):
                return True
        return False
    if isinstance(e, ast.UnaryOp) and isinstance(e.op, ast.Not):
        return not eval_bool(e.operand, oracle, env)
    if isinstance(e, ast.Constant):
        return bool(e.value)
    if isinstance(e, ast.Name) and e.id in env:
        v = env[e.id]
        if isinstance(v, bool):
            return v
        return eval_bool(v, oracle, env)
    r = oracle(norm(e), e)
    if r is None and env:
        # locals that were bound to a non-boolean expression earlier on this path are inlined, so that
        # `x = a.b[c]; if x == K:` is decided like `if a.b[c] == K:`
        e2 = _inline_env(e, env)
        if e2 is not None:
            r = oracle(norm(e2), e2)
    if r is None:
        raise Unknown(f"oracle has no value for atom `{norm(e)}`")
    return r


class _EnvInliner(ast.NodeTransformer):
    def __init__(self, env):
        self.env = env
        self.changed = False

    def visit_Name(self, node):
        v = self.env.get(node.id)
        if isinstance(node.ctx, ast.Load) and isinstance(v, str):
            try:
                new = ast.parse(v, mode="eval").body
            except SyntaxError:
                return node
            self.changed = True
            return new
        return node


def _inline_env(e, env):
    try:
        clone = ast.parse(ast.unparse(e), mode="eval").body
    except SyntaxError:
        return None
    t = _EnvInliner(env)
    out = t.visit(clone)
    return ast.fix_missing_locations(out) if t.changed else None


def run(fnode, oracle, max_steps=2000):
    """Execute fnode's body under the oracle.  Returns ('return', value) with value a bool when the
    returned expression is boolean, else its normalised text; ('raise', ExceptionName); or
    ('return', None) when the end is reached."""
    env = {}
    steps = [0]

    def block(stmts):
        for s in stmts:
            stmt(s)

    def stmt(s):
        steps[0] += 1
        if steps[0] > max_steps:
            raise Unknown("step limit")
        if isinstance(s, ast.Expr):
            return
        if isinstance(s, ast.Assert):
            if not eval_bool(s.test, oracle, env):
                raise _Raise("AssertionError")
            return
        if isinstance(s, ast.Pass):
            return
        if isinstance(s, ast.Assign) and len(s.targets) == 1 and isinstance(s.targets[0], ast.Name):
            env[s.targets[0].id] = s.value if is_boolish(s.value) else norm(s.value)
            return
        if isinstance(s, ast.If):
            if eval_bool(s.test, oracle, env):
                block(s.body)
            else:
                block(s.orelse)
            return
        if isinstance(s, ast.Return):
            if s.value is None:
                raise _Return(None)
            if is_boolish(s.value) or (isinstance(s.value, ast.Name) and s.value.id in env and not isinstance(env[s.value.id], str)):
                raise _Return(eval_bool(s.value, oracle, env))
            raise _Return(norm(s.value))
        if isinstance(s, ast.Raise):
            e = s.exc
            if isinstance(e, ast.Call):
                e = e.func
            raise _Raise(norm(e).split(".")[-1] if e is not None else "reraise")
        if isinstance(s, ast.For):
            # `for ... in ...: if <atom>: return X` - the oracle decides whether some iteration
            # takes the early exit, through the atom text of the loop's inner test
            r = oracle("for:" + norm(s.target) + " in " + norm(s.iter), s)
            if r is None:
                raise Unknown(f"oracle has no value for loop `{norm(s.iter)}`")
            if r:
                block(s.body)
            block(s.orelse)
            return
        raise Unknown(f"statement kind {type(s).__name__} not supported: {norm(s)[:60]}")

    try:
        block(fnode.body)
    except _Return as r:
        return ("return", r.value)
    except _Raise as r:
        return ("raise", r.name)
    return ("return", None)


def table(fnode, atom_values):
    """atom_values: list of (atom_text, [possible values]) ; yields (valuation dict, outcome)."""
    names = [a for a, _ in atom_values]
    for combo in itertools.product(*[v for _, v in atom_values]):
        val = dict(zip(names, combo))

        def oracle(text, node, val=val):
            return val.get(text)

        yield val, run(fnode, oracle)
