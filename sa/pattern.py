"""Structural patterns over the AST, so that rules can name constructs without naming locals.

A pattern is Python source with metavariables:
    L_x   matches any local name (ast.Name) and binds it            e.g.  "L_n != 1"
    E_x   matches any expression and binds it                       e.g.  "E_buf.split(t=E_t)"
    ___   (three underscores) matches any expression, no binding
Everything else must match structurally (attribute names, call names, constants, operators).
Keyword arguments are matched by name in any order; extra keywords / positional arguments in the
subject are allowed only if the pattern's argument list contains `**___`.
Comparisons are brought to canonical form on both sides (a > b == b < a).
"""

import ast

from .index import _Canon, _needs_canon


def _parse(pattern):
    if isinstance(pattern, ast.AST):
        return pattern
    try:
        node = ast.parse(pattern, mode="eval").body
    except SyntaxError:
        mod = ast.parse(pattern)
        node = mod.body[0]
    if _needs_canon(node):
        node = _Canon().visit(node)
    return node


_PCACHE = {}


def compile_pattern(pattern):
    if isinstance(pattern, str):
        if pattern not in _PCACHE:
            _PCACHE[pattern] = _parse(pattern)
        return _PCACHE[pattern]
    return pattern


def _canon_subject(node):
    if _needs_canon(node):
        clone = ast.parse(ast.unparse(node))
        clone = _Canon().visit(clone)
        body = clone.body[0]
        return body.value if isinstance(body, ast.Expr) and not isinstance(node, ast.stmt) else body
    return node


def pmatch(pattern, node, binds=None):
    """Bindings dict if node matches pattern, else None."""
    p = compile_pattern(pattern)
    b = dict(binds or {})
    return b if _m(p, _canon_subject(node), b) else None


def _m(p, n, b):
    if isinstance(p, ast.Name):
        pid = p.id
        if pid == "___":
            return True
        if pid.startswith("L_"):
            if not isinstance(n, ast.Name):
                return False
            if pid in b:
                return b[pid] == n.id
            b[pid] = n.id
            return True
        if pid.startswith("E_"):
            if pid in b:
                return ast.dump(b[pid]) == ast.dump(n) if isinstance(b[pid], ast.AST) else False
            b[pid] = n
            return True
        return isinstance(n, ast.Name) and n.id == pid
    if isinstance(p, ast.Expr) and isinstance(n, ast.Expr):
        return _m(p.value, n.value, b)
    if type(p) is not type(n):
        return False
    if isinstance(p, ast.Constant):
        return p.value == n.value and type(p.value) is type(n.value)
    if isinstance(p, ast.Call):
        if not _m(p.func, n.func, b):
            return False
        pargs = list(p.args)
        open_ended = any(k.arg is None and isinstance(k.value, ast.Name) and k.value.id == "___" for k in p.keywords)
        if len(n.args) < len(pargs) or (not open_ended and len(n.args) != len(pargs)):
            return False
        for pa, na in zip(pargs, n.args):
            if not _m(pa, na, b):
                return False
        nk = {k.arg: k.value for k in n.keywords}
        pk = [k for k in p.keywords if k.arg is not None]
        for k in pk:
            if k.arg not in nk or not _m(k.value, nk[k.arg], b):
                return False
        if not open_ended and len(nk) != len(pk):
            return False
        return True
    for field in p._fields:
        if field in ("ctx", "type_comment", "lineno", "col_offset", "end_lineno", "end_col_offset", "kind"):
            continue
        pv, nv = getattr(p, field, None), getattr(n, field, None)
        if isinstance(pv, list):
            if not isinstance(nv, list) or len(pv) != len(nv):
                return False
            for x, y in zip(pv, nv):
                if isinstance(x, ast.AST):
                    if not _m(x, y, b):
                        return False
                elif x != y:
                    return False
        elif isinstance(pv, ast.AST):
            if not isinstance(nv, ast.AST) or not _m(pv, nv, b):
                return False
        else:
            if pv != nv:
                return False
    return True


def find(root, pattern, binds=None, own_scope=True):
    """[(node, bindings)] for every sub-node of root (a function node or any AST) that matches."""
    p = compile_pattern(pattern)
    out = []
    stack = list(root.body) if own_scope and isinstance(root, (ast.FunctionDef, ast.AsyncFunctionDef)) else [root]
    while stack:
        n = stack.pop()
        if type(n) is type(p) or isinstance(p, ast.Name):
            b = dict(binds or {})
            if _m(p, _canon_subject(n) if isinstance(n, (ast.Compare, ast.BoolOp, ast.If, ast.Assign)) else n, b):
                out.append((n, b))
        if own_scope and isinstance(n, (ast.FunctionDef, ast.AsyncFunctionDef, ast.ClassDef)):
            continue
        stack.extend(ast.iter_child_nodes(n))
    out.sort(key=lambda x: (getattr(x[0], "lineno", 0), getattr(x[0], "col_offset", 0)))
    return out


def find1(root, pattern, binds=None):
    r = find(root, pattern, binds)
    return r[0] if r else (None, None)


def has_fact(cfg, node, pattern, polarity, binds=None):
    """Does a guard literal matching `pattern` with `polarity` dominate CFG node?"""
    for e, pol, g in cfg.guard_literals(node):
        if pol is polarity and pmatch(pattern, e, binds) is not None:
            return True
    return False


def facts_matching(cfg, node, pattern, polarity=None, binds=None):
    out = []
    for e, pol, g in cfg.guard_literals(node):
        if polarity is not None and pol is not polarity:
            continue
        b = pmatch(pattern, e, binds)
        if b is not None:
            out.append((e, pol, g, b))
    return out


def local_defined_as(fnode, pattern, binds=None):
    """Name of the local assigned from an expression matching `pattern` (first match), with the
    assignment node and bindings: (name, assign, binds) or (None, None, None)."""
    p = compile_pattern(pattern)
    cands = []
    stack = list(fnode.body)
    while stack:
        n = stack.pop()
        if isinstance(n, ast.Assign) and len(n.targets) == 1 and isinstance(n.targets[0], ast.Name):
            b = pmatch(p, n.value, binds)
            if b is not None:
                cands.append((n.targets[0].id, n, b))
        if isinstance(n, (ast.FunctionDef, ast.AsyncFunctionDef, ast.ClassDef)):
            continue
        stack.extend(ast.iter_child_nodes(n))
    cands.sort(key=lambda x: x[1].lineno)
    return cands[0] if cands else (None, None, None)
