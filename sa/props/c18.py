"""C18 - hit finding and data reduction keep exactly the samples they should.

Decided statically: the field write-set of each waveform routine (data reduction may only store
`data` and `reduction_level`, never the input records; baselining only data / baseline /
baseline_rms; integration only area; record linking nothing), the copy statements of the reduction
kernel copy the same slice of the same record, the metadata copy covers every field except exactly
those two, the hit finder assigns every hit field the property names and uses `>= threshold`.
Not decided: which samples are kept and the numeric values of the hit fields.
"""

import ast

from ..cfg import cfg_of, literals
from ..dataflow import Defs, atoms, calls_in, stmt_of
from ..index import N, AnalysisError, call_name, dotted, enclosing, head, norm, walk_body
from ..pattern import find, has_fact, local_defined_as, pmatch
from ..rules import COMPOUND, kw, node_calls, own_calls
from ..witness import W

RED = "strax/processing/data_reduction.py"
PULSE = "strax/processing/pulse_processing.py"

EXPLANATION = (
    "R1 effect analysis: for every assignment in the waveform routines the stored record field is "
    "extracted from the subscript / attribute chain of the target (through loop variables and aliases "
    "of the record array) and compared with the routine's allowed write-set; in _cut_outside_hits "
    "every store goes to the output array and copies records[i]['data'][s] to new_recs[i]['data'][s] "
    "with identical index and slice. R2 the hit finder stores every field the property lists, with "
    "values whose provenance is the record and the hit bounds, thresholds with `>=`, and refuses "
    "zero-length hits. R3 the metadata copy of cut_outside_hits ranges over records.dtype.names minus "
    "exactly {data, reduction_level} and copies from the input records."
)
RULE_TEXT = "one obligation per (routine, stored field), per copy statement, per hit field"
ASSUMPTIONS = ["numpy structured-array semantics: a store to arr[i]['f'][s] or rec.f[s] modifies field f only"]

# routine -> (allowed fields, arrays that must not be written)
WRITE_SETS = {
    ("cut_baseline", RED): ({"data", "reduction_level"}, set()),
    ("cut_outside_hits", RED): ({"reduction_level", "<fields>"}, {"records", "hits"}),
    ("_cut_outside_hits", RED): ({"data"}, {"records", "hits"}),
    ("baseline", PULSE): ({"data", "baseline", "baseline_rms"}, set()),
    ("integrate", PULSE): ({"area"}, set()),
    ("zero_out_of_bounds", PULSE): ({"data"}, set()),
    ("record_links", PULSE): (set(), {"records"}),
    ("find_hits", PULSE): (set(), {"records"}),
}


def run(chk):
    repo = chk.repo
    r1_write_sets(chk, repo)
    r2_hit_fields(chk, repo)
    r3_metadata_copy(chk, repo)
    r4_slices(chk, repo)
    r5_record_links(chk, repo)
    r6_per_hit_state(chk, repo)
    r7_stale_locals(chk, repo, "C18.R7", [PULSE, RED])
    from ..rules import dropped_parameters
    dropped_parameters(chk, repo, "C18.R8", [PULSE, RED])
    r9_like_dtype(chk, repo)


def record_vars(f):
    """Local names that denote the record array or one of its rows: {name: root array name}."""
    out = {p: p for p in f.params}
    d = Defs(f.node)
    changed = True
    while changed:
        changed = False
        for name, lst in d.defs.items():
            if name in out:
                continue
            for v, st, how in lst:
                if v is None:
                    continue
                root = v
                if how in ("iter", "iter-unpack"):
                    # for d in records / for i, d in enumerate(records)
                    if isinstance(root, ast.Call) and call_name(root) == "enumerate" and root.args:
                        root = root.args[0]
                while isinstance(root, ast.Subscript):
                    root = root.value
                if isinstance(root, ast.Name) and root.id in out and how in ("iter", "iter-unpack", "assign"):
                    if how == "assign" and not isinstance(v, (ast.Subscript, ast.Name)):
                        continue
                    out[name] = out[root.id]
                    changed = True
                    break
    return out


def stores(f):
    """[(root array, field or None, stmt)] for every subscript / attribute store in f."""
    rv = record_vars(f)
    out = []
    for n in walk_body(f.node):
        tg = []
        if isinstance(n, ast.Assign):
            tg = n.targets
        elif isinstance(n, ast.AugAssign):
            tg = [n.target]
        for t in tg:
            for x in (t.elts if isinstance(t, (ast.Tuple, ast.List)) else [t]):
                if not isinstance(x, (ast.Subscript, ast.Attribute)):
                    continue
                chain = []
                cur = x
                while isinstance(cur, (ast.Subscript, ast.Attribute)):
                    if isinstance(cur, ast.Attribute):
                        chain.append(("attr", cur.attr))
                    elif isinstance(cur.slice, ast.Constant) and isinstance(cur.slice.value, str):
                        chain.append(("field", cur.slice.value))
                    elif isinstance(cur.slice, ast.Name):
                        chain.append(("name", cur.slice.id))
                    else:
                        chain.append(("index", None))
                    cur = cur.value
                if not isinstance(cur, ast.Name) or cur.id not in rv:
                    continue
                chain.reverse()
                field = None
                named = [val for kind, val in chain if kind in ("attr", "field")]
                if named:
                    field = named[0]
                else:
                    # arr[name] = ...: whole rows, or a list of fields held in a variable
                    sel = [val for kind, val in chain if kind == "name"]
                    field = "<fields>" if sel else "<rows>"
                out.append((rv[cur.id], field, n))
    return out


def r1_write_sets(chk, repo):
    chk.describe("C18.R1", "each waveform routine stores only the record fields it is allowed to; data reduction never writes its input and copies samples unchanged")
    n = 0
    for (q, p), (allowed, frozen) in WRITE_SETS.items():
        f = repo.func(q, p)
        ss = stores(f)
        local_arrays = {"new_recs", "previous_record", "next_record", "last_record_seen", "expected_next_start", "last_bl_in", "seen_first", "buffer", "res"}
        for root, field, st in ss:
            if root in frozen:
                n += 1
                chk.fail("C18.R1", f, st, f"{q} writes into its input array `{root}` (field {field}): the caller's data is altered", site={"function": q, "field": field, "array": root})
                continue
            if root not in f.params:
                continue
            n += 1
            chk.check(field in allowed, "C18.R1", f, st, f"{q} stores record field `{field}`, allowed are {sorted(allowed)}: record metadata / samples outside its remit are altered",
                      site_text=f"{q}: stores `{field}` of `{root}`", site={"function": q, "field": field})
        if not [1 for root, field, st in ss if root in f.params]:
            chk.ok("C18.R1", f"{q}: no store into its arguments", nontrivial=False)
    chk.floor("C18.R1", "record field stores", n, 10)
    # copy statements of the reduction kernel
    k = repo.func("_cut_outside_hits", RED)
    cps = [st for root, field, st in stores(k) if root == "new_recs"]
    chk.floor("C18.R1", "copy statements in _cut_outside_hits", len(cps), 2)
    for st in cps:
        t, v = norm(st.targets[0]), norm(st.value)
        chk.check(t.startswith("new_recs[") and v == "records" + t[len("new_recs"):], "C18.R1", k, st, "kept samples are not copied from the same record and the same sample range of the input",
                  site_text=f"_cut_outside_hits: `{t}` copied from the identical slice of records", site={"function": k.qualname, "construct": t})
    co = repo.func("cut_outside_hits", RED)
    NR, nr_assign, _ = local_defined_as(co.node, "np.zeros(len(records), dtype=records.dtype)")
    chk.check(NR is not None, "C18.R1", co, None, "output records do not start zeroed with the input's length and dtype", site_text="cut_outside_hits: output = zeros(len(records), records.dtype)")
    kc = [c for c in calls_in(co.node) if call_name(c) == "_cut_outside_hits"]
    chk.check(len(kc) == 1 and [norm(a) for a in kc[0].args[:3]] == ["records", "hits", NR], "C18.R1", co, None, "kernel is not called with (input, hits, output)", site_text="cut_outside_hits: _cut_outside_hits(records, hits, output, ...)")
    rets = [n_ for n_ in walk_body(co.node) if isinstance(n_, ast.Return) and n_.value is not None]
    chk.check({norm(r.value) for r in rets} == {"records", NR}, "C18.R1", co, None, "reduced records are not what is returned", site_text="cut_outside_hits: returns the output (records if empty)")


HIT_FIELDS = ["time", "length", "dt", "channel", "record_i", "area", "height", "max_time", "left", "right", "threshold"]


def r2_hit_fields(chk, repo):
    chk.describe("C18.R2", "the hit finder fills time, length, dt, channel, record_i, area, height, max_time, left, right and threshold of every hit, thresholds with >=, and refuses zero-length hits")
    f = repo.func("_find_hits", PULSE)
    cfg = cfg_of(f)
    # the result row: the local whose string-keyed items are assigned most often
    by_name = {}
    for n in walk_body(f.node):
        if isinstance(n, ast.Assign) and isinstance(n.targets[0], ast.Subscript) and isinstance(n.targets[0].value, ast.Name) and isinstance(n.targets[0].slice, ast.Constant) and isinstance(n.targets[0].slice.value, str):
            by_name.setdefault(n.targets[0].value.id, {})[n.targets[0].slice.value] = n
    chk.need(bool(by_name), "C18.R2: no field assignments found in _find_hits")
    assigned = max(by_name.values(), key=len)
    for fld in HIT_FIELDS:
        st = assigned.get(fld)
        chk.check(st is not None, "C18.R2", f, st, f"hit field `{fld}` is not assigned", site_text=f"_find_hits: hit[{fld}] assigned", site={"function": f.qualname, "field": fld})
    blocks = {id(enclosing(st, (ast.If,))) for st in assigned.values()}
    chk.check(len(blocks) == 1, "C18.R2", f, None, "hit fields are not filled together for every saved hit", site_text="_find_hits: all fields assigned in the save block", nontrivial=False)
    left, right = assigned.get("left"), assigned.get("right")
    HS = left.value.id if left is not None and isinstance(left.value, ast.Name) else None
    HE = right.value.id if right is not None and isinstance(right.value, ast.Name) else None
    chk.check(HS is not None and HE is not None and HS != HE, "C18.R2", f, left, "left / right are not the start / end sample indices of the hit", site_text="_find_hits: left = hit start index, right = hit end index")
    if HS is None or HE is None:
        return
    ln = assigned.get("length")
    chk.check(ln is not None and pmatch(f"{HE} - {HS}", ln.value) is not None, "C18.R2", f, ln, "hit length is not end - start (exclusive right bound)", site_text="_find_hits: length = end - start", site={"function": f.qualname, "field": "length-value"})
    tm = assigned.get("time")
    chk.check(tm is not None and pmatch(f"L_r['time'] + {HS} * L_r['dt']", tm.value) is not None, "C18.R2", f, tm, "hit time is not record time + start sample x dt", site_text="_find_hits: time = r.time + start * dt", site={"function": f.qualname, "field": "time-value"})
    for fld, pat in (("dt", "L_r['dt']"), ("channel", "L_r['channel']")):
        st = assigned.get(fld)
        chk.check(st is not None and pmatch(pat, st.value) is not None, "C18.R2", f, st, f"hit {fld} is not the record's {fld}", site_text=f"_find_hits: {fld} = r[{fld}]", site={"function": f.qualname, "field": fld + "-value"})
    ri = assigned.get("record_i")
    loops = [n for n in walk_body(f.node) if isinstance(n, ast.For) and pmatch("enumerate(records)", n.iter) is not None and isinstance(n.target, ast.Tuple)]
    chk.check(ri is not None and bool(loops) and isinstance(ri.value, ast.Name) and ri.value.id == norm(loops[0].target.elts[0]), "C18.R2", f, ri, "record_i is not the index of the record the hit was found in", site_text="_find_hits: record_i = index of the enclosing record", site={"function": f.qualname, "field": "record_i-value"})
    th = assigned.get("threshold")
    TH = th.value.id if th is not None and isinstance(th.value, ast.Name) else None
    sat = [(n, b) for n, b in find(f.node, "L_sat = L_x >= L_thr") if b["L_thr"] == TH] if TH else []
    chk.check(bool(sat), "C18.R2", f, None, "samples are not compared with `>= threshold` (hits are runs of samples at or above threshold), or the stored threshold is not the one applied", site_text="_find_hits: satisfy = x >= threshold, threshold stored", site={"function": f.qualname, "construct": "threshold comparison"})
    thd = [n for n, b in find(f.node, f"{TH} = max(min_amplitude[L_r['channel']], L_r['baseline_rms'] * min_height_over_noise[L_r['channel']])")] if TH else []
    chk.check(bool(thd), "C18.R2", f, None, "threshold is not the maximum of the per-channel amplitude and noise-scaled thresholds", site_text="_find_hits: threshold = max(min_amplitude[ch], rms * min_height_over_noise[ch])")
    chk.check(any(isinstance(n.stmt, ast.Raise) and has_fact(cfg, n, f"{HE} == {HS}", True) for n in cfg.stmt_nodes()), "C18.R2", f, None, "zero-length hits can be saved", site_text="_find_hits: raise on zero-length hit")
    SAT = sat[0][1]["L_sat"] if sat else None
    ends = [n for n in walk_body(f.node) if isinstance(n, ast.Assign) and norm(n.targets[0]) == HE]
    sample_loops = [n for n in walk_body(f.node) if isinstance(n, ast.For) and pmatch("range(L_n)", n.iter) is not None and isinstance(n.target, ast.Name)]
    I = sample_loops[0].target.id if sample_loops else None
    NS = pmatch("range(L_n)", sample_loops[0].iter)["L_n"] if sample_loops else None
    vals = {norm(n.value) for n in ends}
    chk.check(I is not None and vals == {I, f"{I} + 1"}, "C18.R2", f, None, f"hit end assignments are {sorted(vals)}, expected the sample below threshold (i) or the record end (i + 1)", site_text="_find_hits: end = i (below threshold) or i + 1 (record end)")
    for n in ends:
        node = cfg.node_of(n)
        if norm(n.value) == I:
            chk.check(SAT is not None and has_fact(cfg, node, SAT, False), "C18.R2", f, n, "a hit is ended at a sample that is above threshold", site_text="end = i when the sample is below threshold")
        else:
            chk.check(SAT is not None and has_fact(cfg, node, SAT, True) and has_fact(cfg, node, f"{I} == {NS} - 1", True), "C18.R2", f, n, "record-end termination is not at the last sample", site_text="end = i + 1 at the last sample of the record")
    fh = repo.func("find_hits", PULSE)
    rt = [n for n in walk_body(fh.node) if isinstance(n, ast.Return)]
    chk.check(any("_find_hits(records, min_amplitude, min_height_over_noise)" == norm(r.value) for r in rt), "C18.R2", fh, None, "find_hits does not delegate to the kernel with per-channel thresholds", site_text="find_hits: _find_hits(records, min_amplitude, min_height_over_noise)", nontrivial=False)


def r3_metadata_copy(chk, repo):
    chk.describe("C18.R3", "data reduction copies every record field except exactly data and reduction_level from the input")
    f = repo.func("cut_outside_hits", RED)
    NR, _a, _b = local_defined_as(f.node, "np.zeros(len(records), dtype=records.dtype)")
    comps = [n for n in walk_body(f.node) if isinstance(n, ast.Assign) and isinstance(n.targets[0], ast.Name) and isinstance(n.value, ast.ListComp) and any(norm(g.iter) == "records.dtype.names" for g in n.value.generators)]
    ok = False
    excl = None
    MF = None
    if len(comps) == 1:
        MF = comps[0].targets[0].id
        mf = comps[0].value
        g = mf.generators[0]
        if len(mf.generators) == 1 and len(g.ifs) == 1 and isinstance(g.ifs[0], ast.Compare) and isinstance(g.ifs[0].ops[0], ast.NotIn) and norm(mf.elt) == norm(g.target) and norm(g.ifs[0].left) == norm(g.target):
            c = g.ifs[0].comparators[0]
            if isinstance(c, (ast.List, ast.Tuple, ast.Set)):
                excl = {e.value for e in c.elts if isinstance(e, ast.Constant)}
                ok = excl == {"data", "reduction_level"}
    chk.check(ok, "C18.R3", f, None, f"fields copied as metadata are not all fields except data and reduction_level (excluded: {sorted(excl) if excl is not None else 'unknown'}): record metadata would be lost or the waveform copied wholesale",
              site_text="cut_outside_hits: meta fields = dtype.names - {data, reduction_level}", site={"function": f.qualname, "construct": "meta_fields"})
    cp = [n for n in walk_body(f.node) if isinstance(n, ast.Assign) and MF and NR and norm(n.targets[0]) == f"{NR}[{MF}]"]
    chk.check(len(cp) == 1 and norm(cp[0].value) == f"records[{MF}]", "C18.R3", f, cp[0] if cp else None, "metadata is not copied from the input records", site_text="cut_outside_hits: output[meta fields] = records[meta fields]", site={"function": f.qualname, "construct": "metadata copy"})
    rl = [n for n in walk_body(f.node) if isinstance(n, ast.Assign) and NR and norm(n.targets[0]) == f"{NR}['reduction_level']"]
    chk.check(len(rl) == 1 and norm(rl[0].value).endswith("HITS_ONLY"), "C18.R3", f, None, "reduction level of reduced records is not HITS_ONLY", site_text="cut_outside_hits: reduction_level = HITS_ONLY")

# ------------------------------------------------------------------------------------ R4
def r4_slices(chk, repo):
    chk.describe("C18.R4", "samples kept in the neighbouring fragment are addressed with slices whose open end is on the right side of zero: `[k:]` only under k < 0 (k == 0 would keep the whole fragment), `[:k]` only for k = a - b under a > b")
    R = "C18.R4"
    f = repo.func("_cut_outside_hits", RED)
    cfg = cfg_of(f)
    defs = Defs(f.node)
    n = 0
    for st in walk_body(f.node):
        if not (isinstance(st, ast.Assign) and isinstance(st.targets[0], ast.Subscript) and isinstance(st.targets[0].slice, ast.Slice)):
            continue
        sl = st.targets[0].slice
        node = cfg.node_of(st)
        facts = cfg.guard_facts(node)
        if sl.lower is not None and sl.upper is None:
            n += 1
            k = sl.lower
            names = [norm(k)]
            if isinstance(k, ast.Name) and defs.single(k.id) is not None and isinstance(defs.single(k.id), ast.Name):
                names.append(norm(defs.single(k.id)))
            ok = any((f"{nm} < 0", True) in facts for nm in names)
            chk.check(ok, R, f, st, f"`{head(st, 70)}` keeps the samples from index {norm(k)} on, but nothing guarantees {norm(k)} < 0 here: for 0 the whole neighbouring fragment survives the reduction",
                      site_text="_cut_outside_hits: [k:] only under k < 0", site={"function": f.qualname, "slice": "open right"})
            # both sides use the same slice
            chk.check(isinstance(st.value, ast.Subscript) and norm(st.value.slice) == norm(sl), R, f, st, "source and destination samples are not the same slice", site_text="_cut_outside_hits: same slice copied (previous fragment)")
        elif sl.lower is None and sl.upper is not None:
            n += 1
            k = sl.upper
            v = defs.single(k.id) if isinstance(k, ast.Name) else k
            ok = False
            if isinstance(v, ast.BinOp) and isinstance(v.op, ast.Sub):
                a, b = norm(v.left), norm(v.right)
                ok = (f"{a} > {b}", True) in facts or (f"{a} >= {b}", True) in facts
            chk.check(ok, R, f, st, f"`{head(st, 70)}`: the number of samples kept at the start of the next fragment can be negative (a negative stop keeps almost the whole fragment)",
                      site_text="_cut_outside_hits: [:a - b] only under a > b", site={"function": f.qualname, "slice": "open left"})
            chk.check(isinstance(st.value, ast.Subscript) and norm(st.value.slice) == norm(sl), R, f, st, "source and destination samples are not the same slice", site_text="_cut_outside_hits: same slice copied (next fragment)")
    chk.floor(R, "open-ended sample slices in _cut_outside_hits", n, 2)
    # which link array serves which side: record_links returns (previous, next); the fragment that
    # gets the `[k:]` tail must be looked up in the first, the one that gets the `[:k]` head in the second
    rl = repo.func("record_links", PULSE)
    rret = [st for st in walk_body(rl.node) if isinstance(st, ast.Return) and isinstance(st.value, ast.Tuple) and len(st.value.elts) == 2]
    chk.check(bool(rret), R, rl, None, "record_links no longer returns a pair of link arrays", site_text="record_links: returns (previous, next)")

    def link_position(func, name, depth=2):
        """0 / 1 if local `name` of `func` holds the first / second array returned by record_links."""
        for st in walk_body(func.node):
            if isinstance(st, ast.Assign) and isinstance(st.targets[0], ast.Tuple) and isinstance(st.value, ast.Call) and (call_name(st.value) or "").endswith("record_links"):
                names = [norm(e) for e in st.targets[0].elts]
                if name in names:
                    return names.index(name)
        if name in func.params and depth > 0:
            pi = func.params.index(name)
            for g in repo.functions:
                for c in calls_in(g.node):
                    if (call_name(c) or "").split(".")[-1] == func.name and g is not func:
                        pos = 0
                        for a in c.args:
                            if isinstance(a, ast.Starred):
                                src = a.value
                                v = Defs(g.node).single(src.id) if isinstance(src, ast.Name) else src
                                if isinstance(v, ast.Call) and (call_name(v) or "").endswith("record_links") and pos <= pi <= pos + 1:
                                    return pi - pos
                                pos += 2
                            else:
                                if pos == pi and isinstance(a, ast.Name):
                                    return link_position(g, a.id, depth - 1)
                                pos += 1
        return None

    for st in walk_body(f.node):
        if not (isinstance(st, ast.Assign) and isinstance(st.targets[0], ast.Subscript) and isinstance(st.targets[0].slice, ast.Slice)):
            continue
        sl = st.targets[0].slice
        tail = sl.lower is not None and sl.upper is None
        head_ = sl.lower is None and sl.upper is not None
        if not (tail or head_):
            continue
        # new_recs[<idx>]["data"][...]: where does <idx> come from?
        idx = None
        for x in ast.walk(st.targets[0]):
            if isinstance(x, ast.Subscript) and isinstance(x.slice, ast.Name) and isinstance(x.value, ast.Name):
                idx = x.slice.id
        src = defs.single(idx) if idx else None
        arr = norm(src.value) if isinstance(src, ast.Subscript) else None
        pos = link_position(f, arr) if arr else None
        want = 0 if tail else 1
        chk.check(pos == want, R, f, st, f"the fragment that receives the {'tail `[k:]`' if tail else 'head `[:k]`'} of a hit's extension is looked up in `{arr}`, which holds the {'second (next)' if pos == 1 else 'first (previous)' if pos == 0 else 'unknown'} array of record_links: samples of the wrong neighbouring fragment are kept",
                  site_text=f"_cut_outside_hits: {'previous' if tail else 'next'} fragment from record_links()[{want}]", site={"function": f.qualname, "slice": "tail" if tail else "head", "rule": "link side"})


# ------------------------------------------------------------------------------------ R5
def r5_record_links(chk, repo):
    chk.describe("C18.R5", "record_links links a record to the previous record of its channel only if it is not the first fragment of a pulse and starts exactly where that record ended; the per-channel bookkeeping is updated for every record")
    R = "C18.R5"
    f = repo.func("record_links", PULSE)
    cfg = cfg_of(f)
    loops = [n for n in walk_body(f.node) if isinstance(n, ast.For) and call_name(n.iter) == "enumerate"]
    chk.need(len(loops) == 1 and isinstance(loops[0].target, ast.Tuple), "C18.R5: record loop of record_links not found")
    lp = loops[0]
    I, REC = norm(lp.target.elts[0]), norm(lp.target.elts[1])
    rets = [st for st in walk_body(f.node) if isinstance(st, ast.Return) and isinstance(st.value, ast.Tuple) and len(st.value.elts) == 2 and all(isinstance(e, ast.Name) for e in st.value.elts)]
    chk.need(bool(rets), "C18.R5: record_links no longer returns (previous, next)")
    PREV, NEXT = [norm(e) for e in rets[-1].value.elts]
    links = [st for st in walk_body(lp) if isinstance(st, ast.Assign) and isinstance(st.targets[0], ast.Subscript) and norm(st.targets[0].value) in (PREV, NEXT) and "NO_RECORD_LINK" not in norm(st.value)]
    chk.check(len(links) == 2, R, f, lp, f"expected one store into each of the two link arrays, found {len(links)}", site_text="record_links: previous[i] = last, next[last] = i")
    for st in links:
        facts = cfg.guard_facts(cfg.node_of(st))
        first = (f"{REC}['record_i'] == 0", False) in facts
        adjacent = False
        for e, pol, g in cfg.guard_literals(cfg.node_of(st)):
            if pol is True and isinstance(e, ast.Compare) and len(e.ops) == 1 and isinstance(e.ops[0], ast.Eq):
                sides = [norm(e.left), norm(e.comparators[0])]
                other = [x for x in (e.left, e.comparators[0]) if norm(x) != f"{REC}['time']"]
                if f"{REC}['time']" in sides and len(other) == 1 and isinstance(other[0], ast.Subscript):
                    adjacent = True
        chk.check(first, R, f, st, "a first fragment (record_i == 0) can be linked to the previous record of its channel: a new pulse that starts exactly one record length after another pulse is glued to it", site_text=f"record_links: `{head(st, 40)}` only for record_i != 0", site={"function": f.qualname, "link": norm(st.targets[0].value), "guard": "not first fragment"})
        chk.check(adjacent, R, f, st, "fragments are linked although the record does not start where the previous one ended", site_text=f"record_links: `{head(st, 40)}` only if time == expected next start", site={"function": f.qualname, "link": norm(st.targets[0].value), "guard": "adjacent"})
    if len(links) == 2:
        a, b = links
        LAST = norm(a.value) if norm(a.targets[0].value) == PREV else norm(b.value)
        okd = norm(a.targets[0].value) != norm(b.targets[0].value)
        for st in links:
            if norm(st.targets[0].value) == PREV:
                okd = okd and norm(st.targets[0].slice) == I and norm(st.value) == LAST
            else:
                okd = okd and norm(st.targets[0].slice) == LAST and norm(st.value) == I
        chk.check(okd, R, f, a, "the two link arrays are not filled symmetrically (previous[i] = last and next[last] = i)", site_text="record_links: symmetric links")
        lastdef = [st for st in walk_body(lp) if isinstance(st, ast.Assign) and norm(st.targets[0]) == LAST]
        SEEN = norm(lastdef[0].value.value) if lastdef and isinstance(lastdef[0].value, ast.Subscript) else None
        CH = norm(lastdef[0].value.slice) if SEEN else None
        chk.check(SEEN is not None, R, f, None, "the previous record of the channel is not looked up per channel", site_text="record_links: last = last_record_seen[channel]")
        if SEEN:
            ups = [st for st in walk_body(lp) if isinstance(st, ast.Assign) and isinstance(st.targets[0], ast.Subscript) and norm(st.targets[0].slice) == CH]
            u1 = [st for st in ups if norm(st.targets[0].value) == SEEN and norm(st.value) == I]
            u2 = [st for st in ups if norm(st.targets[0].value) != SEEN and f"{REC}['time']" in norm(st.value) and f"{REC}['dt']" in norm(st.value)]
            ln = cfg.node_of(lp)
            first_nodes = cfg.nodes_of(lp.body[0])
            inside = {id(x) for st_ in lp.body for x in ast.walk(st_)}
            in_loop = lambda n: id(n.stmt if n.kind == "stmt" else n.owner) in inside

            def every_round(stmts):
                nodes = [cfg.node_of(x) for x in stmts]
                return bool(nodes) and (any(b in nodes for b in first_nodes) or cfg.every_path(first_nodes, [ln], lambda n: n in nodes or (n is not ln and not in_loop(n)), "n")[0])

            chk.check(every_round(u1) and every_round(u2), R, f, lp, "last record / expected next start of the channel are not updated for every record (some path through the loop body skips them)", site_text="record_links: per-channel bookkeeping updated for every record")
            for u in u2:
                v = u.value
                okv = isinstance(v, ast.BinOp) and isinstance(v.op, ast.Add) and any(norm(x) == f"{REC}['time']" for x in (v.left, v.right)) and any(isinstance(x, ast.BinOp) and isinstance(x.op, ast.Mult) and f"{REC}['dt']" in (norm(x.left), norm(x.right)) for x in (v.left, v.right))
                chk.check(okv, R, f, u, "the expected start of the next fragment is not time + samples_per_record * dt", site_text="record_links: expected next start = time + n_samples * dt")

# ------------------------------------------------------------------------------------ R6
def r6_per_hit_state(chk, repo):
    chk.describe("C18.R6", "what the hit finder accumulates for a hit (area, height) is reset on every path from storing that hit to the start of the next one")
    R = "C18.R6"
    f = repo.func("_find_hits", PULSE)
    cfg = cfg_of(f)
    stores = [n for n in cfg.stmt_nodes() if isinstance(n.stmt, ast.Assign) and isinstance(n.stmt.targets[0], ast.Subscript) and isinstance(n.stmt.targets[0].slice, ast.Constant) and n.stmt.targets[0].slice.value in ("area", "height")]
    chk.check(len(stores) == 2, R, f, None, "the hit finder no longer stores area and height of a hit at one place each", site_text="_find_hits: res[area], res[height] stored")
    accs = set()
    for n in stores:
        for x in ast.walk(n.stmt.value):
            if isinstance(x, ast.Name) and any(isinstance(st, ast.AugAssign) and norm(st.target) == x.id or (isinstance(st, ast.Assign) and norm(st.targets[0]) == x.id and isinstance(st.value, ast.Call) and call_name(st.value) == "max") for st in walk_body(f.node)):
                accs.add(x.id)
    chk.check(accs >= {"area", "height"} or len(accs) >= 2, R, f, None, f"per-hit accumulators not recognised ({sorted(accs)})", site_text="_find_hits: accumulators of a hit", nontrivial=False)
    starts = [n for n in cfg.stmt_nodes() if isinstance(n.stmt, ast.Assign) and isinstance(n.stmt.targets[0], ast.Name) and isinstance(n.stmt.value, ast.Name) and enclosing(n.stmt, (ast.If,)) is not None and any(isinstance(st, ast.Assign) and isinstance(st.targets[0], ast.Subscript) and isinstance(st.targets[0].slice, ast.Constant) and st.targets[0].slice.value == "left" and norm(st.value) == n.stmt.targets[0].id for st in walk_body(f.node))]
    chk.check(len(starts) >= 1, R, f, None, "start of a hit (`hit_start = i`) not found", site_text="_find_hits: hit start")
    last_store = max(stores, key=lambda n: n.stmt.lineno) if stores else None
    for a in sorted(accs):
        resets = [n for n in cfg.stmt_nodes() if isinstance(n.stmt, ast.Assign) and any(isinstance(t, ast.Name) and t.id == a for t in n.stmt.targets) and isinstance(n.stmt.value, ast.Constant) and n.stmt.value.value == 0]
        ok = bool(resets) and last_store is not None and bool(starts) and cfg.every_path([last_store], starts, lambda n: n in resets, "n")[0]
        chk.check(ok, R, f, last_store.stmt if last_store else None, f"`{a}` is not reset on every path from a stored hit to the start of the next hit: a later hit in the same record inherits it (height / max_time of an earlier, higher hit)", site_text=f"_find_hits: {a} reset between hits", site={"function": f.qualname, "accumulator": a})


# ------------------------------------------------------------------------------------ R7
STALE_OK_FIELDS = {
    ("_find_hits", "max_time"): "set when the first sample of a hit is seen; read only when a hit is stored (same in_interval episode)",
    ("_find_hits", "right"): "the hit end is set in the branch that ends the hit; read only under `not in_interval` right after it",
}


def _stale_ok(f):
    """Reviewed exceptions, identified by the result field the local is stored into (not by name)."""
    out = {}
    for st in walk_body(f.node):
        if isinstance(st, ast.Assign) and isinstance(st.targets[0], ast.Subscript) and isinstance(st.targets[0].slice, ast.Constant) and isinstance(st.value, ast.Name):
            key = (f.qualname, st.targets[0].slice.value)
            if key in STALE_OK_FIELDS:
                out[st.value.id] = STALE_OK_FIELDS[key]
    return out


def r7_stale_locals(chk, repo, rule, paths):
    from ..rules import stale_loop_locals
    chk.describe(rule, "no kernel reads a loop-local that was not bound in the current iteration of its row loop (the value would come from an earlier row, possibly of another channel)")
    n = 0
    for f in repo.functions:
        if f.path not in paths or f.parent_func is not None:
            continue
        for lp in [x for x in f.node.body if isinstance(x, (ast.For, ast.While))]:
            n += 1
            okd = _stale_ok(f)
            for nm, st in stale_loop_locals(f, lp):
                if nm in okd:
                    chk.ok(rule, f"{f.qualname}: the local stored as a reviewed field: {okd[nm]}", nontrivial=False)
                    continue
                chk.fail(rule, f, st, f"`{nm}` is only bound inside the loop and can be read before it is bound in the current iteration: the value of an earlier row (e.g. of another channel) is used", site={"function": f.qualname, "local": nm})
            chk.ok(rule, f"{f.qualname}: row loop at line {lp.lineno} reads no stale loop-local")
    chk.floor(rule, "row loops inspected", n, 3)

# ------------------------------------------------------------------------------------ R9
def r9_like_dtype(chk, repo):
    chk.describe("C18.R9", "threshold / baseline arrays are never created with np.*_like(template, ...) without an explicit dtype: the new array silently takes the template's (often integer) dtype and truncates what is stored in it")
    n = 0
    for path in (PULSE, RED):
        for f in repo.module(path).functions.values():
            for c in calls_in(f.node):
                nm = (call_name(c) or "")
                if nm.split(".")[-1] in ("full_like", "zeros_like", "ones_like", "empty_like"):
                    n += 1
                    chk.check(kw(c, "dtype") is not None, "C18.R9", f, stmt_of(c), f"`{norm(c)[:70]}` takes its dtype from the template array: a fractional value (noise factor, baseline) stored in it is truncated when the template is an integer array", site_text=f"{f.qualname}: `{norm(c)[:40]}` with explicit dtype", site={"function": f.qualname, "call": norm(c)[:50]})
    chk.ok("C18.R9", f"{n} np.*_like call(s) in the hit finding / reduction code, all with explicit dtype", nontrivial=False)


WITNESSES = [
    W("noise factor array inherits an integer dtype", "C18.R9", PULSE,
      "min_height_over_noise = min_height_over_noise * np.ones(n_channels)", "min_height_over_noise = np.full_like(min_amplitude, min_height_over_noise)"),
    W("link arrays unpacked in the wrong order", "C18.R4", RED,
      "previous_record, next_record = record_links(records)", "next_record, previous_record = record_links(records)"),
    W("height of an earlier hit leaks into the next one", "C18.R6", PULSE,
      "res[\"max_time\"] = max_time\n                    area = height = 0", "res[\"max_time\"] = max_time\n                    area = 0"),
    W("baseline rms carried over from the previous record", "C18.R7", PULSE,
      "last_bl_in[d[\"channel\"]] = bl, rms = w.mean(), w.std()\n        else:\n            bl, rms = last_bl_in[d[\"channel\"]]", "last_bl_in[d[\"channel\"]] = bl, rms = w.mean(), w.std()\n        else:\n            bl = last_bl_in[d[\"channel\"]][0]"),
    W("whole previous fragment kept when the extension ends on the boundary", "C18.R4", RED,
      "if start_keep < 0:\n            prev_ri", "if start_keep <= 0:\n            prev_ri"),
    W("next-fragment guard dropped", "C18.R4", RED,
      "if end_keep > samples_per_record:\n            next_ri", "if True:\n            next_ri"),
    W("first fragments linked like continuing ones", "C18.R5", PULSE,
      "if r[\"record_i\"] == 0:\n            # Record starts a new pulse\n            previous_record[i] = NO_RECORD_LINK\n\n        elif r[\"time\"] == expected_next_start[ch]:",
      "if r[\"time\"] == expected_next_start[ch]:"),
    W("fragments linked without the adjacency test", "C18.R5", PULSE,
      "elif r[\"time\"] == expected_next_start[ch]:", "else:"),
    W("bookkeeping only for continuing records", "C18.R5", PULSE,
      "next_record[last_i] = i\n", "next_record[last_i] = i\n            expected_next_start[ch] = r[\"time\"] + samples_per_record * r[\"dt\"]\n            continue\n"),
    W("reduction alters the baseline field", "C18.R1", RED,
      "new_recs[rec_i][\"data\"][a:b] = records[rec_i][\"data\"][a:b]", "new_recs[rec_i][\"data\"][a:b] = records[rec_i][\"data\"][a:b]\n        new_recs[rec_i][\"baseline\"] = 0"),
    W("reduction writes into its input", "C18.R1", RED,
      "new_recs[prev_ri][\"data\"][a_prev:] = records[prev_ri][\"data\"][a_prev:]", "records[prev_ri][\"data\"][a_prev:] = new_recs[prev_ri][\"data\"][a_prev:]"),
    W("samples copied from the wrong record", "C18.R1", RED,
      "new_recs[next_ri][\"data\"][:b_next] = records[next_ri][\"data\"][:b_next]", "new_recs[next_ri][\"data\"][:b_next] = records[rec_i][\"data\"][:b_next]"),
    W("cut_baseline touches pulse_length", "C18.R1", RED,
      "d[\"reduction_level\"] = ReductionLevel.BASELINE_CUT", "d[\"reduction_level\"] = ReductionLevel.BASELINE_CUT\n        d[\"pulse_length\"] = clear_from"),
    W("integrate overwrites the baseline", "C18.R1", PULSE,
      "records[i][\"area\"] = (", "records[i][\"baseline\"] = records[i][\"area\"] = ("),
    W("max_time not stored", "C18.R2", PULSE,
      "res[\"max_time\"] = max_time\n", "pass\n"),
    W("strictly above threshold", "C18.R2", PULSE,
      "satisfy_threshold = x >= threshold", "satisfy_threshold = x > threshold"),
    W("length off by one", "C18.R2", PULSE,
      "res[\"length\"] = hit_end - hit_start", "res[\"length\"] = hit_end - hit_start + 1"),
    W("record-end hit not extended", "C18.R2", PULSE,
      "hit_end = i + 1\n                        in_interval = False", "hit_end = i\n                        in_interval = False"),
    W("another field excluded from the metadata copy", "C18.R3", RED,
      "if x not in [\"data\", \"reduction_level\"]]", "if x not in [\"data\", \"reduction_level\", \"baseline\"]]"),
    W("metadata not copied", "C18.R3", RED,
      "new_recs[meta_fields] = records[meta_fields]\n", "pass\n"),
]
