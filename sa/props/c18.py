"""C18 - hit finding and data reduction keep exactly the samples they should.

Decided statically: the field write-set of each waveform routine (data reduction may only store
`data` and `reduction_level`, never the input records; baselining only data / baseline /
baseline_rms; integration only area; record linking nothing), the copy statements of the reduction
kernel copy the same slice of the same record, the metadata copy covers every field except exactly
those two, the hit finder assigns every hit field the property names and uses `>= threshold`.
Not decided: which samples are kept and the numeric values of the hit fields.
"""

import ast

from ..cfg import cfg_of, literals
from ..dataflow import Defs, atoms, calls_in, stmt_of
from ..index import N, AnalysisError, call_name, dotted, enclosing, head, norm, walk_body
from ..pattern import find, has_fact, local_defined_as, pmatch
from ..rules import COMPOUND, kw, node_calls, own_calls
from ..witness import W

RED = "strax/processing/data_reduction.py"
PULSE = "strax/processing/pulse_processing.py"

EXPLANATION = (
    "R1 effect analysis: for every assignment in the waveform routines the stored record field is "
    "extracted from the subscript / attribute chain of the target (through loop variables and aliases "
    "of the record array) and compared with the routine's allowed write-set; in _cut_outside_hits "
    "every store goes to the output array and copies records[i]['data'][s] to new_recs[i]['data'][s] "
    "with identical index and slice. R2 the hit finder stores every field the property lists, with "
    "values whose provenance is the record and the hit bounds, thresholds with `>=`, and refuses "
    "zero-length hits. R3 the metadata copy of cut_outside_hits ranges over records.dtype.names minus "
    "exactly {data, reduction_level} and copies from the input records."
)
RULE_TEXT = "one obligation per (routine, stored field), per copy statement, per hit field"
ASSUMPTIONS = ["numpy structured-array semantics: a store to arr[i]['f'][s] or rec.f[s] modifies field f only"]

# routine -> (allowed fields, arrays that must not be written)
WRITE_SETS = {
    ("cut_baseline", RED): ({"data", "reduction_level"}, set()),
    ("cut_outside_hits", RED): ({"reduction_level", "<fields>"}, {"records", "hits"}),
    ("_cut_outside_hits", RED): ({"data"}, {"records", "hits"}),
    ("baseline", PULSE): ({"data", "baseline", "baseline_rms"}, set()),
    ("integrate", PULSE): ({"area"}, set()),
    ("zero_out_of_bounds", PULSE): ({"data"}, set()),
    ("record_links", PULSE): (set(), {"records"}),
    ("find_hits", PULSE): (set(), {"records"}),
}


def run(chk):
    repo = chk.repo
    r1_write_sets(chk, repo)
    r2_hit_fields(chk, repo)
    r3_metadata_copy(chk, repo)


def record_vars(f):
    """Local names that denote the record array or one of its rows: {name: root array name}."""
    out = {p: p for p in f.params}
    d = Defs(f.node)
    changed = True
    while changed:
        changed = False
        for name, lst in d.defs.items():
            if name in out:
                continue
            for v, st, how in lst:
                if v is None:
                    continue
                root = v
                if how in ("iter", "iter-unpack"):
                    # for d in records / for i, d in enumerate(records)
                    if isinstance(root, ast.Call) and call_name(root) == "enumerate" and root.args:
                        root = root.args[0]
                while isinstance(root, ast.Subscript):
                    root = root.value
                if isinstance(root, ast.Name) and root.id in out and how in ("iter", "iter-unpack", "assign"):
                    if how == "assign" and not isinstance(v, (ast.Subscript, ast.Name)):
                        continue
                    out[name] = out[root.id]
                    changed = True
                    break
    return out


def stores(f):
    """[(root array, field or None, stmt)] for every subscript / attribute store in f."""
    rv = record_vars(f)
    out = []
    for n in walk_body(f.node):
        tg = []
        if isinstance(n, ast.Assign):
            tg = n.targets
        elif isinstance(n, ast.AugAssign):
            tg = [n.target]
        for t in tg:
            for x in (t.elts if isinstance(t, (ast.Tuple, ast.List)) else [t]):
                if not isinstance(x, (ast.Subscript, ast.Attribute)):
                    continue
                chain = []
                cur = x
                while isinstance(cur, (ast.Subscript, ast.Attribute)):
                    if isinstance(cur, ast.Attribute):
                        chain.append(("attr", cur.attr))
                    elif isinstance(cur.slice, ast.Constant) and isinstance(cur.slice.value, str):
                        chain.append(("field", cur.slice.value))
                    elif isinstance(cur.slice, ast.Name):
                        chain.append(("name", cur.slice.id))
                    else:
                        chain.append(("index", None))
                    cur = cur.value
                if not isinstance(cur, ast.Name) or cur.id not in rv:
                    continue
                chain.reverse()
                field = None
                named = [val for kind, val in chain if kind in ("attr", "field")]
                if named:
                    field = named[0]
                else:
                    # arr[name] = ...: whole rows, or a list of fields held in a variable
                    sel = [val for kind, val in chain if kind == "name"]
                    field = "<fields>" if sel else "<rows>"
                out.append((rv[cur.id], field, n))
    return out


def r1_write_sets(chk, repo):
    chk.describe("C18.R1", "each waveform routine stores only the record fields it is allowed to; data reduction never writes its input and copies samples unchanged")
    n = 0
    for (q, p), (allowed, frozen) in WRITE_SETS.items():
        f = repo.func(q, p)
        ss = stores(f)
        local_arrays = {"new_recs", "previous_record", "next_record", "last_record_seen", "expected_next_start", "last_bl_in", "seen_first", "buffer", "res"}
        for root, field, st in ss:
            if root in frozen:
                n += 1
                chk.fail("C18.R1", f, st, f"{q} writes into its input array `{root}` (field {field}): the caller's data is altered", site={"function": q, "field": field, "array": root})
                continue
            if root not in f.params:
                continue
            n += 1
            chk.check(field in allowed, "C18.R1", f, st, f"{q} stores record field `{field}`, allowed are {sorted(allowed)}: record metadata / samples outside its remit are altered",
                      site_text=f"{q}: stores `{field}` of `{root}`", site={"function": q, "field": field})
        if not [1 for root, field, st in ss if root in f.params]:
            chk.ok("C18.R1", f"{q}: no store into its arguments", nontrivial=False)
    chk.floor("C18.R1", "record field stores", n, 10)
    # copy statements of the reduction kernel
    k = repo.func("_cut_outside_hits", RED)
    cps = [st for root, field, st in stores(k) if root == "new_recs"]
    chk.floor("C18.R1", "copy statements in _cut_outside_hits", len(cps), 2)
    for st in cps:
        t, v = norm(st.targets[0]), norm(st.value)
        chk.check(t.startswith("new_recs[") and v == "records" + t[len("new_recs"):], "C18.R1", k, st, "kept samples are not copied from the same record and the same sample range of the input",
                  site_text=f"_cut_outside_hits: `{t}` copied from the identical slice of records", site={"function": k.qualname, "construct": t})
    co = repo.func("cut_outside_hits", RED)
    NR, nr_assign, _ = local_defined_as(co.node, "np.zeros(len(records), dtype=records.dtype)")
    chk.check(NR is not None, "C18.R1", co, None, "output records do not start zeroed with the input's length and dtype", site_text="cut_outside_hits: output = zeros(len(records), records.dtype)")
    kc = [c for c in calls_in(co.node) if call_name(c) == "_cut_outside_hits"]
    chk.check(len(kc) == 1 and [norm(a) for a in kc[0].args[:3]] == ["records", "hits", NR], "C18.R1", co, None, "kernel is not called with (input, hits, output)", site_text="cut_outside_hits: _cut_outside_hits(records, hits, output, ...)")
    rets = [n_ for n_ in walk_body(co.node) if isinstance(n_, ast.Return) and n_.value is not None]
    chk.check({norm(r.value) for r in rets} == {"records", NR}, "C18.R1", co, None, "reduced records are not what is returned", site_text="cut_outside_hits: returns the output (records if empty)")


HIT_FIELDS = ["time", "length", "dt", "channel", "record_i", "area", "height", "max_time", "left", "right", "threshold"]


def r2_hit_fields(chk, repo):
    chk.describe("C18.R2", "the hit finder fills time, length, dt, channel, record_i, area, height, max_time, left, right and threshold of every hit, thresholds with >=, and refuses zero-length hits")
    f = repo.func("_find_hits", PULSE)
    cfg = cfg_of(f)
    # the result row: the local whose string-keyed items are assigned most often
    by_name = {}
    for n in walk_body(f.node):
        if isinstance(n, ast.Assign) and isinstance(n.targets[0], ast.Subscript) and isinstance(n.targets[0].value, ast.Name) and isinstance(n.targets[0].slice, ast.Constant) and isinstance(n.targets[0].slice.value, str):
            by_name.setdefault(n.targets[0].value.id, {})[n.targets[0].slice.value] = n
    chk.need(bool(by_name), "C18.R2: no field assignments found in _find_hits")
    assigned = max(by_name.values(), key=len)
    for fld in HIT_FIELDS:
        st = assigned.get(fld)
        chk.check(st is not None, "C18.R2", f, st, f"hit field `{fld}` is not assigned", site_text=f"_find_hits: hit[{fld}] assigned", site={"function": f.qualname, "field": fld})
    blocks = {id(enclosing(st, (ast.If,))) for st in assigned.values()}
    chk.check(len(blocks) == 1, "C18.R2", f, None, "hit fields are not filled together for every saved hit", site_text="_find_hits: all fields assigned in the save block", nontrivial=False)
    left, right = assigned.get("left"), assigned.get("right")
    HS = left.value.id if left is not None and isinstance(left.value, ast.Name) else None
    HE = right.value.id if right is not None and isinstance(right.value, ast.Name) else None
    chk.check(HS is not None and HE is not None and HS != HE, "C18.R2", f, left, "left / right are not the start / end sample indices of the hit", site_text="_find_hits: left = hit start index, right = hit end index")
    if HS is None or HE is None:
        return
    ln = assigned.get("length")
    chk.check(ln is not None and pmatch(f"{HE} - {HS}", ln.value) is not None, "C18.R2", f, ln, "hit length is not end - start (exclusive right bound)", site_text="_find_hits: length = end - start", site={"function": f.qualname, "field": "length-value"})
    tm = assigned.get("time")
    chk.check(tm is not None and pmatch(f"L_r['time'] + {HS} * L_r['dt']", tm.value) is not None, "C18.R2", f, tm, "hit time is not record time + start sample x dt", site_text="_find_hits: time = r.time + start * dt", site={"function": f.qualname, "field": "time-value"})
    for fld, pat in (("dt", "L_r['dt']"), ("channel", "L_r['channel']")):
        st = assigned.get(fld)
        chk.check(st is not None and pmatch(pat, st.value) is not None, "C18.R2", f, st, f"hit {fld} is not the record's {fld}", site_text=f"_find_hits: {fld} = r[{fld}]", site={"function": f.qualname, "field": fld + "-value"})
    ri = assigned.get("record_i")
    loops = [n for n in walk_body(f.node) if isinstance(n, ast.For) and pmatch("enumerate(records)", n.iter) is not None and isinstance(n.target, ast.Tuple)]
    chk.check(ri is not None and bool(loops) and isinstance(ri.value, ast.Name) and ri.value.id == norm(loops[0].target.elts[0]), "C18.R2", f, ri, "record_i is not the index of the record the hit was found in", site_text="_find_hits: record_i = index of the enclosing record", site={"function": f.qualname, "field": "record_i-value"})
    th = assigned.get("threshold")
    TH = th.value.id if th is not None and isinstance(th.value, ast.Name) else None
    sat = [(n, b) for n, b in find(f.node, "L_sat = L_x >= L_thr") if b["L_thr"] == TH] if TH else []
    chk.check(bool(sat), "C18.R2", f, None, "samples are not compared with `>= threshold` (hits are runs of samples at or above threshold), or the stored threshold is not the one applied", site_text="_find_hits: satisfy = x >= threshold, threshold stored", site={"function": f.qualname, "construct": "threshold comparison"})
    thd = [n for n, b in find(f.node, f"{TH} = max(min_amplitude[L_r['channel']], L_r['baseline_rms'] * min_height_over_noise[L_r['channel']])")] if TH else []
    chk.check(bool(thd), "C18.R2", f, None, "threshold is not the maximum of the per-channel amplitude and noise-scaled thresholds", site_text="_find_hits: threshold = max(min_amplitude[ch], rms * min_height_over_noise[ch])")
    chk.check(any(isinstance(n.stmt, ast.Raise) and has_fact(cfg, n, f"{HE} == {HS}", True) for n in cfg.stmt_nodes()), "C18.R2", f, None, "zero-length hits can be saved", site_text="_find_hits: raise on zero-length hit")
    SAT = sat[0][1]["L_sat"] if sat else None
    ends = [n for n in walk_body(f.node) if isinstance(n, ast.Assign) and norm(n.targets[0]) == HE]
    sample_loops = [n for n in walk_body(f.node) if isinstance(n, ast.For) and pmatch("range(L_n)", n.iter) is not None and isinstance(n.target, ast.Name)]
    I = sample_loops[0].target.id if sample_loops else None
    NS = pmatch("range(L_n)", sample_loops[0].iter)["L_n"] if sample_loops else None
    vals = {norm(n.value) for n in ends}
    chk.check(I is not None and vals == {I, f"{I} + 1"}, "C18.R2", f, None, f"hit end assignments are {sorted(vals)}, expected the sample below threshold (i) or the record end (i + 1)", site_text="_find_hits: end = i (below threshold) or i + 1 (record end)")
    for n in ends:
        node = cfg.node_of(n)
        if norm(n.value) == I:
            chk.check(SAT is not None and has_fact(cfg, node, SAT, False), "C18.R2", f, n, "a hit is ended at a sample that is above threshold", site_text="end = i when the sample is below threshold")
        else:
            chk.check(SAT is not None and has_fact(cfg, node, SAT, True) and has_fact(cfg, node, f"{I} == {NS} - 1", True), "C18.R2", f, n, "record-end termination is not at the last sample", site_text="end = i + 1 at the last sample of the record")
    fh = repo.func("find_hits", PULSE)
    rt = [n for n in walk_body(fh.node) if isinstance(n, ast.Return)]
    chk.check(any("_find_hits(records, min_amplitude, min_height_over_noise)" == norm(r.value) for r in rt), "C18.R2", fh, None, "find_hits does not delegate to the kernel with per-channel thresholds", site_text="find_hits: _find_hits(records, min_amplitude, min_height_over_noise)", nontrivial=False)


def r3_metadata_copy(chk, repo):
    chk.describe("C18.R3", "data reduction copies every record field except exactly data and reduction_level from the input")
    f = repo.func("cut_outside_hits", RED)
    NR, _a, _b = local_defined_as(f.node, "np.zeros(len(records), dtype=records.dtype)")
    comps = [n for n in walk_body(f.node) if isinstance(n, ast.Assign) and isinstance(n.targets[0], ast.Name) and isinstance(n.value, ast.ListComp) and any(norm(g.iter) == "records.dtype.names" for g in n.value.generators)]
    ok = False
    excl = None
    MF = None
    if len(comps) == 1:
        MF = comps[0].targets[0].id
        mf = comps[0].value
        g = mf.generators[0]
        if len(mf.generators) == 1 and len(g.ifs) == 1 and isinstance(g.ifs[0], ast.Compare) and isinstance(g.ifs[0].ops[0], ast.NotIn) and norm(mf.elt) == norm(g.target) and norm(g.ifs[0].left) == norm(g.target):
            c = g.ifs[0].comparators[0]
            if isinstance(c, (ast.List, ast.Tuple, ast.Set)):
                excl = {e.value for e in c.elts if isinstance(e, ast.Constant)}
                ok = excl == {"data", "reduction_level"}
    chk.check(ok, "C18.R3", f, None, f"fields copied as metadata are not all fields except data and reduction_level (excluded: {sorted(excl) if excl is not None else 'unknown'}): record metadata would be lost or the waveform copied wholesale",
              site_text="cut_outside_hits: meta fields = dtype.names - {data, reduction_level}", site={"function": f.qualname, "construct": "meta_fields"})
    cp = [n for n in walk_body(f.node) if isinstance(n, ast.Assign) and MF and NR and norm(n.targets[0]) == f"{NR}[{MF}]"]
    chk.check(len(cp) == 1 and norm(cp[0].value) == f"records[{MF}]", "C18.R3", f, cp[0] if cp else None, "metadata is not copied from the input records", site_text="cut_outside_hits: output[meta fields] = records[meta fields]", site={"function": f.qualname, "construct": "metadata copy"})
    rl = [n for n in walk_body(f.node) if isinstance(n, ast.Assign) and NR and norm(n.targets[0]) == f"{NR}['reduction_level']"]
    chk.check(len(rl) == 1 and norm(rl[0].value).endswith("HITS_ONLY"), "C18.R3", f, None, "reduction level of reduced records is not HITS_ONLY", site_text="cut_outside_hits: reduction_level = HITS_ONLY")


WITNESSES = [
    W("reduction alters the baseline field", "C18.R1", RED,
      "new_recs[rec_i][\"data\"][a:b] = records[rec_i][\"data\"][a:b]", "new_recs[rec_i][\"data\"][a:b] = records[rec_i][\"data\"][a:b]\n        new_recs[rec_i][\"baseline\"] = 0"),
    W("reduction writes into its input", "C18.R1", RED,
      "new_recs[prev_ri][\"data\"][a_prev:] = records[prev_ri][\"data\"][a_prev:]", "records[prev_ri][\"data\"][a_prev:] = new_recs[prev_ri][\"data\"][a_prev:]"),
    W("samples copied from the wrong record", "C18.R1", RED,
      "new_recs[next_ri][\"data\"][:b_next] = records[next_ri][\"data\"][:b_next]", "new_recs[next_ri][\"data\"][:b_next] = records[rec_i][\"data\"][:b_next]"),
    W("cut_baseline touches pulse_length", "C18.R1", RED,
      "d[\"reduction_level\"] = ReductionLevel.BASELINE_CUT", "d[\"reduction_level\"] = ReductionLevel.BASELINE_CUT\n        d[\"pulse_length\"] = clear_from"),
    W("integrate overwrites the baseline", "C18.R1", PULSE,
      "records[i][\"area\"] = (", "records[i][\"baseline\"] = records[i][\"area\"] = ("),
    W("max_time not stored", "C18.R2", PULSE,
      "res[\"max_time\"] = max_time\n", "pass\n"),
    W("strictly above threshold", "C18.R2", PULSE,
      "satisfy_threshold = x >= threshold", "satisfy_threshold = x > threshold"),
    W("length off by one", "C18.R2", PULSE,
      "res[\"length\"] = hit_end - hit_start", "res[\"length\"] = hit_end - hit_start + 1"),
    W("record-end hit not extended", "C18.R2", PULSE,
      "hit_end = i + 1\n                        in_interval = False", "hit_end = i\n                        in_interval = False"),
    W("another field excluded from the metadata copy", "C18.R3", RED,
      "if x not in [\"data\", \"reduction_level\"]]", "if x not in [\"data\", \"reduction_level\", \"baseline\"]]"),
    W("metadata not copied", "C18.R3", RED,
      "new_recs[meta_fields] = records[meta_fields]\n", "pass\n"),
]
