"""C18 - hit finding and data reduction keep exactly the samples they should.

Decided statically: the field write-set of each waveform routine (data reduction may only store
`data` and `reduction_level`, never the input records; baselining only data / baseline /
baseline_rms; integration only area; record linking nothing), the copy statements of the reduction
kernel copy the same slice of the same record, the metadata copy covers every field except exactly
those two, the hit finder assigns every hit field the property names and uses `>= threshold`.
Not decided: which samples are kept and the numeric values of the hit fields.
"""

import ast

from ..cfg import cfg_of, literals
from ..dataflow import Defs, atoms, calls_in, stmt_of
from ..index import AnalysisError, call_name, dotted, enclosing, head, norm, walk_body
from ..rules import COMPOUND, kw, node_calls, own_calls
from ..witness import W

RED = "strax/processing/data_reduction.py"
PULSE = "strax/processing/pulse_processing.py"

EXPLANATION = (
    "R1 effect analysis: for every assignment in the waveform routines the stored record field is "
    "extracted from the subscript / attribute chain of the target (through loop variables and aliases "
    "of the record array) and compared with the routine's allowed write-set; in _cut_outside_hits "
    "every store goes to the output array and copies records[i]['data'][s] to new_recs[i]['data'][s] "
    "with identical index and slice. R2 the hit finder stores every field the property lists, with "
    "values whose provenance is the record and the hit bounds, thresholds with `>=`, and refuses "
    "zero-length hits. R3 the metadata copy of cut_outside_hits ranges over records.dtype.names minus "
    "exactly {data, reduction_level} and copies from the input records."
)
RULE_TEXT = "one obligation per (routine, stored field), per copy statement, per hit field"
ASSUMPTIONS = ["numpy structured-array semantics: a store to arr[i]['f'][s] or rec.f[s] modifies field f only"]

# routine -> (allowed fields, arrays that must not be written)
WRITE_SETS = {
    ("cut_baseline", RED): ({"data", "reduction_level"}, set()),
    ("cut_outside_hits", RED): ({"reduction_level", "<fields:meta_fields>"}, {"records", "hits"}),
    ("_cut_outside_hits", RED): ({"data"}, {"records", "hits"}),
    ("baseline", PULSE): ({"data", "baseline", "baseline_rms"}, set()),
    ("integrate", PULSE): ({"area"}, set()),
    ("zero_out_of_bounds", PULSE): ({"data"}, set()),
    ("record_links", PULSE): (set(), {"records"}),
    ("find_hits", PULSE): (set(), {"records"}),
}


def run(chk):
    repo = chk.repo
    r1_write_sets(chk, repo)
    r2_hit_fields(chk, repo)
    r3_metadata_copy(chk, repo)


def record_vars(f):
    """Local names that denote the record array or one of its rows: {name: root array name}."""
    out = {p: p for p in f.params}
    d = Defs(f.node)
    changed = True
    while changed:
        changed = False
        for name, lst in d.defs.items():
            if name in out:
                continue
            for v, st, how in lst:
                if v is None:
                    continue
                root = v
                if how in ("iter", "iter-unpack"):
                    # for d in records / for i, d in enumerate(records)
                    if isinstance(root, ast.Call) and call_name(root) == "enumerate" and root.args:
                        root = root.args[0]
                while isinstance(root, ast.Subscript):
                    root = root.value
                if isinstance(root, ast.Name) and root.id in out and how in ("iter", "iter-unpack", "assign"):
                    if how == "assign" and not isinstance(v, (ast.Subscript, ast.Name)):
                        continue
                    out[name] = out[root.id]
                    changed = True
                    break
    return out


def stores(f):
    """[(root array, field or None, stmt)] for every subscript / attribute store in f."""
    rv = record_vars(f)
    out = []
    for n in walk_body(f.node):
        tg = []
        if isinstance(n, ast.Assign):
            tg = n.targets
        elif isinstance(n, ast.AugAssign):
            tg = [n.target]
        for t in tg:
            for x in (t.elts if isinstance(t, (ast.Tuple, ast.List)) else [t]):
                if not isinstance(x, (ast.Subscript, ast.Attribute)):
                    continue
                chain = []
                cur = x
                while isinstance(cur, (ast.Subscript, ast.Attribute)):
                    if isinstance(cur, ast.Attribute):
                        chain.append(("attr", cur.attr))
                    elif isinstance(cur.slice, ast.Constant) and isinstance(cur.slice.value, str):
                        chain.append(("field", cur.slice.value))
                    elif isinstance(cur.slice, ast.Name):
                        chain.append(("name", cur.slice.id))
                    else:
                        chain.append(("index", None))
                    cur = cur.value
                if not isinstance(cur, ast.Name) or cur.id not in rv:
                    continue
                chain.reverse()
                field = None
                named = [val for kind, val in chain if kind in ("attr", "field")]
                if named:
                    field = named[0]
                else:
                    # arr[name] = ...: whole rows, or a list of fields held in a variable
                    sel = [val for kind, val in chain if kind == "name"]
                    field = f"<fields:{sel[0]}>" if sel else "<rows>"
                out.append((rv[cur.id], field, n))
    return out


def r1_write_sets(chk, repo):
    chk.describe("C18.R1", "each waveform routine stores only the record fields it is allowed to; data reduction never writes its input and copies samples unchanged")
    n = 0
    for (q, p), (allowed, frozen) in WRITE_SETS.items():
        f = repo.func(q, p)
        ss = stores(f)
        local_arrays = {"new_recs", "previous_record", "next_record", "last_record_seen", "expected_next_start", "last_bl_in", "seen_first", "buffer", "res"}
        for root, field, st in ss:
            if root in frozen:
                n += 1
                chk.fail("C18.R1", f, st, f"{q} writes into its input array `{root}` (field {field}): the caller's data is altered", site={"function": q, "field": field, "array": root})
                continue
            if root not in f.params:
                continue
            n += 1
            chk.check(field in allowed, "C18.R1", f, st, f"{q} stores record field `{field}`, allowed are {sorted(allowed)}: record metadata / samples outside its remit are altered",
                      site_text=f"{q}: stores `{field}` of `{root}`", site={"function": q, "field": field})
        if not [1 for root, field, st in ss if root in f.params]:
            chk.ok("C18.R1", f"{q}: no store into its arguments", nontrivial=False)
    chk.floor("C18.R1", "record field stores", n, 10)
    # copy statements of the reduction kernel
    k = repo.func("_cut_outside_hits", RED)
    cps = [st for root, field, st in stores(k) if root == "new_recs"]
    chk.floor("C18.R1", "copy statements in _cut_outside_hits", len(cps), 2)
    for st in cps:
        t, v = norm(st.targets[0]), norm(st.value)
        chk.check(t.startswith("new_recs[") and v == "records" + t[len("new_recs"):], "C18.R1", k, st, "kept samples are not copied from the same record and the same sample range of the input",
                  site_text=f"_cut_outside_hits: `{t}` copied from the identical slice of records", site={"function": k.qualname, "construct": t})
    co = repo.func("cut_outside_hits", RED)
    d = Defs(co.node)
    nr = d.single("new_recs")
    chk.check(nr is not None and norm(nr) == "np.zeros(len(records), dtype=records.dtype)", "C18.R1", co, None, "output records do not start zeroed with the input's length and dtype", site_text="cut_outside_hits: new_recs = zeros(len(records), records.dtype)")
    kc = [c for c in calls_in(co.node) if call_name(c) == "_cut_outside_hits"]
    chk.check(len(kc) == 1 and [norm(a) for a in kc[0].args[:3]] == ["records", "hits", "new_recs"], "C18.R1", co, None, "kernel is not called with (input, hits, output)", site_text="cut_outside_hits: _cut_outside_hits(records, hits, new_recs, ...)")
    rets = [n_ for n_ in walk_body(co.node) if isinstance(n_, ast.Return) and n_.value is not None]
    chk.check({norm(r.value) for r in rets} == {"records", "new_recs"}, "C18.R1", co, None, "reduced records are not what is returned", site_text="cut_outside_hits: returns new_recs (records if empty)")


def r2_hit_fields(chk, repo):
    chk.describe("C18.R2", "the hit finder fills time, length, dt, channel, record_i, area, height, max_time, left, right and threshold of every hit, thresholds with >=, and refuses zero-length hits")
    f = repo.func("_find_hits", PULSE)
    assigned = {}
    for n in walk_body(f.node):
        if isinstance(n, ast.Assign) and isinstance(n.targets[0], ast.Subscript) and norm(n.targets[0].value) == "res" and isinstance(n.targets[0].slice, ast.Constant):
            assigned[n.targets[0].slice.value] = n
    need = {
        "time": {"hit_start", "str:time", "str:dt"},
        "length": {"hit_end", "hit_start"},
        "dt": {"str:dt"},
        "channel": {"str:channel"},
        "record_i": {"record_i"},
        "area": {"area"},
        "height": {"height"},
        "max_time": {"max_time"},
        "left": {"hit_start"},
        "right": {"hit_end"},
        "threshold": {"threshold"},
    }
    cfg = cfg_of(f)
    for fld, prov in need.items():
        st = assigned.get(fld)
        ok = st is not None and prov <= atoms(st.value)
        chk.check(ok, "C18.R2", f, st, f"hit field `{fld}` is " + ("not assigned" if st is None else f"assigned from `{norm(st.value)}`, which does not involve {sorted(prov)}"),
                  site_text=f"_find_hits: res[{fld}] from {sorted(prov)}", site={"function": f.qualname, "field": fld})
    # all in the same block, before the offset advances
    blocks = {id(enclosing(st, (ast.If,))) for st in assigned.values()}
    chk.check(len(blocks) == 1, "C18.R2", f, None, "hit fields are not filled together for every saved hit", site_text="_find_hits: all fields assigned in the save block", nontrivial=False)
    ln = assigned.get("length")
    chk.check(ln is not None and isinstance(ln.value, ast.BinOp) and isinstance(ln.value.op, ast.Sub) and norm(ln.value) == "hit_end - hit_start", "C18.R2", f, ln, "hit length is not end - start (exclusive right bound)", site_text="_find_hits: length = hit_end - hit_start")
    tm = assigned.get("time")
    chk.check(tm is not None and norm(tm.value) == "r['time'] + hit_start * r['dt']", "C18.R2", f, tm, "hit time is not record time + start sample x dt", site_text="_find_hits: time = r.time + hit_start * dt")
    d = Defs(f.node)
    sat = d.single("satisfy_threshold")
    chk.check(sat is not None and isinstance(sat, ast.Compare) and isinstance(sat.ops[0], ast.GtE) and norm(sat.left) == "x" and norm(sat.comparators[0]) == "threshold", "C18.R2", f, None, "samples are not compared with `>= threshold` (hits are runs of samples at or above threshold)", site_text="_find_hits: satisfy_threshold = x >= threshold", site={"function": f.qualname, "construct": "threshold comparison"})
    th = d.single("threshold")
    chk.check(th is not None and isinstance(th, ast.Call) and call_name(th) == "max" and "min_amplitude[r['channel']]" in norm(th) and "r['baseline_rms'] * min_height_over_noise[r['channel']]" in norm(th), "C18.R2", f, None, "threshold is not the maximum of the per-channel amplitude and noise-scaled thresholds", site_text="_find_hits: threshold = max(min_amplitude[ch], rms * min_height_over_noise[ch])")
    chk.check(any(isinstance(n.stmt, ast.Raise) and ("hit_end == hit_start", True) in cfg.guard_facts(n) for n in cfg.stmt_nodes()), "C18.R2", f, None, "zero-length hits can be saved", site_text="_find_hits: raise on zero-length hit")
    ends = [n for n in walk_body(f.node) if isinstance(n, ast.Assign) and norm(n.targets[0]) == "hit_end"]
    vals = {norm(n.value) for n in ends}
    chk.check(vals == {"i", "i + 1"}, "C18.R2", f, None, f"hit end assignments are {sorted(vals)}, expected the sample below threshold (i) or the record end (i + 1)", site_text="_find_hits: hit_end = i (below threshold) or i + 1 (record end)")
    for n in ends:
        facts = cfg.guard_facts(cfg.node_of(n))
        if norm(n.value) == "i":
            chk.check(("satisfy_threshold", False) in facts and ("in_interval", True) in facts, "C18.R2", f, n, "a hit is ended at a sample that is above threshold", site_text="hit_end = i when the sample is below threshold")
        else:
            chk.check(("i == n_samples - 1", True) in facts and ("satisfy_threshold", True) in facts, "C18.R2", f, n, "record-end termination is not at the last sample", site_text="hit_end = i + 1 at the last sample of the record")
    fh = repo.func("find_hits", PULSE)
    rt = [n for n in walk_body(fh.node) if isinstance(n, ast.Return)]
    chk.check(any("_find_hits(records, min_amplitude, min_height_over_noise)" == norm(r.value) for r in rt), "C18.R2", fh, None, "find_hits does not delegate to the kernel with per-channel thresholds", site_text="find_hits: _find_hits(records, min_amplitude, min_height_over_noise)", nontrivial=False)


def r3_metadata_copy(chk, repo):
    chk.describe("C18.R3", "data reduction copies every record field except exactly data and reduction_level from the input")
    f = repo.func("cut_outside_hits", RED)
    d = Defs(f.node)
    mf = d.single("meta_fields")
    ok = False
    excl = None
    if isinstance(mf, ast.ListComp) and len(mf.generators) == 1:
        g = mf.generators[0]
        if norm(g.iter) == "records.dtype.names" and len(g.ifs) == 1 and isinstance(g.ifs[0], ast.Compare) and isinstance(g.ifs[0].ops[0], ast.NotIn) and norm(mf.elt) == norm(g.target):
            c = g.ifs[0].comparators[0]
            if isinstance(c, (ast.List, ast.Tuple, ast.Set)):
                excl = {e.value for e in c.elts if isinstance(e, ast.Constant)}
                ok = excl == {"data", "reduction_level"}
    chk.check(ok, "C18.R3", f, None, f"fields copied as metadata are not all fields except data and reduction_level (excluded: {sorted(excl) if excl is not None else 'unknown'}): record metadata would be lost or the waveform copied wholesale",
              site_text="cut_outside_hits: meta_fields = dtype.names - {data, reduction_level}", site={"function": f.qualname, "construct": "meta_fields"})
    cp = [n for n in walk_body(f.node) if isinstance(n, ast.Assign) and norm(n.targets[0]) == "new_recs[meta_fields]"]
    chk.check(len(cp) == 1 and norm(cp[0].value) == "records[meta_fields]", "C18.R3", f, cp[0] if cp else None, "metadata is not copied from the input records", site_text="cut_outside_hits: new_recs[meta_fields] = records[meta_fields]", site={"function": f.qualname, "construct": "metadata copy"})
    rl = [n for n in walk_body(f.node) if isinstance(n, ast.Assign) and norm(n.targets[0]) == "new_recs['reduction_level']"]
    chk.check(len(rl) == 1 and norm(rl[0].value).endswith("HITS_ONLY"), "C18.R3", f, None, "reduction level of reduced records is not HITS_ONLY", site_text="cut_outside_hits: reduction_level = HITS_ONLY")


WITNESSES = [
    W("reduction alters the baseline field", "C18.R1", RED,
      "new_recs[rec_i][\"data\"][a:b] = records[rec_i][\"data\"][a:b]", "new_recs[rec_i][\"data\"][a:b] = records[rec_i][\"data\"][a:b]\n        new_recs[rec_i][\"baseline\"] = 0"),
    W("reduction writes into its input", "C18.R1", RED,
      "new_recs[prev_ri][\"data\"][a_prev:] = records[prev_ri][\"data\"][a_prev:]", "records[prev_ri][\"data\"][a_prev:] = new_recs[prev_ri][\"data\"][a_prev:]"),
    W("samples copied from the wrong record", "C18.R1", RED,
      "new_recs[next_ri][\"data\"][:b_next] = records[next_ri][\"data\"][:b_next]", "new_recs[next_ri][\"data\"][:b_next] = records[rec_i][\"data\"][:b_next]"),
    W("cut_baseline touches pulse_length", "C18.R1", RED,
      "d[\"reduction_level\"] = ReductionLevel.BASELINE_CUT", "d[\"reduction_level\"] = ReductionLevel.BASELINE_CUT\n        d[\"pulse_length\"] = clear_from"),
    W("integrate overwrites the baseline", "C18.R1", PULSE,
      "records[i][\"area\"] = (", "records[i][\"baseline\"] = records[i][\"area\"] = ("),
    W("max_time not stored", "C18.R2", PULSE,
      "res[\"max_time\"] = max_time\n", "pass\n"),
    W("strictly above threshold", "C18.R2", PULSE,
      "satisfy_threshold = x >= threshold", "satisfy_threshold = x > threshold"),
    W("length off by one", "C18.R2", PULSE,
      "res[\"length\"] = hit_end - hit_start", "res[\"length\"] = hit_end - hit_start + 1"),
    W("record-end hit not extended", "C18.R2", PULSE,
      "hit_end = i + 1\n                        in_interval = False", "hit_end = i\n                        in_interval = False"),
    W("another field excluded from the metadata copy", "C18.R3", RED,
      "if x not in [\"data\", \"reduction_level\"]]", "if x not in [\"data\", \"reduction_level\", \"baseline\"]]"),
    W("metadata not copied", "C18.R3", RED,
      "new_recs[meta_fields] = records[meta_fields]\n", "pass\n"),
]
