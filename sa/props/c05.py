"""C05 - a mailbox delivers every message exactly once, in order, to every subscriber.

Decided statically: the monitor discipline of strax.mailbox.Mailbox (one re-entrant lock, three
condition variables).  Not decided: value-level arithmetic of message numbering.
"""

import ast

from ..cfg import cfg_of, is_catch_all, literals
from ..dataflow import Defs, atoms, calls_in, inline, provenance, stmt_of
from ..index import AnalysisError, call_name, dotted, enclosing, head, norm, walk_body
from ..monitor import Monitor, enclosing_lock_with, is_lock_with
from ..pattern import find as pfind, pmatch
from ..witness import W

MAILBOX = "strax/mailbox.py"

EXPLANATION = (
    "Rule-based static analysis of strax/mailbox.py (class Mailbox, divide_outputs): lockset over "
    "the shared fields (R1), wait discipline (R2), wait/notify completeness - no lost wake-up - "
    "with an exhaustive classification of every write to a field read by a wait predicate (R3), "
    "capacity gate dominating the only heap insert (R4), message removal only by the reader's "
    "garbage collection under a min-over-all-subscribers test (R5), no yield/blocking call while "
    "the lock is held (R6), end marker sent before the mailbox is closed and senders close on "
    "normal exit (R7).  All paths of the statement CFG are covered, hence all thread schedules "
    "that the discipline is meant to make safe."
)
RULE_TEXT = (
    "one obligation per (rule, site); a site is a shared-field access, a wait_for call, a write to "
    "a field read by a wait predicate paired with a condition variable, a heap insert/removal, a "
    "blocking construct inside a lock region, or a sender exit; log-only reads are trivial"
)
ASSUMPTIONS = [
    "threading.Condition.wait_for re-evaluates its predicate with the lock held and returns its value",
    "each mailbox has a single sending thread (the one that also waits on the fetch condition)",
    "configuration writes by the processor (max_messages, timeout) happen before threads start",
]

# Methods that run before the threads are started or after they are joined (main thread only).
CONFIG_PHASE = {
    "Mailbox.__init__": "constructor, object not shared yet",
    "Mailbox.add_sender": "called while wiring the pipeline, before start()",
    "Mailbox.add_reader": "called while wiring the pipeline, before start()",
    "Mailbox.start": "reads the subscriber count before any thread runs",
    "Mailbox.cleanup": "joins threads; touches only the thread list",
    "Mailbox.__repr__": "name only",
}

MUTATORS = {"append", "pop", "clear", "extend", "insert", "remove", "update", "setdefault", "sort"}


def _mailbox_funcs(repo):
    mod = repo.module(MAILBOX)
    cls = repo.cls("Mailbox")
    funcs = [
        f
        for f in mod.functions.values()
        if (f.cls is cls) or (f.cls is None)  # methods, nested functions, module-level functions
    ]
    return mod, cls, funcs


def shared_fields(repo):
    """Attributes assigned in Mailbox.__init__ that some other method writes or mutates."""
    mod, cls, funcs = _mailbox_funcs(repo)
    init = repo.func("Mailbox.__init__", MAILBOX)
    init_attrs = set()
    for n in walk_body(init.node):
        if isinstance(n, ast.Assign):
            for t in n.targets:
                if isinstance(t, ast.Attribute) and dotted(t.value) == "self":
                    init_attrs.add(t.attr)
    written = set()
    for f in funcs:
        if f is init or f.cls is not cls:
            continue
        for kind, attr, node in writes_in(f.node):
            if attr in init_attrs:
                written.add(attr)
    return init_attrs, written


def writes_in(fnode):
    """(kind, attr, stmt-or-call node) for every write to <recv>.<attr> in a function body:
    store / augstore / substore / delete / mutcall / heappush / heappop."""
    out = []
    for n in walk_body(fnode):
        if isinstance(n, ast.Assign):
            targets = []
            for t in n.targets:
                targets += t.elts if isinstance(t, (ast.Tuple, ast.List)) else [t]
            for t in targets:
                if isinstance(t, ast.Attribute):
                    out.append(("store", t.attr, n))
                elif isinstance(t, ast.Subscript) and isinstance(t.value, ast.Attribute):
                    out.append(("substore", t.value.attr, n))
        elif isinstance(n, ast.AugAssign):
            t = n.target
            if isinstance(t, ast.Attribute):
                out.append(("augstore", t.attr, n))
            elif isinstance(t, ast.Subscript) and isinstance(t.value, ast.Attribute):
                out.append(("substore", t.value.attr, n))
        elif isinstance(n, ast.Delete):
            for t in n.targets:
                if isinstance(t, ast.Attribute):
                    out.append(("delete", t.attr, n))
                elif isinstance(t, ast.Subscript) and isinstance(t.value, ast.Attribute):
                    out.append(("substore", t.value.attr, n))
        elif isinstance(n, ast.Call):
            cn = call_name(n) or ""
            if cn in ("heapq.heappush", "heappush", "heapq.heappop", "heappop", "heapq.heapify"):
                if n.args and isinstance(n.args[0], ast.Attribute):
                    out.append((cn.split(".")[-1], n.args[0].attr, n))
            elif isinstance(n.func, ast.Attribute) and n.func.attr in MUTATORS:
                if isinstance(n.func.value, ast.Attribute):
                    out.append(("mutcall:" + n.func.attr, n.func.value.attr, n))
    return out


def in_log_call(node):
    """Is node an argument of a logging call (X.log.debug / info / ...)?"""
    p = getattr(node, "_parent", None)
    while p is not None and not isinstance(p, ast.stmt):
        if isinstance(p, ast.Call):
            cn = call_name(p) or ""
            parts = cn.split(".")
            if len(parts) >= 2 and parts[-2] == "log":
                return True
        p = getattr(p, "_parent", None)
    return False


def field_reads(repo, func, fields, mon, depth=4, _seen=None):
    """Shared fields read by func, transitively through Mailbox methods/properties it uses."""
    _seen = _seen if _seen is not None else set()
    if func in _seen or depth < 0:
        return set()
    _seen.add(func)
    out = set()
    for n in walk_body(func.node):
        if isinstance(n, ast.Attribute):
            if n.attr in fields and not in_log_call(n):
                out.add(n.attr)
            if n.attr in mon.method_names:
                for g in mon.method_names[n.attr]:
                    out |= field_reads(repo, g, fields, mon, depth - 1, _seen)
    return out


def resolve_pred(mon, func, arg):
    """FuncInfo of the predicate passed to wait_for (nested def by name, or method on a receiver)."""
    if isinstance(arg, ast.Name):
        f = func
        while f is not None:
            for g in mon.funcs:
                if g.parent_func is f and g.name == arg.id:
                    return g
            f = f.parent_func
    if isinstance(arg, ast.Attribute) and arg.attr in mon.method_names:
        return mon.method_names[arg.attr][0]
    return None


def wait_sites(mon):
    out = []
    for f in mon.funcs:
        for n in walk_body(f.node):
            if isinstance(n, ast.Call) and isinstance(n.func, ast.Attribute) and n.func.attr == "wait_for":
                recv = dotted(n.func.value) or ""
                if f.cls is not None and f.cls is not mon.cls:
                    continue  # the logging wrapper class around threading.Condition
                if recv.endswith("_condition"):
                    out.append((f, n, recv.split(".")[-1]))
    return out


def region_nodes(cfg, with_node, fnode):
    """CFG nodes lexically inside a with-block (or the whole function when with_node is None)."""
    inside = set()
    if with_node is None:
        return {n for n in cfg.nodes if n.kind not in ("entry", "return", "raise")}
    ids = set()
    for st in with_node.body:
        for sub in ast.walk(st):
            ids.add(id(sub))
    for n in cfg.nodes:
        s = n.stmt if n.kind == "stmt" else n.owner
        if s is not None and id(s) in ids:
            inside.add(n)
    return inside


def is_notify(stmt, cond):
    """Does the simple statement call <recv>.<cond>.notify_all() ?"""
    for c in calls_in(stmt):
        cn = call_name(c) or ""
        if cn.endswith(cond + ".notify_all") or cn.endswith(cond + ".notify"):
            return True
    return False


def conditional_notify(stmt, cond, pred_names):
    """`if <lazy flag> and <waiters' predicate>(): <cond>.notify_all()` - the repository's idiom
    for 'notify only when the predicate actually became true'."""
    if not isinstance(stmt, ast.If) or stmt.orelse:
        return False
    if not any(is_notify(s, cond) for s in stmt.body):
        return False
    conj = stmt.test.values if isinstance(stmt.test, ast.BoolOp) and isinstance(stmt.test.op, ast.And) else [stmt.test]
    saw_pred = False
    for c in conj:
        if isinstance(c, ast.Call) and isinstance(c.func, ast.Attribute) and c.func.attr in pred_names and not c.args:
            saw_pred = True
        elif (dotted(c) or "").split(".")[-1] == "lazy":
            continue
        else:
            return False
    return saw_pred


# Classification of write sites against wait predicates: (field, site kind) -> {condition: verdict}
# verdict 'notify' = the write can make the predicate true, a notify must follow inside the region;
# anything else is the reason why it cannot.
def classify_write(kind, attr, node):
    """Site kind of a write to a predicate-read field."""
    if attr == "_mailbox":
        if kind == "heappush":
            return "push"
        if kind == "heappop":
            return "pop"
        return None
    if attr == "killed" and kind == "store":
        v = node.value
        if isinstance(v, ast.Constant) and v.value is True:
            return "kill"
        return None
    if attr == "_subscriber_waiting_for":
        if kind == "substore" and isinstance(node, ast.Assign):
            if isinstance(node.value, ast.Constant) and node.value.value is None:
                return "unwant"
            return "want"
        if kind == "mutcall:append":
            a = node.args[0] if node.args else None
            if isinstance(a, ast.Constant) and a.value is None:
                return "subscribe-none"
        return None
    if attr == "_subscriber_can_drive" and kind == "mutcall:append":
        return "subscribe-drive"
    return None


VERDICTS = {
    # site kind: {condition role: verdict}
    "push": {
        "read": "notify",
        "write": "a push only increases len(_mailbox): cannot make `len < max_messages` true",
        "fetch": "pushes are made by the single sending thread, the only waiter on the fetch condition",
    },
    "pop": {
        "read": "removing messages every subscriber has read cannot make an unread message appear",
        "write": "notify",
        "fetch": "notify",
    },
    "kill": {"read": "notify", "write": "notify", "fetch": "notify"},
    "want": {"fetch": "notify"},
    "unwant": {"fetch": "notify"},
    "subscribe-none": {"fetch": "a None entry is ignored by both clauses of the fetch predicate"},
    "subscribe-drive": {
        "fetch": "appended together with a None demand entry, which the fetch predicate ignores"
    },
}


def run(chk):
    repo = chk.repo
    mod, cls, funcs = _mailbox_funcs(repo)
    mon = Monitor(repo, "Mailbox", config_phase=CONFIG_PHASE)
    init_attrs, written = shared_fields(repo)
    cond_attrs = sorted(a for a in init_attrs if a.endswith("_condition"))
    chk.need(len(cond_attrs) == 3, f"C05: expected 3 condition variables in Mailbox.__init__, found {cond_attrs}")
    shared = sorted(a for a in written if not a.endswith("_condition") and a not in ("log",))
    chk.note("shared_fields", shared)
    chk.note("lock_protected_helpers", sorted(f.qualname for f in mon.protected))
    chk.need("_mailbox" in shared, "C05: Mailbox._mailbox is no longer a shared field - anchor moved")
    from ..rules import dropped_parameters
    dropped_parameters(chk, repo, "C05.R11", [MAILBOX])

    r1_lockset(chk, repo, mon, funcs, set(shared))
    waits = wait_sites(mon)
    chk.floor("C05.R2", "wait_for sites", len(waits), 4)
    r2_wait_discipline(chk, repo, mon, waits, set(shared))
    r3_notify(chk, repo, mon, funcs, waits, set(shared) | {"max_messages"}, cond_attrs)
    r4_capacity(chk, repo, mon, funcs)
    r5_removal(chk, repo, mon, funcs)
    r6_blocking(chk, repo, mon, funcs)
    r7_termination(chk, repo, mon)
    r8_numbering(chk, repo, mon)
    r9_forwarding(chk, repo)
    r10_register_before_start(chk, repo)


# ------------------------------------------------------------------------------------ R1
def r1_lockset(chk, repo, mon, funcs, shared):
    chk.describe("C05.R1", "every access to a shared Mailbox field is made with the lock held")
    n_sites = 0
    for f in funcs:
        top = f
        while top.parent_func is not None:
            top = top.parent_func
        if top.qualname in CONFIG_PHASE or (f.cls is not None and f.cls is not mon.cls):
            continue
        for n in walk_body(f.node):
            if not (isinstance(n, ast.Attribute) and n.attr in shared):
                continue
            if f.cls is None and dotted(n.value) in (None,):
                continue
            n_sites += 1
            if in_log_call(n):
                chk.ok("C05.R1", f"{f.qualname}: log-only read of {n.attr}", nontrivial=False)
                continue
            held = mon.held(n, f)
            st = stmt_of(n)
            chk.check(
                held,
                "C05.R1",
                f,
                st,
                f"shared field {n.attr} accessed without holding the mailbox lock",
                site_text=f"{f.qualname}: {n.attr} in `{head(st, 80)}`",
                site={"function": f.qualname, "field": n.attr, "construct": head(st, 200)},
            )
    chk.floor("C05.R1", "shared-field accesses", n_sites, 30)
    # accesses from other modules to the private fields
    ext = 0
    for m in repo.modules.values():
        if m.relpath == MAILBOX:
            continue
        for n in ast.walk(m.tree):
            if isinstance(n, ast.Attribute) and n.attr in shared and n.attr.startswith("_") and n.attr != "_threads":
                ext += 1
                chk.fail(
                    "C05.R1",
                    f"{m.relpath}",
                    stmt_of(n),
                    f"private mailbox field {n.attr} accessed outside strax/mailbox.py",
                )
    chk.note("external_private_accesses", ext)


# ------------------------------------------------------------------------------------ R2
def _touches_mailbox(mon, node, depth=3):
    """Does the statement read/write `_mailbox` directly or through a lock-protected helper?"""
    for n in ast.walk(node):
        if isinstance(n, ast.Attribute):
            if n.attr == "_mailbox" and not in_log_call(n):
                return True
            if n.attr in mon.method_names and depth > 0:
                for g in mon.method_names[n.attr]:
                    if g in mon.protected and _func_touches_unguarded(mon, g, depth - 1):
                        return True
    return False


def _func_touches_unguarded(mon, g, depth):
    """Helper g touches _mailbox on a path that is not preceded by its own killed test."""
    cfg = cfg_of(g)
    for n in cfg.stmt_nodes():
        st = n.stmt
        own = st
        if isinstance(st, (ast.If, ast.While)):
            own = st.test
        elif isinstance(st, (ast.For,)):
            own = st.iter
        elif isinstance(st, (ast.With, ast.Try, ast.FunctionDef, ast.ClassDef)):
            continue
        if _touches_mailbox(mon, own, depth):
            facts = cfg.guard_facts(n)
            if not any(t.endswith(".killed") and pol is False for t, pol in facts):
                return True
    return False


def r2_wait_discipline(chk, repo, mon, waits, shared):
    chk.describe(
        "C05.R2",
        "each wait_for is made under the lock, its timeout result is tested and raises, and the "
        "next use of the message heap after a wait is guarded by a killed re-check",
    )
    for f, call, cond in waits:
        where = f"{f.qualname}: {cond}.wait_for"
        chk.check(mon.held(call, f), "C05.R2", f, stmt_of(call), "wait_for without holding the lock", site_text=where + " under lock")
        has_timeout = len(call.args) >= 2 or any(k.arg == "timeout" for k in call.keywords)
        st = stmt_of(call)
        if has_timeout:
            ok = (
                isinstance(st, ast.If)
                and isinstance(st.test, ast.UnaryOp)
                and isinstance(st.test.op, ast.Not)
                and st.test.operand is call
                and st.body
                and isinstance(st.body[-1], ast.Raise)
            )
            chk.check(
                ok,
                "C05.R2",
                f,
                st,
                "result of a wait_for with timeout is not tested with a raising timeout branch "
                "(after a timeout the predicate is false and the caller would proceed anyway)",
                site_text=where + " result tested, timeout raises",
            )
        else:
            chk.ok("C05.R2", where + " has no timeout (result always true)", nontrivial=False)
        # predicate returns true when killed -> the continuation must re-check killed before
        # touching the heap
        pred = resolve_pred(mon, f, call.args[0]) if call.args else None
        if pred is None:
            chk.fail("C05.R2", f, st, "cannot resolve the predicate passed to wait_for")
            continue
        reads = field_reads(repo, pred, shared, mon)
        if "killed" not in reads:
            chk.fail("C05.R2", f, st, f"wait predicate {pred.qualname} does not read the killed flag: a kill cannot wake this waiter")
            continue
        chk.ok("C05.R2", where + f" predicate {pred.name} observes killed")
        cfg = cfg_of(f)
        src = [n for n in cfg.nodes_of(st)] if isinstance(st, ast.stmt) else []
        users = []
        for n in cfg.stmt_nodes():
            s = n.stmt
            own = s
            if isinstance(s, (ast.If, ast.While)):
                own = s.test
            elif isinstance(s, ast.For):
                own = s.iter
            elif isinstance(s, (ast.With, ast.Try, ast.FunctionDef, ast.ClassDef)):
                continue
            if enclosing_lock_with(s, mon.lock_attr) is None and f not in mon.protected:
                continue
            if _touches_mailbox(mon, own):
                users.append(n)
        if not users:
            chk.ok("C05.R2", where + " no heap use after the wait in this function", nontrivial=False)
            continue
        # only uses after the wait matter: take uses reachable from the wait
        after = cfg.reachable(src, "n")
        users = [u for u in users if u in after and u not in src]

        def killed_false(n):
            return n.kind == "guard" and n.test is not None and any(
                t.endswith(".killed") and pol is False for t, pol in __import__("sa.cfg", fromlist=["literals"]).literals(n.test, n.polarity)
            )

        ok, path = cfg.every_path(src, users, killed_false, "n")
        chk.check(
            ok,
            "C05.R2",
            f,
            path[-1].stmt if (path and path[-1].stmt is not None) else st,
            "the message heap is used after a wait without re-checking the killed flag "
            "(the predicate also returns true when the mailbox was killed)",
            site_text=where + f" killed re-check before {len(users)} heap use(s)",
        )


# ------------------------------------------------------------------------------------ R3
ROLE_OF = {"_read_condition": "read", "_write_condition": "write", "_fetch_new_condition": "fetch"}


def r3_notify(chk, repo, mon, funcs, waits, fields, cond_attrs):
    chk.describe(
        "C05.R3",
        "every write to a field read by a wait predicate is classified; writes that can enable a "
        "predicate are followed by notify_all of that condition before the lock region is left",
    )
    reads = {}
    preds = {}
    for f, call, cond in waits:
        pred = resolve_pred(mon, f, call.args[0]) if call.args else None
        if pred is None:
            continue
        reads.setdefault(cond, set()).update(field_reads(repo, pred, fields, mon))
        preds.setdefault(cond, set()).add(pred.name)
    chk.note("predicate_reads", {c: sorted(v) for c, v in reads.items()})
    for c in cond_attrs:
        chk.need(c in reads, f"C05.R3: no wait_for found on {c}")
        chk.need(c in ROLE_OF, f"C05.R3: unknown condition variable {c} (extend the role table after reading the code)")
    n_pairs = 0
    for f in funcs:
        top = f
        while top.parent_func is not None:
            top = top.parent_func
        if top.qualname == "Mailbox.__init__" or (f.cls is not None and f.cls is not mon.cls):
            continue
        for kind, attr, node in writes_in(f.node):
            conds = [c for c in cond_attrs if attr in reads[c]]
            if not conds:
                continue
            st = stmt_of(node)
            site_kind = classify_write(kind, attr, node if not isinstance(node, ast.Call) else node)
            if isinstance(node, ast.Call):
                site_kind = classify_write(kind, attr, node)
            for c in conds:
                role = ROLE_OF[c]
                n_pairs += 1
                where = f"{f.qualname}: `{head(st, 70)}` vs {c}"
                site = {"function": f.qualname, "construct": head(st, 200), "condition": c}
                if site_kind is None or role not in VERDICTS.get(site_kind, {}):
                    chk.fail(
                        "C05.R3",
                        f,
                        st,
                        f"unclassified write to {attr} (kind {kind}), which the predicate of {c} "
                        "reads: cannot show that waiters are woken",
                        site=site,
                        site_text=where,
                    )
                    continue
                verdict = VERDICTS[site_kind][role]
                if verdict != "notify":
                    chk.ok("C05.R3", where + f" cannot enable ({verdict})", nontrivial=False)
                    continue
                ok, why = notify_follows(mon, f, st, c, preds.get(c, set()))
                chk.check(
                    ok,
                    "C05.R3",
                    f,
                    st,
                    f"{site_kind} can make the predicate of {c} true but no {c}.notify_all() "
                    f"follows on every path before the lock is released ({why}): lost wake-up",
                    site=site,
                    site_text=where + " -> notify_all follows",
                )
    chk.floor("C05.R3", "(write site, condition) pairs", n_pairs, 10)


def notify_follows(mon, f, st, cond, pred_names):
    cfg = cfg_of(f)
    w = enclosing_lock_with(st, mon.lock_attr)
    if w is None and f not in mon.protected:
        return False, "write is not in a lock region"
    region = region_nodes(cfg, w, f.node)
    srcs = [n for n in cfg.nodes_of(st) if n in region] or cfg.nodes_of(st)

    def through(n):
        if n.kind != "stmt":
            return False
        if isinstance(n.stmt, ast.If):
            return conditional_notify(n.stmt, cond, pred_names)
        if isinstance(n.stmt, (ast.While, ast.For, ast.With, ast.Try, ast.FunctionDef, ast.ClassDef)):
            return False
        return is_notify(n.stmt, cond)

    # destinations: leaving the region normally, or raising without the mailbox being killed
    dsts = set()
    for n in region:
        for m, k in cfg.succ[n]:
            if k == "n" and m not in region:
                dsts.add(m)
            if k == "r":
                facts = cfg.guard_facts(n)
                if not any(t.endswith(".killed") and pol is True for t, pol in facts):
                    dsts.add(n)  # an explicit raise that is not the reaction to a kill
    dsts.add(cfg.exit_return)
    ok, path = cfg.every_path(srcs, dsts, through, "n")
    if ok:
        return True, ""
    last = [p for p in path if p.kind == "stmt"]
    return False, "path via " + (head(last[-1].stmt, 60) if last else "region exit")


# ------------------------------------------------------------------------------------ R4
def r4_capacity(chk, repo, mon, funcs, rule="C05.R4"):
    chk.describe(rule, "the only heap insert is dominated by a successful capacity test `len < max_messages`")
    pushes = []
    for m in repo.modules.values():
        for f in m.functions.values():
            for kind, attr, node in writes_in(f.node):
                if kind == "heappush" and attr == "_mailbox":
                    pushes.append((f, node))
    chk.floor(rule, "heappush sites on _mailbox", len(pushes), 1)
    for f, node in pushes:
        st = stmt_of(node)
        if not (f.cls is mon.cls and f.path == MAILBOX):
            chk.fail(rule, f, st, "message inserted into a mailbox heap outside class Mailbox")
            continue
        cfg = cfg_of(f)
        # find the capacity predicate: nested function whose return compares len(_mailbox) < max
        cap = [g for g in mon.funcs if g.parent_func is f and _is_capacity_pred(g)]
        if not cap:
            chk.fail(rule, f, st, "no capacity predicate comparing len(self._mailbox) < self.max_messages found in the sender")
            continue
        pred = cap[0]
        chk.ok(rule, f"{pred.qualname}: returns len(self._mailbox) < self.max_messages (or killed)")

        def gate(n):
            if n.kind != "guard" or n.test is None:
                return False
            from ..cfg import literals

            for t, pol in literals(n.test, n.polarity):
                if t == f"{pred.name}()" and pol is True:
                    return True
                if ".wait_for(" in t and f"({pred.name}" in t.replace(" ", "") and pol is True:
                    return True
            return False

        ok, path = cfg.every_path([cfg.entry], cfg.nodes_of(st), gate, "n")
        chk.check(
            ok,
            rule,
            f,
            st,
            "heap insert reachable without a successful capacity test or capacity wait",
            site_text=f"{f.qualname}: heappush gated by {pred.name}()",
        )
        chk.check(mon.held(node, f), rule, f, st, "heap insert outside the lock", site_text=f"{f.qualname}: heappush under lock")


def _is_capacity_pred(g):
    for n in walk_body(g.node):
        if isinstance(n, ast.Return) and n.value is not None:
            for c in ast.walk(n.value):
                if isinstance(c, ast.Compare) and len(c.ops) == 1:
                    l, r = norm(c.left), norm(c.comparators[0])
                    if l == "len(self._mailbox)" and r == "self.max_messages" and isinstance(c.ops[0], ast.Lt):
                        return True
                    if r == "len(self._mailbox)" and l == "self.max_messages" and isinstance(c.ops[0], ast.Gt):
                        return True
    return False


# ------------------------------------------------------------------------------------ R5
def r5_removal(chk, repo, mon, funcs):
    chk.describe(
        "C05.R5",
        "messages leave the heap only in the reader's clean-up loop, under `min(have_read) >= lowest "
        "stored number`; a subscriber's progress is stored only by that subscriber after extraction",
    )
    removals = []
    for m in repo.modules.values():
        for f in m.functions.values():
            for kind, attr, node in writes_in(f.node):
                if attr == "_mailbox" and kind != "heappush":
                    top = f
                    while top.parent_func is not None:
                        top = top.parent_func
                    if top.qualname == "Mailbox.__init__":
                        continue
                    removals.append((f, kind, node))
    chk.floor("C05.R5", "removal sites on _mailbox", len(removals), 1)
    for f, kind, node in removals:
        st = stmt_of(node)
        if kind != "heappop" or f.cls is not mon.cls:
            chk.fail("C05.R5", f, st, f"message heap modified by {kind} outside the clean-up loop")
            continue
        loop = enclosing(node, (ast.While,))
        if loop is None or enclosing(loop, (ast.FunctionDef,)) is not f.node:
            chk.fail("C05.R5", f, st, "heappop is not inside a guarded clean-up loop")
            continue
        defs = Defs(f.node)
        test = inline(defs, loop.test)
        chk.check(
            _gc_condition_ok(test),
            "C05.R5",
            f,
            loop,
            "clean-up loop does not require that *every* subscriber has read the lowest stored "
            "message (expected `min(self._subscribers_have_read) >= lowest number`)",
            site_text=f"{f.qualname}: `while {norm(loop.test)[:90]}` -> heappop",
        )
    # progress stores
    stores = []
    for f in mon.funcs:
        if f.qualname == "Mailbox.__init__":
            continue
        for kind, attr, node in writes_in(f.node):
            if attr == "_subscribers_have_read":
                stores.append((f, kind, node))
    chk.floor("C05.R5", "writes to _subscribers_have_read", len(stores), 2)
    for f, kind, node in stores:
        st = stmt_of(node)
        if kind == "mutcall:append":
            chk.check(f.qualname == "Mailbox.subscribe", "C05.R5", f, st, "subscriber progress list grown outside subscribe()", site_text=f"{f.qualname}: append initial progress")
            continue
        if kind != "substore" or not isinstance(st, ast.Assign):
            chk.fail("C05.R5", f, st, f"subscriber progress modified by {kind}")
            continue
        tgt = st.targets[0]
        idx = norm(tgt.slice)
        ok_idx = idx in f.params
        defs = Defs(f.node)
        # the counter that indexes extraction: argument of the extraction helper in the same function
        counters = set()
        extraction_loops = []
        for n in walk_body(f.node):
            if isinstance(n, ast.While):
                for c in calls_in(n.test):
                    if isinstance(c.func, ast.Attribute) and c.func.attr in mon.method_names and c.args:
                        counters |= {a.id for a in ast.walk(c.args[0]) if isinstance(a, ast.Name)}
                        extraction_loops.append(n)
        val_names = {a.id for a in ast.walk(st.value) if isinstance(a, ast.Name)}
        ok_val = bool(counters & val_names)
        cfg = cfg_of(f)
        after = False
        for lp in extraction_loops:
            gf = cfg.guards_of(lp, False)
            dom = cfg.dominators("n")
            for sn in cfg.nodes_of(st):
                if any(g in dom.get(sn, ()) for g in gf):
                    after = True
        chk.check(
            ok_idx and ok_val and after,
            "C05.R5",
            f,
            st,
            "subscriber progress must be stored at the reader's own index, from the extraction "
            "counter, after the extraction loop"
            + ("" if ok_idx else " (index is not the subscriber parameter)")
            + ("" if ok_val else " (value does not come from the extraction counter)")
            + ("" if after else " (not after the extraction loop)"),
            site_text=f"{f.qualname}: `{head(st, 70)}` own index, from counter, after extraction",
        )
    # extraction must not remove: the helper that looks a message up only reads
    for name, fs in mon.method_names.items():
        for g in fs:
            if g in mon.protected:
                ws = [(k, a) for k, a, n in writes_in(g.node) if a == "_mailbox"]
                chk.check(not ws, "C05.R5", g, None, "lock-protected helper modifies the message heap", site_text=f"{g.qualname}: read-only on _mailbox", nontrivial=bool(ws))


def _gc_condition_ok(test):
    conj = test.values if isinstance(test, ast.BoolOp) and isinstance(test.op, ast.And) else [test]
    for c in conj:
        if isinstance(c, ast.Compare) and len(c.ops) == 1:
            l, r, op = c.left, c.comparators[0], c.ops[0]
            if isinstance(op, ast.LtE):
                l, r, op = r, l, ast.GtE()
            if isinstance(op, ast.GtE) and _is_min_have_read(l) and _is_lowest(r):
                return True
    return False


def _is_min_have_read(e):
    return (
        isinstance(e, ast.Call)
        and isinstance(e.func, ast.Name)
        and e.func.id == "min"
        and e.args
        and (dotted(e.args[0]) or "").endswith("._subscribers_have_read")
    )


def _is_lowest(e):
    t = norm(e)
    return t in ("self._lowest_msg_number", "self._mailbox[0][0]")


# ------------------------------------------------------------------------------------ R6
def r6_blocking(chk, repo, mon, funcs):
    chk.describe("C05.R6", "no yield, future wait, source advance or send to another mailbox while the lock is held")
    n = 0
    for f in funcs:
        if f.cls is not None and f.cls is not mon.cls:
            continue
        for node in walk_body(f.node):
            bad = None
            if isinstance(node, (ast.Yield, ast.YieldFrom)):
                bad = "yield"
            elif isinstance(node, ast.Call):
                cn = call_name(node) or ""
                last = cn.split(".")[-1]
                if last == "result" and isinstance(node.func, ast.Attribute):
                    bad = "Future.result()"
                elif cn == "next":
                    bad = "next(source)"
                elif last == "join" and isinstance(node.func, ast.Attribute) and not isinstance(node.func.value, ast.Constant):
                    bad = "thread join"
                elif last == "sleep":
                    bad = "sleep"
                elif last == "send" and isinstance(node.func, ast.Attribute) and dotted(node.func.value) != "self":
                    bad = "send to another mailbox"
            if bad is None:
                continue
            n += 1
            held = mon.held(node, f)
            st = stmt_of(node)
            chk.check(
                not held,
                "C05.R6",
                f,
                st,
                f"{bad} while the mailbox lock is held (other threads of this mailbox are blocked, "
                "and a blocked consumer never releases it)",
                site_text=f"{f.qualname}: {bad} outside lock regions",
            )
    chk.floor("C05.R6", "blocking constructs inspected", n, 4)


# ------------------------------------------------------------------------------------ R7
def r7_termination(chk, repo, mon):
    chk.describe("C05.R7", "close() sends the end marker before marking the mailbox closed; senders close every mailbox they feed on normal exit; the reader stops at the marker")
    close = repo.func("Mailbox.close", MAILBOX)
    cfg = cfg_of(close)
    send_nodes, closed_nodes = [], []
    for n in cfg.stmt_nodes():
        if isinstance(n.stmt, (ast.With, ast.If, ast.While, ast.For, ast.Try)):
            continue
        for c in calls_in(n.stmt):
            if call_name(c) == "self.send" and c.args and norm(c.args[0]) == "StopIteration":
                send_nodes.append(n)
        for kind, attr, node in writes_in(ast.Module(body=[n.stmt], type_ignores=[])) if False else []:
            pass
        if isinstance(n.stmt, ast.Assign) and any(norm(t) == "self.closed" for t in n.stmt.targets):
            closed_nodes.append(n)
    chk.need(send_nodes and closed_nodes, "C05.R7: Mailbox.close no longer sends StopIteration / sets closed - anchor moved")
    dom = cfg.dominators("n")
    for cn in closed_nodes:
        ok = any(s in dom[cn] for s in send_nodes)
        same_region = all(
            enclosing_lock_with(s.stmt) is not None and enclosing_lock_with(s.stmt) is enclosing_lock_with(cn.stmt)
            for s in send_nodes
        )
        chk.check(ok and same_region, "C05.R7", close, cn.stmt,
                  "closed is set before (or not atomically with) sending the end marker: the marker "
                  "send raises MailBoxAlreadyClosed or a concurrent send can slip in after the marker",
                  site_text="Mailbox.close: send(StopIteration) dominates `self.closed = True` in one lock region")
    # send refuses after close
    send = repo.func("Mailbox.send", MAILBOX)
    scfg = cfg_of(send)
    pushes = [n for n in scfg.stmt_nodes() if not isinstance(n.stmt, (ast.With, ast.If, ast.While, ast.For, ast.Try)) and any((call_name(c) or "").endswith("heappush") for c in calls_in(n.stmt))]
    for p in pushes:
        facts = scfg.guard_facts(p)
        chk.check(("self.closed", False) in facts, "C05.R7", send, p.stmt, "message can be inserted after the end marker (no closed test dominates the insert)",
                  site_text="Mailbox.send: insert dominated by `not self.closed`")
    # senders close on normal exit
    for qn in ("Mailbox._send_from", "divide_outputs"):
        f = repo.func(qn, MAILBOX)
        fcfg = cfg_of(f)

        def closes(n):
            if n.kind != "stmt" or isinstance(n.stmt, (ast.With, ast.If, ast.While, ast.Try)):
                return False
            if isinstance(n.stmt, ast.For):
                return any((call_name(c) or "").endswith(".close") for s in n.stmt.body for c in calls_in(s))
            return any((call_name(c) or "").endswith(".close") for c in calls_in(n.stmt))

        def closes_or_failure(n, closes=closes):
            # paths through a catch-all handler are failure paths (judged by C06), not normal exits
            return closes(n) or (n.kind == "handler" and is_catch_all(n.owner))

        ok, path = fcfg.every_path([fcfg.entry], [fcfg.exit_return], closes_or_failure, "nx")
        chk.check(ok, "C05.R7", f, None, "sender can return normally without closing the mailbox(es) it feeds: readers never terminate",
                  site_text=f"{qn}: every normal exit passes close()")
    # reader recognises the marker
    rd = repo.func("Mailbox._read", MAILBOX)
    from ..pattern import pmatch
    marker_tests = [n for n in walk_body(rd.node) if isinstance(n, ast.Compare) and pmatch("L_m is StopIteration", n) is not None]
    chk.check(len(marker_tests) >= 2, "C05.R7", rd, None, "reader no longer recognises the StopIteration end marker (needs: stop the read loop, and do not yield it)",
              site_text="Mailbox._read: end marker recognised in extraction and in delivery")



# ------------------------------------------------------------------------------------ R8
def _top_level_index(body, pred):
    return [i for i, st in enumerate(body) if pred(st)]


def r8_numbering(chk, repo, mon):
    chk.describe(
        "C05.R8",
        "numbering and cursor discipline: unnumbered messages take the send counter, which starts "
        "where every reader's cursor starts and advances once per insert; a reader takes message "
        "<cursor>, queues it, advances the cursor by one, publishes cursor-1 as read, and yields every "
        "queued message (stopping only at the end marker)",
    )
    R = "C05.R8"
    init = repo.func("Mailbox.__init__", MAILBOX)
    send = repo.func("Mailbox.send", MAILBOX)
    rd = repo.func("Mailbox._read", MAILBOX)
    # -- the counter and the cursor start at the same number
    n0 = [st for st in walk_body(init.node) if isinstance(st, ast.Assign) and any(norm(t) == "self._n_sent" for t in st.targets)]
    chk.need(len(n0) == 1 and isinstance(n0[0].value, ast.Constant), "C05.R8: Mailbox.__init__ no longer initialises self._n_sent with a constant")
    loops = [n for n, b in pfind(rd.node, "self._has_msg(L_cur)") if isinstance(getattr(n, "_parent", None), ast.While) and n._parent.test is n]
    chk.need(len(loops) == 1, "C05.R8: extraction loop `while self._has_msg(<cursor>)` not found in Mailbox._read")
    xloop = loops[0]._parent
    CUR = loops[0].args[0].id
    cur_defs = [st for st in walk_body(rd.node) if isinstance(st, (ast.Assign, ast.AugAssign, ast.AnnAssign)) and any(isinstance(t, ast.Name) and t.id == CUR for t in (st.targets if isinstance(st, ast.Assign) else [st.target]))]
    inits = [st for st in cur_defs if isinstance(st, ast.Assign)]
    incs = [st for st in cur_defs if isinstance(st, ast.AugAssign)]
    ok = len(inits) == 1 and isinstance(inits[0].value, ast.Constant) and inits[0].value.value == n0[0].value.value and enclosing(inits[0], (ast.While, ast.For)) is None
    chk.check(ok, R, rd, inits[0] if inits else None, "a reader's cursor does not start at the number the send counter starts at (once, before the read loop): the first message is skipped or never found",
              site_text="Mailbox._read: cursor initialised once to the initial value of _n_sent")
    # -- extraction loop body: get <cursor>, queue (cursor, msg), cursor += 1 (in this order, unconditionally)
    body = xloop.body
    gets = _top_level_index(body, lambda st: isinstance(st, ast.Assign) and pmatch(f"self._get_msg({CUR})", st.value) is not None and isinstance(st.targets[0], ast.Name))
    chk.check(len(gets) == 1, R, rd, xloop, "the extraction loop does not fetch exactly the message numbered <cursor>", site_text="Mailbox._read: msg = self._get_msg(cursor)")
    MSG = body[gets[0]].targets[0].id if gets else None
    apps = _top_level_index(body, lambda st: isinstance(st, ast.Expr) and MSG is not None and pmatch(f"L_q.append(({CUR}, {MSG}))", st.value) is not None)
    chk.check(len(apps) == 1, R, rd, xloop, "a message taken by the cursor is not queued (exactly once, unconditionally) for delivery: it is lost or duplicated", site_text="Mailbox._read: queue.append((cursor, msg)) once per extracted message")
    Q = body[apps[0]].value.func.value.id if apps else None
    adv = _top_level_index(body, lambda st: isinstance(st, ast.AugAssign) and isinstance(st.target, ast.Name) and st.target.id == CUR and isinstance(st.op, ast.Add) and isinstance(st.value, ast.Constant) and st.value.value == 1)
    chk.check(len(adv) == 1 and len(incs) == 1, R, rd, xloop, "the cursor does not advance by exactly one per extracted message (and nowhere else): messages are skipped, delivered twice, or the loop never ends",
              site_text="Mailbox._read: cursor += 1 exactly once per extracted message")
    chk.check(bool(gets and apps and adv) and gets[0] < apps[0] < adv[0], R, rd, xloop, "message fetch, queueing and cursor advance are out of order (a message would be queued under the wrong number)",
              site_text="Mailbox._read: get -> queue -> advance")
    # -- end marker ends the outer loop
    outer = enclosing(xloop, (ast.While,))
    chk.need(outer is not None, "C05.R8: outer read loop not found")
    LAST = None
    if isinstance(outer.test, ast.UnaryOp) and isinstance(outer.test.op, ast.Not) and isinstance(outer.test.operand, ast.Name):
        LAST = outer.test.operand.id
    marks = [st for st in walk_body(xloop) if isinstance(st, ast.Assign) and LAST and pmatch(f"{LAST} = True", st) is not None]
    rcfg = cfg_of(rd)
    okm = bool(marks) and MSG is not None and all((f"{MSG} is StopIteration", True) in rcfg.guard_facts(rcfg.node_of(m)) for m in marks)
    chk.check(okm, R, rd, marks[0] if marks else outer, "the read loop does not end exactly when the end marker has been extracted", site_text="Mailbox._read: last_message = True iff msg is StopIteration")
    # -- the queue is fresh in every round, inside the lock region
    xn = rcfg.node_of(xloop)
    if Q:
        fresh = [st for st in walk_body(outer) if isinstance(st, ast.Assign) and pmatch(f"{Q} = []", st) is not None]
        dom = rcfg.dominators("n")
        chk.check(len(fresh) == 1 and rcfg.node_of(fresh[0]) in dom[xn] and enclosing(fresh[0], (ast.While,)) is outer, R, rd, fresh[0] if fresh else xloop,
                  "the delivery queue is not emptied at the start of every round: messages of the previous round are delivered again", site_text="Mailbox._read: queue = [] in every round before extraction")
    # -- progress published as cursor - 1 after the extraction
    pubs = [st for st in walk_body(outer) if isinstance(st, ast.Assign) and isinstance(st.targets[0], ast.Subscript) and norm(st.targets[0].value) == "self._subscribers_have_read"]
    okp = len(pubs) == 1 and pmatch(f"{CUR} - 1", pubs[0].value) is not None and norm(pubs[0].targets[0].slice) == rd.params[1]
    if okp:
        pn = rcfg.node_of(pubs[0])
        okp = xn in rcfg.dominators("n")[pn] and enclosing(pubs[0], (ast.While,)) is outer
    chk.check(okp, R, rd, pubs[0] if pubs else outer, "the subscriber does not publish `cursor - 1` as the last message it has read, after extraction: the clean-up drops unread messages or never frees read ones",
              site_text="Mailbox._read: _subscribers_have_read[subscriber_i] = cursor - 1 after extraction")
    # -- delivery loop: every queued message is yielded, the loop is left early only at the end marker
    dl = [st for st in walk_body(outer) if isinstance(st, ast.For) and Q and norm(st.iter) == Q]
    chk.check(len(dl) == 1, R, rd, outer, "queued messages are not delivered by a single loop over the queue", site_text="Mailbox._read: for ... in queue")
    for loop in dl:
        ln = rcfg.node_of(loop)
        tgt = loop.target
        DM = tgt.elts[1].id if isinstance(tgt, ast.Tuple) and len(tgt.elts) == 2 and isinstance(tgt.elts[1], ast.Name) else None
        first = [n for n in rcfg.nodes_of(loop.body[0])]
        is_yield = lambda n: n.kind == "stmt" and not isinstance(n.stmt, (ast.If, ast.While, ast.For, ast.Try, ast.With)) and any(isinstance(x, ast.Yield) for x in ast.walk(n.stmt))
        inside = {id(x) for st_ in loop.body for x in ast.walk(st_)}
        in_loop = lambda n: id(n.stmt if n.kind == "stmt" else n.owner) in inside
        okd = all(is_yield(f0) for f0 in first) or rcfg.every_path(first, [ln], lambda n: is_yield(n) or (n is not ln and not in_loop(n)), "n")[0]
        chk.check(okd, R, rd, loop, "an iteration of the delivery loop can finish without yielding the message (silently dropped)", site_text="Mailbox._read: every delivery iteration yields")
        for b in [n for n in rcfg.stmt_nodes() if isinstance(n.stmt, (ast.Break, ast.Return)) and enclosing(n.stmt, (ast.For,)) is loop]:
            chk.check(DM is not None and (f"{DM} is StopIteration", True) in rcfg.guard_facts(b), R, rd, b.stmt, "the delivery loop is left early for something other than the end marker: the remaining queued messages are lost",
                      site_text="Mailbox._read: break only at the end marker")
        ys = [x for st in walk_body(loop) for x in ([st.value] if isinstance(st, ast.Expr) and isinstance(st.value, ast.Yield) else [])]
        for y in ys:
            ok = False
            if isinstance(y.value, ast.Name) and DM:
                vals = [norm(d[1]) for d in _reach(rd).defs_of(rcfg.node_of(stmt_of(y)), y.value.id) if d[1] is not None]
                ok = bool(vals) and all(v == DM or v.startswith(f"{DM}.result(") for v in vals)
            elif DM and norm(y.value) == DM:
                ok = True
            chk.check(ok, R, rd, stmt_of(y), "what is yielded is not the queued message (or the result of the queued future)", site_text="Mailbox._read: yield msg / msg.result()")
    # -- send: numbering
    scfg = cfg_of(send)
    NUM, MSGP = send.params[2], send.params[1]
    auto = [st for st in walk_body(send.node) if isinstance(st, ast.Assign) and pmatch(f"{NUM} = self._n_sent", st) is not None]
    chk.check(len(auto) == 1 and (f"{NUM} is None", True) in scfg.guard_facts(scfg.node_of(auto[0])), R, send, auto[0] if auto else None, "an unnumbered message does not get the send counter as its number", site_text="Mailbox.send: msg_number = self._n_sent iff None")
    pushes = [n for n in scfg.stmt_nodes() if not isinstance(n.stmt, (ast.With, ast.If, ast.While, ast.For, ast.Try)) and any((call_name(c) or "").endswith("heappush") for c in calls_in(n.stmt))]
    chk.check(len(pushes) == 1, R, send, pushes[1].stmt if len(pushes) > 1 else None, "Mailbox.send inserts into the heap at more than one place (or nowhere)", site_text="Mailbox.send: single insert")
    if not pushes:
        return
    pc = [c for c in calls_in(pushes[0].stmt) if (call_name(c) or "").endswith("heappush")][0]
    chk.check(len(pc.args) == 2 and norm(pc.args[0]) == "self._mailbox" and norm(pc.args[1]) == f"({NUM}, {MSGP})", R, send, pushes[0].stmt, "the message is not stored under its number", site_text="Mailbox.send: heappush(_mailbox, (msg_number, msg))")
    counts = [n for n in scfg.stmt_nodes() if isinstance(n.stmt, ast.AugAssign) and norm(n.stmt.target) == "self._n_sent"]
    okc = len(counts) == 1 and isinstance(counts[0].stmt.op, ast.Add) and isinstance(counts[0].stmt.value, ast.Constant) and counts[0].stmt.value.value == 1
    if okc:
        okc = pushes[0] in scfg.dominators("n")[counts[0]] and scfg.every_path([pushes[0]], [scfg.exit_return], lambda n: n is counts[0], "n")[0] \
            and enclosing_lock_with(counts[0].stmt) is enclosing_lock_with(pushes[0].stmt) and enclosing_lock_with(pushes[0].stmt) is not None
    chk.check(okc, R, send, counts[0].stmt if counts else pushes[0].stmt, "the send counter does not advance by one per inserted message in the insert's lock region: automatic numbers repeat or skip, so a message is never delivered",
              site_text="Mailbox.send: _n_sent += 1 once per insert")
    stale = [n for n in scfg.stmt_nodes() if isinstance(n.stmt, ast.Raise) and any(pmatch(f"{NUM} <= L_r", e) is not None and pol is True for e, pol, g in scfg.guard_literals(n))]
    okr = False
    for n in stale:
        for e, pol, g in scfg.guard_literals(n):
            b = pmatch(f"{NUM} <= L_r", e)
            if b is not None and pol is True:
                rdefs = [st for st in walk_body(send.node) if isinstance(st, ast.Assign) and pmatch(f"{b['L_r']} = min(self._subscribers_have_read, default=-1)", st) is not None]
                okr = okr or bool(rdefs)
    chk.check(okr, R, send, None, "a message numbered at or below what every subscriber has already read is accepted: it can never be delivered", site_text="Mailbox.send: raise if msg_number <= min(have_read)")
    # -- lookups compare numbers for equality
    gm = repo.func("Mailbox._get_msg", MAILBOX)
    ok = any(isinstance(st, ast.For) and norm(st.iter) == "self._mailbox" and isinstance(st.target, ast.Tuple) and len(st.target.elts) == 2
             and any(isinstance(i, ast.If) and pmatch(f"{st.target.elts[0].id} == {gm.params[1]}", i.test) is not None and i.body and isinstance(i.body[0], ast.Return) and norm(i.body[0].value) == norm(st.target.elts[1]) for i in st.body)
             for st in gm.node.body)
    chk.check(ok, R, gm, None, "_get_msg does not return the message stored under the requested number", site_text="Mailbox._get_msg: returns msg whose number == argument")
    hm = repo.func("Mailbox._has_msg", MAILBOX)
    rets = [st for st in walk_body(hm.node) if isinstance(st, ast.Return)]
    ok = any(isinstance(r.value, ast.Call) and call_name(r.value) == "any" and f"== {hm.params[1]}" in norm(r.value) and "self._mailbox" in norm(r.value) for r in rets)
    chk.check(ok, R, hm, None, "_has_msg does not test for a stored message with the requested number", site_text="Mailbox._has_msg: any(number == argument)")
    lo = repo.cls("Mailbox").methods.get("_lowest_msg_number")
    chk.check(lo is not None and any(isinstance(st, ast.Return) and norm(st.value) == "self._mailbox[0][0]" for st in walk_body(lo.node)), R, lo or rd, None, "_lowest_msg_number is not the number at the top of the heap", site_text="Mailbox._lowest_msg_number: _mailbox[0][0]")


def _reach(func):
    from ..rules import reaching
    return reaching(func)


# ------------------------------------------------------------------------------------ R9
def r9_forwarding(chk, repo):
    chk.describe("C05.R9", "sender loops forward every item they take from their source, once, to (each of) their mailbox(es) before taking the next one; they stop only when the source is exhausted")
    R = "C05.R9"
    for qn in ("Mailbox._send_from", "divide_outputs"):
        f = repo.func(qn, MAILBOX)
        cfg = cfg_of(f)
        src = f.params[1] if qn.startswith("Mailbox.") else f.params[0]
        takes = [(st, b) for st, b in pfind(f.node, f"L_x = next({src})")]
        chk.check(len(takes) == 1, R, f, None, f"{qn} does not advance its source at exactly one place", site_text=f"{qn}: x = next(source)")
        if len(takes) != 1:
            continue
        take, b = takes[0]
        X = b["L_x"]
        tn = cfg.node_of(take)
        loop = enclosing(take, (ast.While,))
        chk.need(loop is not None, f"C05.R9: {qn}: source is not advanced inside a loop")
        ln = cfg.node_of(loop)
        if qn.startswith("Mailbox."):
            def is_fwd(n):
                return n.kind == "stmt" and not isinstance(n.stmt, (ast.If, ast.While, ast.For, ast.Try, ast.With)) and any(pmatch(f"self.send({X})", c) is not None for c in calls_in(n.stmt))
            fwd_desc = "self.send(x)"
        else:
            mbs = f.params[1]
            def is_fwd(n):
                if not (n.kind == "stmt" and isinstance(n.stmt, ast.For)):
                    return False
                lp = n.stmt
                if not (isinstance(lp.target, ast.Name) and norm(lp.iter) in _output_names(f)):
                    return False
                d = lp.target.id
                return any(isinstance(st, ast.Expr) and pmatch(f"{mbs}[{d}].send({X}[{d}])", st.value) is not None for st in lp.body)
            fwd_desc = "for d in outputs: mailboxes[d].send(result[d])"
        ok, path = cfg.every_path([tn], [ln], is_fwd, "n")
        chk.check(ok, R, f, take, f"{qn}: an item taken from the source can be dropped without being sent ({fwd_desc} is not on every path to the next round)",
                  site_text=f"{qn}: every item taken is forwarded before the next one is taken", site={"function": qn, "rule": "forward every item"})
        n_fwd = [n for n in cfg.stmt_nodes() if is_fwd(n)]
        chk.check(len(n_fwd) == 1, R, f, n_fwd[1].stmt if len(n_fwd) > 1 else take, f"{qn}: an item is forwarded at {len(n_fwd)} places (sent twice or never)", site_text=f"{qn}: single forwarding site")
        # leaving the loop normally only on exhaustion of the source
        for bn in [n for n in cfg.stmt_nodes() if isinstance(n.stmt, (ast.Break, ast.Return)) and enclosing(n.stmt, (ast.While,)) is loop]:
            h = enclosing(bn.stmt, (ast.ExceptHandler,))
            okb = h is not None and h.type is not None and norm(h.type) == "StopIteration" and any(take in ast.walk(t) for t in [enclosing(h, (ast.Try,))] if t is not None and any(take is x for b_ in t.body for x in ast.walk(b_)))
            chk.check(okb, R, f, bn.stmt, f"{qn}: the sender loop is left although the source is not exhausted: the remaining items are never sent", site_text=f"{qn}: loop left only on StopIteration of the source")
        chk.check(isinstance(loop.test, ast.Constant) and loop.test.value is True, R, f, loop, f"{qn}: the sender loop has its own termination condition", site_text=f"{qn}: while True")


def _output_names(f):
    """Names the output-key collection of divide_outputs goes by (the parameter)."""
    return {"outputs"} & set(f.params)

# ------------------------------------------------------------------------------------ R10
def r10_register_before_start(chk, repo):
    chk.describe("C05.R10", "senders, reader threads and plain subscribers of a mailbox are all registered before it is started: a subscriber that registers after start() can miss messages that every earlier subscriber has already read (and that were therefore discarded)")
    R = "C05.R10"
    n = 0
    for f in repo.functions:
        if not (f.path.startswith("strax/processors/") or f.path in ("strax/storage/file_rechunker.py", "strax/mailbox.py")):
            continue
        starts = [c for c in calls_in(f.node) if isinstance(c.func, ast.Attribute) and c.func.attr == "start" and not c.args]
        regs = [c for c in calls_in(f.node) if isinstance(c.func, ast.Attribute) and c.func.attr in ("subscribe", "add_reader", "add_sender")]
        if not starts or not regs or (f.cls is not None and f.cls.name == "Mailbox"):
            continue
        cfg = cfg_of(f)
        sn = [cfg.node_of(stmt_of(c)) for c in starts]
        sn = [x for x in sn if x is not None]
        after = cfg.reachable(sn, "n") - set(sn)
        for c in regs:
            n += 1
            node = cfg.node_of(stmt_of(c))
            chk.check(node not in after, R, f, stmt_of(c), f"`{norm(c)[:60]}` can run after the mailbox was started: the late subscriber waits for a message the other subscribers have already consumed and discarded",
                      site_text=f"{f.qualname}: `{norm(c.func)}` before start()", site={"function": f.qualname, "call": norm(c.func)})
    chk.floor(R, "registrations next to a start() call", n, 3)


WITNESSES = [
    W("progress subscriber registers after start", "C05.R10", "strax/storage/file_rechunker.py",
      "final_generator = mailbox.subscribe()\n\n    # Make sure everything is added to the mailbox before starting!\n    mailbox.start()\n    for _ in load_wrapper(final_generator):", "mailbox.start()\n    for _ in load_wrapper(mailbox.subscribe()):"),
    W("sender drops every item", "C05.R9", MAILBOX,
      "try:\n                    self.send(x)\n                except Exception as e:", "try:\n                    pass\n                except Exception as e:"),
    W("sender forwards only truthy items", "C05.R9", MAILBOX,
      "try:\n                    self.send(x)\n                except Exception as e:", "try:\n                    if x is not None:\n                        self.send(x)\n                except Exception as e:"),
    W("mail sorter sends the wrong key", "C05.R9", MAILBOX,
      "mailboxes[d].send(result[d])", "mailboxes[d].send(result[list(outputs)[0]])"),
    W("mail sorter stops after the first round", "C05.R9", MAILBOX,
      "source.throw(e)\n                raise\n            i += 1", "source.throw(e)\n                raise\n            i += 1\n            if i > 1000000:\n                break"),
    W("extracted message not queued", "C05.R8", MAILBOX,
      "to_yield.append((next_number, msg))\n                    next_number += 1", "next_number += 1"),
    W("cursor advanced before queueing", "C05.R8", MAILBOX,
      "to_yield.append((next_number, msg))\n                    next_number += 1", "next_number += 1\n                    to_yield.append((next_number, msg))"),
    W("reader starts at message 1", "C05.R8", MAILBOX,
      "next_number = 0\n        last_message = False", "next_number = 1\n        last_message = False"),
    W("progress published as the cursor itself", "C05.R8", MAILBOX,
      "self._subscribers_have_read[subscriber_i] = next_number - 1", "self._subscribers_have_read[subscriber_i] = next_number"),
    W("send counter not advanced", "C05.R8", MAILBOX,
      "self._n_sent += 1\n            self._read_condition.notify_all()", "self._read_condition.notify_all()"),
    W("delivery loop skips non-future messages", "C05.R8", MAILBOX,
      "else:\n                    res = msg\n\n                try:", "else:\n                    continue\n\n                try:"),
    W("stale numbers accepted", "C05.R8", MAILBOX,
      "if msg_number <= read_until:", "if msg_number < read_until:"),
    W("_get_msg returns the first stored message", "C05.R8", MAILBOX,
      "if msg_number == number:\n                return msg", "if msg_number >= number:\n                return msg"),
    W("access _mailbox before taking the lock in send", "C05.R1", MAILBOX,
      "with self._lock:\n            if self.closed:\n                raise MailBoxAlreadyClosed",
      "n_now = len(self._mailbox)\n        with self._lock:\n            if self.closed:\n                raise MailBoxAlreadyClosed"),
    W("ignore the result of the capacity wait", "C05.R2", MAILBOX,
      'if not self._write_condition.wait_for(can_write, timeout=self.timeout):\n                    raise MailboxFullTimeout(f"Mailbox buffer for {self.name} emptied too slow.")',
      "self._write_condition.wait_for(can_write, timeout=self.timeout)"),
    W("delete the killed re-check after the capacity wait", "C05.R2", MAILBOX,
      "if self.force_killed:\n                    raise MailboxKilled(self.killed_because)\n                return\n\n            heapq.heappush",
      "pass\n\n            heapq.heappush"),
    W("delete read notify in send", "C05.R3", MAILBOX,
      "self._n_sent += 1\n            self._read_condition.notify_all()", "self._n_sent += 1"),
    W("delete write notify after clean-up", "C05.R3", MAILBOX,
      "self._fetch_new_condition.notify_all()\n                self._write_condition.notify_all()",
      "self._fetch_new_condition.notify_all()"),
    W("delete fetch notify after clean-up", "C05.R3", MAILBOX,
      "if self.lazy and self._can_fetch():\n                    self._fetch_new_condition.notify_all()\n                self._write_condition.notify_all()",
      "self._write_condition.notify_all()"),
    W("delete fetch notify when demand is published", "C05.R3", MAILBOX,
      "self._subscriber_waiting_for[subscriber_i] = next_number\n                    if self.lazy and self._can_fetch():\n                        self._fetch_new_condition.notify_all()",
      "self._subscriber_waiting_for[subscriber_i] = next_number"),
    W("drop one notify from kill", "C05.R3", MAILBOX,
      "self._write_condition.notify_all()\n            self._fetch_new_condition.notify_all()",
      "self._fetch_new_condition.notify_all()"),
    W("move write notify above the clean-up loop", "C05.R3", MAILBOX,
      "while len(self._mailbox) and (\n min(self._subscribers_have_read) >= self._lowest_msg_number\n ):\n heapq.heappop(self._mailbox)\n\n if self.lazy and self._can_fetch():\n self._fetch_new_condition.notify_all()\n self._write_condition.notify_all()",
      "self._write_condition.notify_all()\n                while len(self._mailbox) and (min(self._subscribers_have_read) >= self._lowest_msg_number):\n                    heapq.heappop(self._mailbox)\n                if self.lazy and self._can_fetch():\n                    self._fetch_new_condition.notify_all()"),
    W("new unclassified state change", "C05.R3", MAILBOX,
      "self.log.debug(f\"Sent {msg_number}\")", "self._subscriber_waiting_for[0] -= 1"),
    W("heappush before the capacity wait", "C05.R4", MAILBOX,
      "if not can_write():\n                self.log.debug(\"Subscribers have read: \"",
      "heapq.heappush(self._mailbox, (msg_number, msg))\n            if not can_write():\n                self.log.debug(\"Subscribers have read: \""),
    W("<= in the capacity comparison", "C05.R4", MAILBOX,
      "return len(self._mailbox) < self.max_messages or self.killed",
      "return len(self._mailbox) <= self.max_messages or self.killed"),
    W("max for min in the clean-up loop", "C05.R5", MAILBOX,
      "min(self._subscribers_have_read) >= self._lowest_msg_number",
      "max(self._subscribers_have_read) >= self._lowest_msg_number"),
    W("remove on read in _get_msg", "C05.R5", MAILBOX,
      "if msg_number == number:\n                return msg",
      "if msg_number == number:\n                heapq.heappop(self._mailbox)\n                return msg"),
    W("store progress before extraction", "C05.R5", MAILBOX,
      "# Grab all messages we can yield\n                to_yield = []",
      "self._subscribers_have_read[subscriber_i] = next_number\n                to_yield = []"),
    W("yield while holding the lock", "C05.R6", MAILBOX,
      "self._write_condition.notify_all()\n\n            for msg_number, msg in to_yield:",
      "self._write_condition.notify_all()\n                yield None\n\n            for msg_number, msg in to_yield:"),
    W("advance the source under the lock", "C05.R6", MAILBOX,
      "with self._lock:\n                        if not self._can_fetch():",
      "with self._lock:\n                        x = next(iterable)\n                        if not self._can_fetch():"),
    W("closed set before the end marker", "C05.R7", MAILBOX,
      "self.send(StopIteration)\n            self.closed = True",
      "self.closed = True\n            self.send(StopIteration)"),
    W("sender does not close on exhaustion", "C05.R7", MAILBOX,
      'self.log.debug("Producing iterable exhausted, regular stop")\n            self.close()',
      'self.log.debug("Producing iterable exhausted, regular stop")'),
    W("divider does not close its mailboxes", "C05.R7", MAILBOX,
      "else:\n        for m in mbs_to_kill:\n            m.close()",
      "else:\n        pass"),
]
