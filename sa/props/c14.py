"""C14 - a superrun is exactly the ordered concatenation of its subruns.

Decided statically: the storage key of superrun data depends on the subrun specification; subruns
are persisted per chunk and required on load; the run annotations are split correctly (ordering
enumeration, shared with C07.R2); define_run orders the specification by run start and the
frontend's writer does not destroy that order; the superrun branch of request planning makes and
chains the subruns in specification order.  Not decided: equality of the concatenated rows.
"""

import ast

from ..cfg import cfg_of, literals
from ..dataflow import Defs, calls_in, stmt_of
from ..index import N, AnalysisError, call_name, dotted, enclosing, head, norm, walk_body
from ..pattern import facts_matching, find, has_fact, local_defined_as, pmatch
from ..rules import COMPOUND, kw, node_calls, own_calls, prov_at
from ..witness import W
from . import c07

CONTEXT = "strax/context.py"
COMMON = "strax/storage/common.py"
FILES = "strax/storage/files.py"
CHUNK = "strax/chunk.py"
RUNSEL = "strax/run_selection.py"
PLUGIN = "strax/plugins/plugin.py"

EXPLANATION = (
    "R1 key dependence: DataKey._run_id appends deterministic_hash((subruns, combining)) exactly for "
    "superruns, the constructor refuses a superrun without subruns, and get_data_key passes the "
    "stored sub_run_spec exactly for run ids starting with '_' (so redefinition changes the key). R2 "
    "Saver.save writes chunk.subruns and the loader restores them and raises for a superrun chunk "
    "without them. R3 split bookkeeping (C07.R2, ordering enumeration). R4 define_run rebuilds the "
    "specification in stable_argsort order of the collected starts, and the run-metadata writer does "
    "not serialise with sort_keys (which would reorder it by run id). R5 check_cache's superrun "
    "branch refuses time ranges, makes the subruns with save=(target,), builds one loader per subrun "
    "in specification order and chains them in that order. R6 chunk annotations are kept sorted by "
    "start and non-overlapping; continuity is reset at subrun borders; superrun_transformation turns "
    "the combined runs into the chunk's subruns."
)
RULE_TEXT = "one obligation per (rule, site)"
ASSUMPTIONS = ["dicts preserve insertion order through json when keys are not sorted"]


def run(chk):
    repo = chk.repo
    r1_key(chk, repo)
    r2_persist(chk, repo)
    c07.r2_case_split(chk, repo, rule="C14.R3")
    r4_order(chk, repo)
    r5_planning(chk, repo)
    r6_annotations(chk, repo)


def r1_key(chk, repo):
    chk.describe("C14.R1", "the storage key of superrun data depends on the subrun specification")
    dk = repo.cls("DataKey")
    rid = [f for q, f in repo.module(COMMON).functions.items() if q.startswith("DataKey._run_id")]
    chk.need(len(rid) == 1, "C14.R1: DataKey._run_id not found")
    f = rid[0]
    cfg = cfg_of(f)
    rets0 = [n for n in walk_body(f.node) if isinstance(n, ast.Return)]
    SFX = None
    for r_ in rets0:
        b = pmatch("self.run_id + L_sfx", r_.value)
        if b:
            SFX = b["L_sfx"]
    sx = [n for n in cfg.stmt_nodes() if isinstance(n.stmt, ast.Assign) and SFX and norm(n.stmt.targets[0]) == SFX and not (isinstance(n.stmt.value, ast.Constant))]
    chk.check(bool(sx) and all(("self.is_superrun", True) in cfg.guard_facts(n) and "deterministic_hash" in norm(n.stmt.value) and "self.subruns" in norm(n.stmt.value) for n in sx), "C14.R1", f, None, "superrun keys do not include a hash of the subrun specification: redefining the superrun would load stale data", site_text="DataKey._run_id: suffix = hash((subruns, combining)) for superruns", site={"function": f.qualname, "construct": "suffix"})
    for n in sx:
        hc = [c for c in calls_in(n.stmt) if (call_name(c) or "").endswith("deterministic_hash")]
        whole = False
        for c in hc:
            a = c.args[0] if c.args else None
            elems = a.elts if isinstance(a, (ast.Tuple, ast.List)) else [a] if a is not None else []
            whole = whole or any(norm(e) == "self.subruns" for e in elems)
        chk.check(whole, "C14.R1", f, n.stmt, "what is hashed into the key is a projection of the subrun specification (e.g. only its run ids), not the specification itself: redefining a superrun with the same runs but other time ranges keeps the key, and the stale data is loaded", site_text="DataKey._run_id: the whole self.subruns mapping is hashed", site={"function": f.qualname, "construct": "whole specification hashed"})
    rets = [n for n in walk_body(f.node) if isinstance(n, ast.Return)]
    chk.check(bool(rets) and SFX is not None and all(norm(r.value) == f"self.run_id + {SFX}" for r in rets), "C14.R1", f, None, "the suffix is not part of the key", site_text="DataKey._run_id: run_id + suffix")
    rep = dk.methods["__repr__"]
    chk.check("self._run_id" in norm([n for n in walk_body(rep.node) if isinstance(n, ast.Return)][0].value), "C14.R1", rep, None, "directory names do not use the suffixed run id", site_text="DataKey.__repr__ uses _run_id")
    init = dk.methods["__init__"]
    icfg = cfg_of(init)
    chk.check(any(isinstance(n.stmt, ast.Raise) and {("run_id.startswith('_')", True), ("subruns is None", True)} <= icfg.guard_facts(n) for n in icfg.stmt_nodes()), "C14.R1", init, None, "a superrun key can be built without its subrun specification", site_text="DataKey.__init__: superrun requires subruns")
    gk = repo.func("Context.get_data_key", CONTEXT)
    gcfg = cfg_of(gk)
    cons0 = [c for c in calls_in(gk.node) if (call_name(c) or "").endswith("DataKey")]
    SRS = norm(kw(cons0[0], "subruns")) if len(cons0) == 1 and isinstance(kw(cons0[0], "subruns"), ast.Name) else None
    sp = [n for n in gcfg.stmt_nodes() if isinstance(n.stmt, ast.Assign) and SRS and norm(n.stmt.targets[0]) == SRS]
    ok = True
    for n in sp:
        facts = gcfg.guard_facts(n)
        if ("run_id.startswith('_')", True) in facts:
            ok = ok and "self.run_metadata(run_id" in norm(n.stmt.value) and "sub_run_spec" in norm(n.stmt.value)
        else:
            ok = ok and norm(n.stmt.value) == "None"
    chk.check(len(sp) == 2 and ok, "C14.R1", gk, None, "the stored subrun specification is not what goes into superrun keys", site_text="get_data_key: sub_run_spec from run metadata iff superrun")
    cons = [c for c in calls_in(gk.node) if (call_name(c) or "").endswith("DataKey")]
    chk.check(len(cons) == 1 and SRS is not None and len(sp) == 2, "C14.R1", gk, None, "DataKey is built without the subrun specification", site_text="get_data_key: DataKey(subruns=sub_run_spec)", site={"function": gk.qualname, "construct": "subruns argument"})
    # who may construct DataKey
    n_sites = 0
    for m in repo.modules.values():
        for fn in m.functions.values():
            for c in calls_in(fn.node):
                if (call_name(c) or "").split(".")[-1] == "DataKey":
                    n_sites += 1
                    chk.check(fn is gk, "C14.R1", fn, stmt_of(c), "DataKey constructed outside Context.get_data_key (may miss the subrun specification)", site_text=f"{fn.qualname}: only get_data_key builds DataKeys")
    chk.floor("C14.R1", "DataKey construction sites", n_sites, 1)


def r2_persist(chk, repo):
    chk.describe("C14.R2", "subruns of every chunk are stored and restored; a superrun chunk without them is refused")
    sv = repo.func("Saver.save", COMMON)
    d = [n for n in walk_body(sv.node) if isinstance(n, ast.Call) and call_name(n) == "dict" and any(k.arg == "subruns" for k in n.keywords)]
    chk.check(len(d) == 1 and norm({k.arg: k.value for k in d[0].keywords}["subruns"]).endswith(".subruns"), "C14.R2", sv, None, "chunk subruns are not written to the chunk metadata", site_text="Saver.save: chunk_info[subruns] = chunk.subruns", site={"function": sv.qualname, "construct": "persist subruns"})
    rd = repo.func("StorageBackend._read_and_format_chunk", COMMON)
    cfg = cfg_of(rd)
    cons0 = [c for c in calls_in(rd.node) if (call_name(c) or "").endswith("Chunk")]
    SUB = norm(kw(cons0[0], "subruns")) if len(cons0) == 1 and isinstance(kw(cons0[0], "subruns"), ast.Name) else None
    sdef = [n for n, b in find(rd.node, f"{SUB} = chunk_info.get('subruns', None)")] if SUB else []
    chk.check(SUB is not None and any(isinstance(n.stmt, ast.Raise) and {("chunk_info['run_id'].startswith('_')", True), (f"{SUB} is None", True)} <= cfg.guard_facts(n) for n in cfg.stmt_nodes()), "C14.R2", rd, None, "a stored superrun chunk without subrun information is loaded", site_text="_read_and_format_chunk: raise for a superrun chunk without subruns")
    cons = [c for c in calls_in(rd.node) if (call_name(c) or "").endswith("Chunk")]
    chk.check(len(cons) == 1 and SUB is not None and bool(sdef), "C14.R2", rd, None, "loaded chunk does not get its subruns back", site_text="_read_and_format_chunk: Chunk(subruns=subruns)", site={"function": rd.qualname, "construct": "restore subruns"})


def r4_order(chk, repo):
    chk.describe("C14.R4", "the subrun specification is ordered by run start when defined and keeps that order when written")
    f = repo.func("define_run", RUNSEL)
    cfg = cfg_of(f)
    # role discovery: the dict comprehension that rebuilds the spec in the order of an index list
    rebuilt = []
    for n, b in find(f.node, "L_data = {L_keys[L_i]: L_data[L_keys[L_i]] for L_i in L_idx}"):
        rebuilt.append((n, b))
    chk.check(len(rebuilt) == 1, "C14.R4", f, None, "the specification handed to the frontend is not rebuilt in sorted order", site_text="define_run: spec = {keys[i]: spec[keys[i]] for i in sort_index}", site={"function": f.qualname, "construct": "sorted spec"})
    if rebuilt:
        rb, b = rebuilt[0]
        IDX, KEYS, DATA = b["L_idx"], b["L_keys"], b["L_data"]
        sdef = find(f.node, f"{IDX} = stable_argsort(L_starts)") + find(f.node, f"{IDX} = strax.stable_argsort(L_starts)")
        chk.check(len(sdef) == 1, "C14.R4", f, None, "subruns are not ordered by a stable sort of their start times", site_text="define_run: index = stable_argsort(starts)", site={"function": f.qualname, "construct": "stable_argsort"})
        STARTS = sdef[0][1]["L_starts"] if sdef else None
        ap_k = [c for c in calls_in(f.node) if norm(c.func) == f"{KEYS}.append"]
        ap_s = [c for c in calls_in(f.node) if STARTS and norm(c.func) == f"{STARTS}.append"]
        ok = len(ap_k) == 1 and len(ap_s) == 1 and enclosing(ap_k[0], (ast.For,)) is enclosing(ap_s[0], (ast.For,)) and enclosing(ap_k[0], (ast.For,)) is not None
        if ok:
            lp = enclosing(ap_k[0], (ast.For,))
            ok = norm(ap_k[0].args[0]) == norm(lp.target) and norm(lp.iter) == DATA
            # the appended start is the run document's start
            sv = ap_s[0].args[0]
            sd = [n for n, bb in find(f.node, f"{norm(sv)} = L_doc['start'].replace(**___)")] if isinstance(sv, ast.Name) else []
            ok = ok and bool(sd)
        chk.check(ok, "C14.R4", f, None, "run ids and their start times are not collected pairwise from the run metadata", site_text="define_run: keys and starts appended together, start from the run document")
        dr = [n for n in cfg.stmt_nodes() if not isinstance(n.stmt, COMPOUND) and node_calls(n, lambda c, nm: nm.endswith(".define_run") and nm != "self.define_run")]
        chk.check(bool(dr) and all(any(x in cfg.dominators("n")[n] for x in cfg.nodes_of(rb)) for n in dr), "C14.R4", f, None, "the frontend receives the unsorted specification", site_text="define_run: frontend.define_run after sorting")
        for n in dr:
            c = [c for c in own_calls(n.stmt) if (call_name(c) or "").endswith(".define_run")][0]
            chk.check(kw(c, "sub_run_spec") is not None and norm(kw(c, "sub_run_spec")) == DATA, "C14.R4", f, n.stmt, "sorted specification is not what is stored", site_text="frontend.define_run(sub_run_spec=<sorted spec>)")
    # writers must not sort keys
    n_w = 0
    for m in repo.modules.values():
        for fn in m.functions.values():
            if fn.name != "write_run_metadata":
                continue
            for c in calls_in(fn.node):
                if (call_name(c) or "") in ("json.dumps", "json.dump"):
                    n_w += 1
                    sk = kw(c, "sort_keys")
                    chk.check(sk is None or (isinstance(sk, ast.Constant) and not sk.value), "C14.R4", fn, stmt_of(c), "run metadata is serialised with sort_keys=True: the time-ordered sub_run_spec comes back ordered by run id, so subruns are combined in the wrong order when ids do not sort like times",
                              site_text=f"{fn.qualname}: json serialisation keeps the order of nested mappings", site={"function": fn.qualname, "construct": "sort_keys"})
    chk.floor("C14.R4", "json serialisations in write_run_metadata", n_w, 1)
    sfd = repo.func("StorageFrontend.define_run", COMMON)
    chk.check(any(call_name(c) == "self.write_run_metadata" and "sub_run_spec=sub_run_spec" in norm(c) for c in calls_in(sfd.node)), "C14.R4", sfd, None, "frontend does not store the specification it is given", site_text="StorageFrontend.define_run: write_run_metadata(dict(sub_run_spec=sub_run_spec, ...))")


def r5_planning(chk, repo):
    chk.describe("C14.R5", "planning a superrun refuses time ranges, makes every subrun with save=(target,), and chains one loader per subrun in specification order")
    f = repo.func("Context.get_components.check_cache", CONTEXT)
    cfg = cfg_of(f)
    mk = [n for n in cfg.stmt_nodes() if not isinstance(n.stmt, COMPOUND) and node_calls(n, lambda c, nm: nm == "self.make")]
    chk.floor("C14.R5", "make(...) calls in the superrun branch", len(mk), 1)
    SPEC = None
    for n in mk:
        c = [c for c in own_calls(n.stmt) if call_name(c) == "self.make"][0]
        b = pmatch("list(L_spec.keys())", c.args[0]) if c.args else None
        SPEC = b["L_spec"] if b else None
        spec_def = find(f.node, f"{SPEC} = self.run_metadata(run_id, projection='sub_run_spec')['sub_run_spec']") if SPEC else []
        chk.check(SPEC is not None and bool(spec_def) and norm(c.args[1]) == "target_i", "C14.R5", f, n.stmt, "not all subruns of the stored specification are made for this target", site_text="check_cache: make(list(<spec>.keys()), target_i, ...)")
        chk.check(kw(c, "save") is not None and norm(kw(c, "save")) == "(target_i,)", "C14.R5", f, n.stmt, "subrun data is not saved before it is combined (the loaders below would not find it)", site_text="check_cache: make(..., save=(target_i,))", site={"function": f.qualname, "construct": "make save"})
        facts = cfg.guard_facts(n)
        LD = [bb["L_ld"] for e, pol, g, bb in facts_matching(cfg, n, "L_ld", False) if any(pmatch("self._get_partial_loader_for(**___)", v) is not None or isinstance(v, ast.Call) and call_name(v) == "self._get_partial_loader_for" for v, s_, how in Defs(f.node).defs.get(bb["L_ld"], []) if v is not None)]
        chk.check(bool(LD), "C14.R5", f, n.stmt, "subruns are remade although the superrun data can be loaded", site_text="check_cache: superrun branch only if no loader was found", nontrivial=False)
        rs = [x for x in cfg.stmt_nodes() if isinstance(x.stmt, ast.Raise) and ("time_range is not None", True) in cfg.guard_facts(x) and enclosing(x.stmt, (ast.If,)) is not None]
        chk.check(("time_range is not None", False) in facts and bool(rs), "C14.R5", f, n.stmt, "time-range requests on superruns are not refused", site_text="check_cache: raise for time_range on a superrun")
    loops = [n for n in walk_body(f.node) if isinstance(n, ast.For) and SPEC and norm(n.iter) == SPEC]
    chk.check(len(loops) == 1, "C14.R5", f, None, "loaders are not built by iterating the specification in its order", site_text="check_cache: for subrun in <spec>", site={"function": f.qualname, "construct": "spec order"})
    LDRS = None
    for lp in loops:
        SR = norm(lp.target)
        ap = [c for c in calls_in(lp) if isinstance(c.func, ast.Attribute) and c.func.attr == "append" and isinstance(c.func.value, ast.Name)]
        ok = len(ap) == 1 and enclosing(ap[0], (ast.If, ast.For)) is lp and isinstance(ap[0].args[0], ast.Name)
        if ok:
            LDRS = ap[0].func.value.id
            item = ap[0].args[0].id
            idef = [v for n_ in ast.walk(lp) if isinstance(n_, ast.Assign) and norm(n_.targets[0]) == item for v in [n_.value]]
            ok = bool(idef) and all(isinstance(v, ast.Call) and call_name(v) == "self._get_partial_loader_for" for v in idef)
        chk.check(ok, "C14.R5", f, lp, "a subrun's loader is not appended (in order) for every subrun", site_text="check_cache: loaders.append(<partial loader>) for every subrun")
        ks = [c for c in calls_in(lp) if call_name(c) == "self.key_for"]
        chk.check(bool(ks) and all(norm(c.args[0]) == SR and norm(c.args[1]) == "target_i" for c in ks), "C14.R5", f, lp, "subrun loader is not keyed by (subrun, target)", site_text="check_cache: key_for(subrun, target_i)")
        rs = [n for n in ast.walk(lp) if isinstance(n, ast.Raise)]
        chk.check(bool(rs), "C14.R5", f, lp, "a missing subrun loader is ignored", site_text="check_cache: raise if a subrun cannot be loaded")
        trs = [k for c in calls_in(lp) if call_name(c) == "self._get_partial_loader_for" for k in c.keywords if k.arg == "time_range" and isinstance(k.value, ast.Name)]
        TRN = trs[0].value.id if trs else None
        tr = [n for n in ast.walk(lp) if isinstance(n, ast.Assign) and TRN and norm(n.targets[0]) == TRN]
        chk.check(any(norm(n.value) == f"{SPEC}[{SR}]" for n in tr) and any(norm(n.value) == "None" for n in tr), "C14.R5", f, lp, "time ranges of the specification are not applied per subrun", site_text="check_cache: per-subrun time range from the specification")
    cl = [g for g in repo.module(CONTEXT).functions.values() if g.parent_func is f and any(isinstance(x, ast.YieldFrom) for x in walk_body(g.node))]
    chk.check(len(cl) == 1 and LDRS is not None and any(isinstance(n, ast.For) and norm(n.iter) == LDRS and any(isinstance(x, ast.YieldFrom) and norm(x.value).startswith(norm(n.target) + "(") for x in ast.walk(n)) for n in walk_body(cl[0].node)), "C14.R5", f, None, "subrun loaders are not chained in list order", site_text="concat_loader: for x in loaders: yield from x(...)", site={"function": f.qualname, "construct": "chain order"})


def r6_annotations(chk, repo):
    chk.describe("C14.R6", "chunk run annotations stay sorted by start and non-overlapping; continuity is reset at subrun borders; combined runs become the superrun chunk's subruns")
    for q in ("Chunk.subruns#2", "Chunk.superrun#2"):
        f = repo.func(q, CHUNK)
        srt = [c for c in calls_in(f.node) if call_name(c) == "sorted"]
        chk.check(any("x[1]['start']" in norm(c) for c in srt), "C14.R6", f, None, f"{q.split('#')[0]} annotations are not kept sorted by start", site_text=f"{q.split('#')[0]} setter: sorted by start")
        chk.check(any(call_name(c) == "_sorted_subruns_check" for c in calls_in(f.node)), "C14.R6", f, None, "overlap of run annotations is not checked", site_text=f"{q.split('#')[0]} setter: overlap check")
    sc = repo.func("_sorted_subruns_check", CHUNK)
    cfg = cfg_of(sc)
    chk.check(any(isinstance(n.stmt, ast.Raise) and has_fact(cfg, n, "L_r[L_i]['end'] > L_r[L_i + 1]['start']", True) for n in cfg.stmt_nodes()), "C14.R6", sc, None, "overlapping run annotations are accepted", site_text="_sorted_subruns_check: raise if end[i] > start[i+1]")
    cc = repo.func("continuity_check", CHUNK)
    ccfg = cfg_of(cc)
    rst = [n for n in ccfg.stmt_nodes() if isinstance(n.stmt, ast.Assign) and isinstance(n.stmt.targets[0], ast.Name) and norm(n.stmt.value) == "None" and has_fact(ccfg, n, "L_c.first_subrun['run_id'] != L_ls['run_id']", True)]
    chk.check(bool(rst), "C14.R6", cc, None, "continuity is demanded across the border between two subruns (whose times are unrelated)", site_text="continuity_check: reset at a new subrun")
    st = repo.func("Plugin.superrun_transformation", PLUGIN)
    scfg = cfg_of(st)
    up = [n for n in scfg.stmt_nodes() if not isinstance(n.stmt, COMPOUND) and node_calls(n, lambda c, nm: nm == "self._update_subruns")]
    okc = False
    for n in up:
        c = [c for c in own_calls(n.stmt) if call_name(c) == "self._update_subruns"][0]
        if norm(c.args[1]) == "superrun" and ("self.is_superrun", True) in scfg.guard_facts(n) and ("self._run_id not in superrun", True) in scfg.guard_facts(n):
            okc = True
    chk.check(okc, "C14.R6", st, None, "when subruns are combined into a superrun the combined runs are not recorded as the chunk's subruns", site_text="superrun_transformation: subruns := combined runs when combining", site={"function": st.qualname, "construct": "combine"})
    ms = repo.func("_merge_subruns_in_chunk", CHUNK)
    chk.check(any(call_name(c) == "_mergable_check" for c in calls_in(ms.node)) and any(call_name(c) == "_merge_runs_in_chunk" for c in calls_in(ms.node)), "C14.R6", ms, None, "concatenation does not merge and validate the run annotations", site_text="_merge_subruns_in_chunk: collect + mergable check", nontrivial=False)


WITNESSES = [
    W("only the run ids of the specification are hashed", "C14.R1", COMMON,
      "strax.deterministic_hash((self.subruns, self.combining))", "strax.deterministic_hash((tuple(self.subruns), self.combining))"),
    W("subruns dropped from the key suffix", "C14.R1", COMMON,
      "suffix = \"_\" + strax.deterministic_hash((self.subruns, self.combining))", "suffix = \"_\" + strax.deterministic_hash((self.combining,))"),
    W("get_data_key passes no subruns", "C14.R1", CONTEXT,
      "return strax.DataKey(run_id, target, lineage, subruns=sub_run_spec, combining=combining)", "return strax.DataKey(run_id, target, lineage, subruns={} if sub_run_spec else None, combining=combining)"),
    W("superrun key without subruns accepted", "C14.R1", COMMON,
      "if run_id.startswith(\"_\") and subruns is None:\n            raise ValueError(f\"You must assign subruns information for superrun {run_id}!\")", "pass"),
    W("subruns not persisted", "C14.R2", COMMON,
      "run_id=chunk.run_id,\n            subruns=chunk.subruns,", "run_id=chunk.run_id,\n            subruns=None,"),
    W("superrun chunk without subruns loaded", "C14.R2", COMMON,
      "if chunk_info[\"run_id\"].startswith(\"_\") and subruns is None:\n            raise ValueError(f\"Superrun {chunk_info} has no subruns information!\")", "pass"),
    W("run ending at t goes nowhere", "C14.R3", CHUNK,
      "elif run_start_end[\"end\"] <= t:", "elif run_start_end[\"end\"] < t:"),
    W("define_run does not sort", "C14.R4", RUNSEL,
      "data = {keys[i]: data[keys[i]] for i in sort_index}", "data = {k: data[k] for k in keys}"),
    W("writer sorts keys again (the original defect)", "C14.R4", FILES,
      "f.write(json.dumps(metadata, indent=4, default=json_util.default))", "f.write(json.dumps(metadata, sort_keys=True, indent=4, default=json_util.default))"),
    W("subruns made without saving", "C14.R5", CONTEXT,
      "target_i,\n                    save=(target_i,),\n                    multi_run_progress_bar", "target_i,\n                    multi_run_progress_bar"),
    W("loaders chained in sorted-name order", "C14.R5", CONTEXT,
      "for subrun in sub_run_spec:\n                    # combining is by default False", "for subrun in sorted(sub_run_spec):\n                    # combining is by default False"),
    W("time range on superrun silently ignored", "C14.R5", CONTEXT,
      "if time_range is not None:\n                    raise NotImplementedError(\"time range loading not yet supported for superruns\")", "pass"),
    W("subruns setter does not sort", "C14.R6", CHUNK,
      "self._subruns = dict(sorted(subruns.items(), key=lambda x: x[1][\"start\"]))", "self._subruns = dict(subruns.items())"),
    W("continuity demanded across subruns", "C14.R6", CHUNK,
      "if chunk.first_subrun[\"run_id\"] != last_subrun[\"run_id\"]:\n                last_end = None\n            else:\n                last_end = last_subrun[\"end\"]", "last_end = last_subrun.get(\"end\")"),
]
