"""C14 - a superrun is exactly the ordered concatenation of its subruns.

Decided statically: the storage key of superrun data depends on the subrun specification; subruns
are persisted per chunk and required on load; the run annotations are split correctly (ordering
enumeration, shared with C07.R2); define_run orders the specification by run start and the
frontend's writer does not destroy that order; the superrun branch of request planning makes and
chains the subruns in specification order.  Not decided: equality of the concatenated rows.
"""

import ast

from ..cfg import cfg_of, literals
from ..dataflow import Defs, calls_in, stmt_of
from ..index import AnalysisError, call_name, dotted, enclosing, head, norm, walk_body
from ..rules import COMPOUND, kw, node_calls, own_calls, prov_at
from ..witness import W
from . import c07

CONTEXT = "strax/context.py"
COMMON = "strax/storage/common.py"
FILES = "strax/storage/files.py"
CHUNK = "strax/chunk.py"
RUNSEL = "strax/run_selection.py"
PLUGIN = "strax/plugins/plugin.py"

EXPLANATION = (
    "R1 key dependence: DataKey._run_id appends deterministic_hash((subruns, combining)) exactly for "
    "superruns, the constructor refuses a superrun without subruns, and get_data_key passes the "
    "stored sub_run_spec exactly for run ids starting with '_' (so redefinition changes the key). R2 "
    "Saver.save writes chunk.subruns and the loader restores them and raises for a superrun chunk "
    "without them. R3 split bookkeeping (C07.R2, ordering enumeration). R4 define_run rebuilds the "
    "specification in stable_argsort order of the collected starts, and the run-metadata writer does "
    "not serialise with sort_keys (which would reorder it by run id). R5 check_cache's superrun "
    "branch refuses time ranges, makes the subruns with save=(target,), builds one loader per subrun "
    "in specification order and chains them in that order. R6 chunk annotations are kept sorted by "
    "start and non-overlapping; continuity is reset at subrun borders; superrun_transformation turns "
    "the combined runs into the chunk's subruns."
)
RULE_TEXT = "one obligation per (rule, site)"
ASSUMPTIONS = ["dicts preserve insertion order through json when keys are not sorted"]


def run(chk):
    repo = chk.repo
    r1_key(chk, repo)
    r2_persist(chk, repo)
    c07.r2_case_split(chk, repo, rule="C14.R3")
    r4_order(chk, repo)
    r5_planning(chk, repo)
    r6_annotations(chk, repo)


def r1_key(chk, repo):
    chk.describe("C14.R1", "the storage key of superrun data depends on the subrun specification")
    dk = repo.cls("DataKey")
    rid = [f for q, f in repo.module(COMMON).functions.items() if q.startswith("DataKey._run_id")]
    chk.need(len(rid) == 1, "C14.R1: DataKey._run_id not found")
    f = rid[0]
    cfg = cfg_of(f)
    sx = [n for n in cfg.stmt_nodes() if isinstance(n.stmt, ast.Assign) and norm(n.stmt.targets[0]) == "suffix" and not (isinstance(n.stmt.value, ast.Constant))]
    chk.check(bool(sx) and all(("self.is_superrun", True) in cfg.guard_facts(n) and "deterministic_hash" in norm(n.stmt.value) and "self.subruns" in norm(n.stmt.value) for n in sx), "C14.R1", f, None, "superrun keys do not include a hash of the subrun specification: redefining the superrun would load stale data", site_text="DataKey._run_id: suffix = hash((subruns, combining)) for superruns", site={"function": f.qualname, "construct": "suffix"})
    rets = [n for n in walk_body(f.node) if isinstance(n, ast.Return)]
    chk.check(bool(rets) and all(norm(r.value) == "self.run_id + suffix" for r in rets), "C14.R1", f, None, "the suffix is not part of the key", site_text="DataKey._run_id: run_id + suffix")
    rep = dk.methods["__repr__"]
    chk.check("self._run_id" in norm([n for n in walk_body(rep.node) if isinstance(n, ast.Return)][0].value), "C14.R1", rep, None, "directory names do not use the suffixed run id", site_text="DataKey.__repr__ uses _run_id")
    init = dk.methods["__init__"]
    icfg = cfg_of(init)
    chk.check(any(isinstance(n.stmt, ast.Raise) and {("run_id.startswith('_')", True), ("subruns is None", True)} <= icfg.guard_facts(n) for n in icfg.stmt_nodes()), "C14.R1", init, None, "a superrun key can be built without its subrun specification", site_text="DataKey.__init__: superrun requires subruns")
    gk = repo.func("Context.get_data_key", CONTEXT)
    gcfg = cfg_of(gk)
    sp = [n for n in gcfg.stmt_nodes() if isinstance(n.stmt, ast.Assign) and norm(n.stmt.targets[0]) == "sub_run_spec"]
    ok = True
    for n in sp:
        facts = gcfg.guard_facts(n)
        if ("run_id.startswith('_')", True) in facts:
            ok = ok and "self.run_metadata(run_id" in norm(n.stmt.value) and "sub_run_spec" in norm(n.stmt.value)
        else:
            ok = ok and norm(n.stmt.value) == "None"
    chk.check(len(sp) == 2 and ok, "C14.R1", gk, None, "the stored subrun specification is not what goes into superrun keys", site_text="get_data_key: sub_run_spec from run metadata iff superrun")
    cons = [c for c in calls_in(gk.node) if (call_name(c) or "").endswith("DataKey")]
    chk.check(len(cons) == 1 and kw(cons[0], "subruns") is not None and norm(kw(cons[0], "subruns")) == "sub_run_spec", "C14.R1", gk, None, "DataKey is built without the subrun specification", site_text="get_data_key: DataKey(subruns=sub_run_spec)", site={"function": gk.qualname, "construct": "subruns argument"})
    # who may construct DataKey
    n_sites = 0
    for m in repo.modules.values():
        for fn in m.functions.values():
            for c in calls_in(fn.node):
                if (call_name(c) or "").split(".")[-1] == "DataKey":
                    n_sites += 1
                    chk.check(fn is gk, "C14.R1", fn, stmt_of(c), "DataKey constructed outside Context.get_data_key (may miss the subrun specification)", site_text=f"{fn.qualname}: only get_data_key builds DataKeys")
    chk.floor("C14.R1", "DataKey construction sites", n_sites, 1)


def r2_persist(chk, repo):
    chk.describe("C14.R2", "subruns of every chunk are stored and restored; a superrun chunk without them is refused")
    sv = repo.func("Saver.save", COMMON)
    d = [n for n in walk_body(sv.node) if isinstance(n, ast.Call) and call_name(n) == "dict" and any(k.arg == "subruns" for k in n.keywords)]
    chk.check(len(d) == 1 and norm({k.arg: k.value for k in d[0].keywords}["subruns"]).endswith(".subruns"), "C14.R2", sv, None, "chunk subruns are not written to the chunk metadata", site_text="Saver.save: chunk_info[subruns] = chunk.subruns", site={"function": sv.qualname, "construct": "persist subruns"})
    rd = repo.func("StorageBackend._read_and_format_chunk", COMMON)
    cfg = cfg_of(rd)
    chk.check(any(isinstance(n.stmt, ast.Raise) and {("chunk_info['run_id'].startswith('_')", True), ("subruns is None", True)} <= cfg.guard_facts(n) for n in cfg.stmt_nodes()), "C14.R2", rd, None, "a stored superrun chunk without subrun information is loaded", site_text="_read_and_format_chunk: raise for a superrun chunk without subruns")
    cons = [c for c in calls_in(rd.node) if (call_name(c) or "").endswith("Chunk")]
    chk.check(len(cons) == 1 and kw(cons[0], "subruns") is not None and norm(kw(cons[0], "subruns")) == "subruns", "C14.R2", rd, None, "loaded chunk does not get its subruns back", site_text="_read_and_format_chunk: Chunk(subruns=subruns)", site={"function": rd.qualname, "construct": "restore subruns"})


def r4_order(chk, repo):
    chk.describe("C14.R4", "the subrun specification is ordered by run start when defined and keeps that order when written")
    f = repo.func("define_run", RUNSEL)
    d = Defs(f.node)
    si = d.single("sort_index")
    chk.check(si is not None and norm(si) in ("stable_argsort(starts)", "strax.stable_argsort(starts)"), "C14.R4", f, None, "subruns are not ordered by a stable sort of their start times", site_text="define_run: sort_index = stable_argsort(starts)")
    rebuilt = [n for n in walk_body(f.node) if isinstance(n, ast.Assign) and norm(n.targets[0]) == "data" and isinstance(n.value, ast.DictComp) and "sort_index" in norm(n.value)]
    chk.check(bool(rebuilt) and all(norm(n.value.key) == "keys[i]" and norm(n.value.value) == "data[keys[i]]" for n in rebuilt), "C14.R4", f, None, "the specification handed to the frontend is not rebuilt in sorted order", site_text="define_run: data = {keys[i]: data[keys[i]] for i in sort_index}", site={"function": f.qualname, "construct": "sorted spec"})
    ap = [c for c in calls_in(f.node) if norm(c.func) in ("starts.append", "keys.append")]
    loops = {id(enclosing(c, (ast.For,))) for c in ap}
    chk.check(len(ap) == 2 and len(loops) == 1 and any(norm(c.args[0]) == "run_doc_start" for c in ap) and any(norm(c.args[0]) == "_subrunid" for c in ap), "C14.R4", f, None, "keys and start times are not collected pairwise", site_text="define_run: keys and starts appended together")
    cfg = cfg_of(f)
    dr = [n for n in cfg.stmt_nodes() if not isinstance(n.stmt, COMPOUND) and node_calls(n, lambda c, nm: nm.endswith(".define_run") and nm != "self.define_run")]
    chk.check(bool(dr) and all(any(x in cfg.dominators("n")[n] for r in rebuilt for x in cfg.nodes_of(r)) for n in dr), "C14.R4", f, None, "the frontend receives the unsorted specification", site_text="define_run: frontend.define_run after sorting")
    for n in dr:
        c = [c for c in own_calls(n.stmt) if (call_name(c) or "").endswith(".define_run")][0]
        chk.check(kw(c, "sub_run_spec") is not None and norm(kw(c, "sub_run_spec")) == "data", "C14.R4", f, n.stmt, "sorted specification is not what is stored", site_text="frontend.define_run(sub_run_spec=data)")
    # writers must not sort keys
    n_w = 0
    for m in repo.modules.values():
        for fn in m.functions.values():
            if fn.name != "write_run_metadata":
                continue
            for c in calls_in(fn.node):
                if (call_name(c) or "") in ("json.dumps", "json.dump"):
                    n_w += 1
                    sk = kw(c, "sort_keys")
                    chk.check(sk is None or (isinstance(sk, ast.Constant) and not sk.value), "C14.R4", fn, stmt_of(c), "run metadata is serialised with sort_keys=True: the time-ordered sub_run_spec comes back ordered by run id, so subruns are combined in the wrong order when ids do not sort like times",
                              site_text=f"{fn.qualname}: json serialisation keeps the order of nested mappings", site={"function": fn.qualname, "construct": "sort_keys"})
    chk.floor("C14.R4", "json serialisations in write_run_metadata", n_w, 1)
    sfd = repo.func("StorageFrontend.define_run", COMMON)
    chk.check(any(call_name(c) == "self.write_run_metadata" and "sub_run_spec=sub_run_spec" in norm(c) for c in calls_in(sfd.node)), "C14.R4", sfd, None, "frontend does not store the specification it is given", site_text="StorageFrontend.define_run: write_run_metadata(dict(sub_run_spec=sub_run_spec, ...))")


def r5_planning(chk, repo):
    chk.describe("C14.R5", "planning a superrun refuses time ranges, makes every subrun with save=(target,), and chains one loader per subrun in specification order")
    f = repo.func("Context.get_components.check_cache", CONTEXT)
    cfg = cfg_of(f)
    mk = [n for n in cfg.stmt_nodes() if not isinstance(n.stmt, COMPOUND) and node_calls(n, lambda c, nm: nm == "self.make")]
    chk.floor("C14.R5", "make(...) calls in the superrun branch", len(mk), 1)
    for n in mk:
        c = [c for c in own_calls(n.stmt) if call_name(c) == "self.make"][0]
        chk.check(norm(c.args[0]) == "list(sub_run_spec.keys())" and norm(c.args[1]) == "target_i", "C14.R5", f, n.stmt, "not all subruns of the specification are made for this target", site_text="check_cache: make(list(sub_run_spec.keys()), target_i, ...)")
        chk.check(kw(c, "save") is not None and norm(kw(c, "save")) == "(target_i,)", "C14.R5", f, n.stmt, "subrun data is not saved before it is combined (the loaders below would not find it)", site_text="check_cache: make(..., save=(target_i,))", site={"function": f.qualname, "construct": "make save"})
        facts = cfg.guard_facts(n)
        chk.check(("loader", False) in facts, "C14.R5", f, n.stmt, "subruns are remade although the superrun data can be loaded", site_text="check_cache: superrun branch only if not loader", nontrivial=False)
        tr = [x for x in cfg.stmt_nodes() if isinstance(x.stmt, ast.Raise) and ("time_range is not None", True) in cfg.guard_facts(x) and x in cfg.dominators("n").get(n, set()) or False]
        rs = [x for x in cfg.stmt_nodes() if isinstance(x.stmt, ast.Raise) and ("time_range is not None", True) in cfg.guard_facts(x) and enclosing(x.stmt, (ast.If,)) is not None]
        chk.check(("time_range is not None", False) in facts and bool(rs), "C14.R5", f, n.stmt, "time-range requests on superruns are not refused", site_text="check_cache: raise for time_range on a superrun")
    loops = [n for n in walk_body(f.node) if isinstance(n, ast.For) and norm(n.iter) == "sub_run_spec"]
    chk.check(len(loops) == 1, "C14.R5", f, None, "loaders are not built by iterating the specification in its order", site_text="check_cache: for subrun in sub_run_spec", site={"function": f.qualname, "construct": "spec order"})
    for lp in loops:
        ap = [c for c in calls_in(lp) if norm(c.func) == "ldrs.append"]
        chk.check(len(ap) == 1 and norm(ap[0].args[0]) == "_loader" and enclosing(ap[0], (ast.If, ast.For)) is lp, "C14.R5", f, lp, "a subrun's loader is not appended (in order) for every subrun", site_text="check_cache: ldrs.append(_loader) for every subrun")
        ks = [c for c in calls_in(lp) if call_name(c) == "self.key_for"]
        chk.check(bool(ks) and all(norm(c.args[0]) == "subrun" and norm(c.args[1]) == "target_i" for c in ks), "C14.R5", f, lp, "subrun loader is not keyed by (subrun, target)", site_text="check_cache: key_for(subrun, target_i)")
        rs = [n for n in ast.walk(lp) if isinstance(n, ast.Raise)]
        chk.check(bool(rs), "C14.R5", f, lp, "a missing subrun loader is ignored", site_text="check_cache: raise if a subrun cannot be loaded")
        tr = [n for n in ast.walk(lp) if isinstance(n, ast.Assign) and norm(n.targets[0]) == "_subrun_time_range"]
        chk.check(any(norm(n.value) == "sub_run_spec[subrun]" for n in tr) and any(norm(n.value) == "None" for n in tr), "C14.R5", f, lp, "time ranges of the specification are not applied per subrun", site_text="check_cache: per-subrun time range from the specification")
    cl = [g for g in repo.module(CONTEXT).functions.values() if g.qualname.endswith("check_cache.concat_loader")]
    chk.check(len(cl) == 1 and any(isinstance(n, ast.For) and norm(n.iter) == "ldrs" and any(isinstance(x, ast.YieldFrom) for x in ast.walk(n)) for n in walk_body(cl[0].node)), "C14.R5", f, None, "subrun loaders are not chained in list order", site_text="concat_loader: for x in ldrs: yield from x(...)", site={"function": f.qualname, "construct": "chain order"})


def r6_annotations(chk, repo):
    chk.describe("C14.R6", "chunk run annotations stay sorted by start and non-overlapping; continuity is reset at subrun borders; combined runs become the superrun chunk's subruns")
    for q in ("Chunk.subruns#2", "Chunk.superrun#2"):
        f = repo.func(q, CHUNK)
        srt = [c for c in calls_in(f.node) if call_name(c) == "sorted"]
        chk.check(any("x[1]['start']" in norm(c) for c in srt), "C14.R6", f, None, f"{q.split('#')[0]} annotations are not kept sorted by start", site_text=f"{q.split('#')[0]} setter: sorted by start")
        chk.check(any(call_name(c) == "_sorted_subruns_check" for c in calls_in(f.node)), "C14.R6", f, None, "overlap of run annotations is not checked", site_text=f"{q.split('#')[0]} setter: overlap check")
    sc = repo.func("_sorted_subruns_check", CHUNK)
    cfg = cfg_of(sc)
    chk.check(any(isinstance(n.stmt, ast.Raise) and any("['end'] > " in t and "['start']" in t and p for t, p in cfg.guard_facts(n)) for n in cfg.stmt_nodes()), "C14.R6", sc, None, "overlapping run annotations are accepted", site_text="_sorted_subruns_check: raise if end[i] > start[i+1]")
    cc = repo.func("continuity_check", CHUNK)
    ccfg = cfg_of(cc)
    rst = [n for n in ccfg.stmt_nodes() if isinstance(n.stmt, ast.Assign) and norm(n.stmt.targets[0]) == "last_end" and norm(n.stmt.value) == "None" and any("first_subrun['run_id'] != last_subrun['run_id']" in t and p for t, p in ccfg.guard_facts(n))]
    chk.check(bool(rst), "C14.R6", cc, None, "continuity is demanded across the border between two subruns (whose times are unrelated)", site_text="continuity_check: reset at a new subrun")
    st = repo.func("Plugin.superrun_transformation", PLUGIN)
    scfg = cfg_of(st)
    up = [n for n in scfg.stmt_nodes() if not isinstance(n.stmt, COMPOUND) and node_calls(n, lambda c, nm: nm == "self._update_subruns")]
    okc = False
    for n in up:
        c = [c for c in own_calls(n.stmt) if call_name(c) == "self._update_subruns"][0]
        if norm(c.args[1]) == "superrun" and ("self.is_superrun", True) in scfg.guard_facts(n) and ("self._run_id not in superrun", True) in scfg.guard_facts(n):
            okc = True
    chk.check(okc, "C14.R6", st, None, "when subruns are combined into a superrun the combined runs are not recorded as the chunk's subruns", site_text="superrun_transformation: subruns := combined runs when combining", site={"function": st.qualname, "construct": "combine"})
    ms = repo.func("_merge_subruns_in_chunk", CHUNK)
    chk.check(any(call_name(c) == "_mergable_check" for c in calls_in(ms.node)) and any(call_name(c) == "_merge_runs_in_chunk" for c in calls_in(ms.node)), "C14.R6", ms, None, "concatenation does not merge and validate the run annotations", site_text="_merge_subruns_in_chunk: collect + mergable check", nontrivial=False)


WITNESSES = [
    W("subruns dropped from the key suffix", "C14.R1", COMMON,
      "suffix = \"_\" + strax.deterministic_hash((self.subruns, self.combining))", "suffix = \"_\" + strax.deterministic_hash((self.combining,))"),
    W("get_data_key passes no subruns", "C14.R1", CONTEXT,
      "return strax.DataKey(run_id, target, lineage, subruns=sub_run_spec, combining=combining)", "return strax.DataKey(run_id, target, lineage, subruns={} if sub_run_spec else None, combining=combining)"),
    W("superrun key without subruns accepted", "C14.R1", COMMON,
      "if run_id.startswith(\"_\") and subruns is None:\n            raise ValueError(f\"You must assign subruns information for superrun {run_id}!\")", "pass"),
    W("subruns not persisted", "C14.R2", COMMON,
      "run_id=chunk.run_id,\n            subruns=chunk.subruns,", "run_id=chunk.run_id,\n            subruns=None,"),
    W("superrun chunk without subruns loaded", "C14.R2", COMMON,
      "if chunk_info[\"run_id\"].startswith(\"_\") and subruns is None:\n            raise ValueError(f\"Superrun {chunk_info} has no subruns information!\")", "pass"),
    W("run ending at t goes nowhere", "C14.R3", CHUNK,
      "elif run_start_end[\"end\"] <= t:", "elif run_start_end[\"end\"] < t:"),
    W("define_run does not sort", "C14.R4", RUNSEL,
      "data = {keys[i]: data[keys[i]] for i in sort_index}", "data = {k: data[k] for k in keys}"),
    W("writer sorts keys again (the original defect)", "C14.R4", FILES,
      "f.write(json.dumps(metadata, indent=4, default=json_util.default))", "f.write(json.dumps(metadata, sort_keys=True, indent=4, default=json_util.default))"),
    W("subruns made without saving", "C14.R5", CONTEXT,
      "target_i,\n                    save=(target_i,),\n                    multi_run_progress_bar", "target_i,\n                    multi_run_progress_bar"),
    W("loaders chained in sorted-name order", "C14.R5", CONTEXT,
      "for subrun in sub_run_spec:\n                    # combining is by default False", "for subrun in sorted(sub_run_spec):\n                    # combining is by default False"),
    W("time range on superrun silently ignored", "C14.R5", CONTEXT,
      "if time_range is not None:\n                    raise NotImplementedError(\"time range loading not yet supported for superruns\")", "pass"),
    W("subruns setter does not sort", "C14.R6", CHUNK,
      "self._subruns = dict(sorted(subruns.items(), key=lambda x: x[1][\"start\"]))", "self._subruns = dict(subruns.items())"),
    W("continuity demanded across subruns", "C14.R6", CHUNK,
      "if chunk.first_subrun[\"run_id\"] != last_subrun[\"run_id\"]:\n                last_end = None\n            else:\n                last_end = last_subrun[\"end\"]", "last_end = last_subrun.get(\"end\")"),
]
