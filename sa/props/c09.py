"""C09 - overlap-window plugins give chunking-independent results at chunk boundaries.

Decided statically: withheld results are flushed on every normal exit; the cross-chunk state is
updated on every path of do_compute in both the single- and the multi-output branch; results already
sent are cut off before anything is emitted; cached input is put in front of the new input; the
plugin cannot be parallelised or have its inputs freed.  Not decided: the window arithmetic.
"""

import ast

from ..cfg import cfg_of, literals
from ..dataflow import Defs, calls_in, provenance, stmt_of
from ..index import N, AnalysisError, call_name, dotted, enclosing, head, norm, walk_body
from ..pattern import find as pfind, has_fact, local_defined_as, pmatch
from ..rules import COMPOUND, kw, node_calls, own_calls, prov_at
from ..witness import W

OVERLAP = "strax/plugins/overlap_window_plugin.py"

EXPLANATION = (
    "R1 final flush: every normal exit of OverlapWindowPlugin.iter passes `yield self.cached_results` "
    "after delegating to Plugin.iter. R2 the class resolves parallel=False and its constructor "
    "rejects clean_chunk_after_compute (state across chunks). R3 typestate of the cross-chunk state "
    "in do_compute: on every path to the return, cached_results and sent_until are assigned (in the "
    "single- and the multi-output branch), the fresh result is cut at sent_until (strict split, right "
    "part kept) before the invalid-beyond split (early split allowed, left part emitted, right part "
    "cached), cached input precedes new input in the concatenation, and the input cache is refreshed. "
    "R4 cache_beyond keeps the right part of an early split and fails loudly when the starts do not "
    "converge."
)
RULE_TEXT = "one obligation per (rule, site): exit path, state assignment per branch, split statement"
ASSUMPTIONS = ["Chunk.split returns (left, right); the compute is local within the declared window (property precondition)"]


def run(chk):
    repo = chk.repo
    it = repo.func("OverlapWindowPlugin.iter", OVERLAP)
    cfg = cfg_of(it)
    chk.describe("C09.R1", "results withheld at the last chunk boundary are yielded when the input is exhausted")
    flush = lambda n: n.kind == "stmt" and not isinstance(n.stmt, COMPOUND) and any(isinstance(x, ast.Yield) and x.value is not None and norm(x.value) == "self.cached_results" for x in ast.walk(n.stmt))
    deleg = lambda n: n.kind == "stmt" and not isinstance(n.stmt, COMPOUND) and any(isinstance(x, ast.YieldFrom) and "super().iter(" in norm(x.value) for x in ast.walk(n.stmt))
    ok, _ = cfg.every_path([cfg.entry], [cfg.exit_return], flush, "n")
    chk.check(ok, "C09.R1", it, None, "the plugin can finish without yielding the results it withheld for the next chunk: the end of the run is lost", site_text="OverlapWindowPlugin.iter: `yield self.cached_results` on every normal exit", site={"function": it.qualname, "construct": "final flush"})
    fl = [n for n in cfg.stmt_nodes() if flush(n)]
    dl = [n for n in cfg.stmt_nodes() if deleg(n)]
    chk.check(bool(dl) and bool(fl) and all(any(d in cfg.dominators("n")[f] for d in dl) for f in fl), "C09.R1", it, None, "final flush does not come after the regular processing", site_text="OverlapWindowPlugin.iter: flush after `yield from super().iter(...)`")
    for d in dl:
        c = [x for x in ast.walk(d.stmt) if isinstance(x, ast.Call) and "super().iter" in norm(x.func)][0]
        chk.check(norm(c.args[0]) == "iters" and kw(c, "executor") is not None, "C09.R1", it, d.stmt, "delegation to Plugin.iter drops arguments", site_text="super().iter(iters, executor=executor)", nontrivial=False)

    chk.describe("C09.R2", "the plugin is sequential and keeps its inputs")
    cls = repo.cls("OverlapWindowPlugin")
    owner, val = repo.class_attr(cls, "parallel")
    chk.check(isinstance(val, ast.Constant) and val.value is False, "C09.R2", "OverlapWindowPlugin", None, f"parallel = {norm(val) if val is not None else None}: chunks would be computed concurrently on the cached state", site_text="OverlapWindowPlugin.parallel = False", site={"class": "OverlapWindowPlugin", "what": "parallel"})
    init = repo.func("OverlapWindowPlugin.__init__", OVERLAP)
    icfg = cfg_of(init)
    chk.check(any(isinstance(n.stmt, ast.Raise) and ("self.clean_chunk_after_compute", True) in icfg.guard_facts(n) for n in icfg.stmt_nodes()), "C09.R2", init, None, "clean_chunk_after_compute accepted although inputs are cached", site_text="__init__: rejects clean_chunk_after_compute")
    st = {norm(t) for n in walk_body(init.node) if isinstance(n, ast.Assign) for t in n.targets}
    chk.check({"self.cached_input", "self.sent_until"} <= st and any(call_name(c) == "self.init_cached_results" for c in calls_in(init.node)), "C09.R2", init, None, "cross-chunk state is not initialised per plugin instance", site_text="__init__: cached_input, cached_results, sent_until initialised")

    chk.describe("C09.R3", "do_compute updates the withheld results and the sent-until mark on every path, cuts off what was already sent before emitting, and refreshes the input cache")
    dc = repo.func("OverlapWindowPlugin.do_compute", OVERLAP)
    dcfg = cfg_of(dc)
    rets = [n for n in dcfg.stmt_nodes() if isinstance(n.stmt, ast.Return) and n.stmt.value is not None]
    chk.need(len(rets) == 1, "C09.R3: single return of OverlapWindowPlugin.do_compute not found")
    ret = rets[0]

    def assigns(attr):
        def f(n):
            if n.kind != "stmt":
                return False
            s = n.stmt
            if isinstance(s, ast.For):
                return any(isinstance(x, ast.Assign) and any(attr in norm(t) for t in (x.targets[0].elts if isinstance(x.targets[0], ast.Tuple) else [x.targets[0]])) for b in s.body for x in ast.walk(b))
            if isinstance(s, ast.Assign):
                tg = s.targets[0].elts if isinstance(s.targets[0], ast.Tuple) else [s.targets[0]]
                return any(norm(t) == attr or norm(t).startswith(attr + "[") for t in tg)
            return False
        return f

    for attr in ("self.cached_results", "self.sent_until"):
        ok, path = dcfg.every_path([dcfg.entry], [ret], assigns(attr), "n")
        chk.check(ok, "C09.R3", dc, ret.stmt, f"a path through do_compute returns without updating {attr}: stale state makes the next chunk drop or duplicate results", site_text=f"do_compute: {attr} assigned on every path", site={"function": dc.qualname, "state": attr})
    # cut at sent_until: strict split keeping the right part, in both branches, before the emit split
    cuts = [n for n in walk_body(dc.node) if isinstance(n, ast.Assign) and isinstance(n.value, ast.Subscript) and isinstance(n.value.value, ast.Call) and isinstance(n.value.value.func, ast.Attribute) and n.value.value.func.attr == "split" and kw(n.value.value, "t") is not None and norm(kw(n.value.value, "t")) == "self.sent_until"]
    chk.check(len(cuts) >= 2, "C09.R3", dc, None, "fresh results are not cut at sent_until in both the single- and the multi-output branch: results near a boundary are emitted twice", site_text="do_compute: split(t=self.sent_until)[1] in both branches", site={"function": dc.qualname, "construct": "sent_until cut"})
    for c in cuts:
        chk.check(norm(c.value.slice) == "1", "C09.R3", dc, c, "the part before sent_until (already sent) is kept instead of the part after it", site_text="cut keeps the right part [1]")
    mo = [g for g in dcfg.nodes if g.kind == "guard" and g.test is not None and norm(g.test) == "self.multi_output"]
    chk.check(len({id(g.owner) for g in mo}) >= 2, "C09.R3", dc, None, "single- and multi-output results are no longer handled by separate branches", site_text="do_compute: multi_output branches", nontrivial=False)
    emits = [n for n in walk_body(dc.node) if isinstance(n, ast.Assign) and isinstance(n.value, ast.Call) and isinstance(n.value.func, ast.Attribute) and n.value.func.attr == "split" and isinstance(n.targets[0], ast.Tuple) and any("self.cached_results" in norm(t) for t in n.targets[0].elts)]
    chk.check(len(emits) >= 2, "C09.R3", dc, None, "valid results are not separated from the withheld ones by a split in both branches", site_text="do_compute: result, cached_results = split(...) in both branches")
    for e in emits:
        a = kw(e.value, "allow_early_split")
        chk.check(isinstance(a, ast.Constant) and a.value is True, "C09.R3", dc, e, "emit split is strict: a result straddling the validity limit raises CannotSplit", site_text="emit split allows early split")
        tg = e.targets[0].elts
        chk.check("self.cached_results" in norm(tg[1]) and "result" in norm(tg[0]), "C09.R3", dc, e, "emitted and withheld parts are swapped", site_text="left part emitted, right part withheld")
        ecfg_nodes = dcfg.nodes_of(e)
        cut_nodes = [x for c in cuts for x in dcfg.nodes_of(c)]
        # some cut precedes this emit split on every path
        ok2, _ = dcfg.every_path([dcfg.entry], ecfg_nodes, lambda n: n in cut_nodes or (n.kind == "stmt" and isinstance(n.stmt, ast.For) and any(x in [c for c in cuts] for b in n.stmt.body for x in ast.walk(b))), "n")
        chk.check(ok2, "C09.R3", dc, e, "results are emitted before the already-sent part was cut off", site_text="sent_until cut precedes the emit split")
    single0 = [e for e in emits if isinstance(kw(e.value, "t"), ast.Name) and isinstance(e.value.func.value, ast.Name) and norm(e.value.func.value) == norm(e.targets[0].elts[0])]
    IB = norm(kw(single0[0].value, "t")) if single0 else None
    defs = Defs(dc.node)

    def window_index(e):
        """0 / 1 when `e` is the look-back / look-ahead component of self._get_window_size(), else None."""
        if isinstance(e, ast.Subscript) and isinstance(e.slice, ast.Constant) and e.slice.value in (0, 1):
            base = e.value
            if isinstance(base, ast.Name):
                v = defs.single(base.id)
                base = v if v is not None else base
            if isinstance(base, ast.Call) and (call_name(base) or "").endswith("_get_window_size"):
                return e.slice.value
        if isinstance(e, ast.Name):
            ds = defs.defs.get(e.id, [])
            if len(ds) == 1 and ds[0][2] == "assign-unpack" and isinstance(ds[0][0], ast.Call) and (call_name(ds[0][0]) or "").endswith("_get_window_size"):
                tg = ds[0][1].targets[0]
                if isinstance(tg, (ast.Tuple, ast.List)) and len(tg.elts) == 2:
                    return [norm(t) for t in tg.elts].index(e.id)
        return None

    def limit_form(expr, what, base_ok, want_index, site):
        """expr must read  <base> - k * window[want_index] - c  with k >= 1 and c >= 0."""
        from ..linear import linear
        syms = {}

        def resolve(name):
            if window_index(name) is not None:
                return None
            v = defs.single(name.id)
            return v

        try:
            form = linear(expr, resolve)
        except AnalysisError as ex:
            chk.fail("C09.R3", dc, stmt_of(expr), f"{what} is not a linear expression of a boundary and a window: {ex}", site={"function": dc.qualname, "limit": site})
            return
        const = form.pop("1", 0)
        wins, bases, other = {}, {}, {}
        for sym, coef in form.items():
            e = ast.parse(sym, mode="eval").body
            wi = window_index(e)
            if wi is not None:
                wins[wi] = wins.get(wi, 0) + coef
            elif base_ok(e):
                bases[sym] = coef
            else:
                other[sym] = coef
        ok = not other and list(bases.values()) == [1] and set(wins) == {want_index} and wins[want_index] <= -1 and const <= 0
        chk.check(ok, "C09.R3", dc, stmt_of(expr), f"{what} is not `boundary - k * {'look-ahead' if want_index == 1 else 'look-back'} window - c` with k >= 1, c >= 0 (found boundary terms {bases}, window terms {wins}, constant {const}, other {other}): results / inputs within one window of the boundary are treated as final",
                  site_text=f"do_compute: {site}", site={"function": dc.qualname, "limit": site})

    ibv = defs.single(IB) if IB else None
    chk.check(ibv is not None, "C09.R3", dc, None, "validity limit is not a single-assignment local of do_compute", site_text="invalid_beyond defined once")
    if ibv is not None:
        def is_end(e):
            if isinstance(e, ast.Name):
                v = defs.single(e.id)
                return v is not None and ".end" in provenance(defs, v)
            return isinstance(e, ast.Attribute) and e.attr == "end" or (isinstance(e, ast.Subscript) and ".end" in provenance(defs, e))
        limit_form(ibv, "the validity limit of fresh results", is_end, 1, "invalid_beyond = end - k * window[1] - c")
    gw = repo.func("OverlapWindowPlugin._get_window_size", OVERLAP)
    conv = [c for c in calls_in(gw.node) if call_name(c) in ("float", "np.float64", "np.float32")] + [x for x in walk_body(gw.node) if isinstance(x, ast.BinOp) and isinstance(x.op, ast.Div)]
    chk.check(not conv, "C09.R3", gw, stmt_of(conv[0]) if conv else None, "the declared window is converted to floating point: `end - 2 * window - 1` is then evaluated in float64, which at realistic timestamps (~1e18 ns) is only exact to 256 ns - the limits can land beyond the chunk end", site_text="_get_window_size: window handed out as declared (no float conversion)")
    for r_ in [st for st in walk_body(gw.node) if isinstance(st, ast.Return) and isinstance(st.value, ast.Tuple) and len(st.value.elts) == 2]:
        a, b = st_a, st_b = r_.value.elts
        ia = [x.slice.value for x in ast.walk(a) if isinstance(x, ast.Subscript) and isinstance(x.slice, ast.Constant)]
        ib = [x.slice.value for x in ast.walk(b) if isinstance(x, ast.Subscript) and isinstance(x.slice, ast.Constant)]
        okw = (not ia and not ib and norm(a) == norm(b)) or (ia == [0] and ib == [1])
        chk.check(okw, "C09.R3", gw, r_, f"`{norm(r_)}` does not hand out (look-back, look-ahead) = (declared[0], declared[1]) (or the scalar twice): one side of an asymmetric window is replaced by the other", site_text="_get_window_size: returns (w[0], w[1]) or (w, w)", site={"function": gw.qualname, "rule": "window components"})
    cbc = [c for c in calls_in(dc.node) if call_name(c) == "self.cache_beyond" and len(c.args) == 3 and norm(c.args[2]) == "self.cached_input"]
    chk.check(len(cbc) == 1, "C09.R3", dc, None, "input cache refresh not found", site_text="do_compute: cache_beyond(kwargs, limit, self.cached_input)")
    if len(cbc) == 1:
        limit_form(cbc[0].args[1], "the start of the input cache", lambda e: norm(e) == "self.sent_until", 0, "cache_inputs_beyond = sent_until - k * window[0] - c")
    for c_ in cuts:
        a_ = kw(c_.value.value, "allow_early_split")
        chk.check(isinstance(a_, ast.Constant) and a_.value is False, "C09.R3", dc, c_, "the cut at sent_until may move earlier: results already sent are emitted again", site_text="cut at sent_until is strict")
    single = [e for e in emits if IB and norm(kw(e.value, "t")) == IB]
    chk.check(bool(single), "C09.R3", dc, None, "single-output results are not split at the validity limit", site_text="single-output: split(t=invalid_beyond)")
    su = [n for n in walk_body(dc.node) if isinstance(n, ast.Assign) and norm(n.targets[0]) == "self.sent_until"]
    multi = [e for e in emits if e not in single]
    PS = norm(kw(multi[0].value, "t")) if multi and isinstance(kw(multi[0].value, "t"), ast.Name) else None
    psd = [n for n, b in pfind(dc.node, f"{PS} = self.cache_beyond(L_res, {IB}, self.cached_results)")] if PS and IB else []
    chk.check(any(norm(n.value) == "self.cached_results.start" for n in su) and bool(psd) and any(norm(n.value) == PS for n in su), "C09.R3", dc, None, "sent_until is not set to where the withheld results start", site_text="sent_until = start of the withheld results")
    cat = [c for c in calls_in(dc.node) if (call_name(c) or "").endswith("Chunk.concatenate")]
    okcat = False
    if len(cat) == 1:
        b = pmatch("[self.cached_input[L_k], L_c]", cat[0].args[0])
        lp = enclosing(cat[0], (ast.For,))
        okcat = b is not None and lp is not None and norm(lp.target) == f"({b['L_k']}, {b['L_c']})" and norm(lp.iter) == "kwargs.items()"
    chk.check(okcat, "C09.R3", dc, None, "cached input is not put in front of the new input", site_text="do_compute: concatenate([cached_input, chunk])")
    cb = lambda n: n.kind == "stmt" and not isinstance(n.stmt, COMPOUND) and any(call_name(c) == "self.cache_beyond" and len(c.args) == 3 and norm(c.args[2]) == "self.cached_input" and norm(c.args[0]) == "kwargs" for c in own_calls(n.stmt))
    ok, _ = dcfg.every_path([dcfg.entry], [ret], cb, "n")
    chk.check(ok, "C09.R3", dc, ret.stmt, "input cache is not refreshed on every path: the next chunk is computed without its neighbours", site_text="do_compute: cache_beyond(kwargs, ..., self.cached_input) on every path")
    sup = lambda n: n.kind == "stmt" and not isinstance(n.stmt, COMPOUND) and any(call_name(c) == "super().do_compute" for c in own_calls(n.stmt))
    ok, _ = dcfg.every_path([dcfg.entry], [ret], sup, "n")
    chk.check(ok, "C09.R3", dc, None, "computation bypasses Plugin.do_compute (validation)", site_text="do_compute: super().do_compute on every path")
    er = [n for n in dcfg.stmt_nodes() if isinstance(n.stmt, ast.Raise) and has_fact(dcfg, n, "len(set(L_e)) == 1", False)]
    chk.check(bool(er), "C09.R3", dc, None, "inputs ending at different times are accepted", site_text="do_compute: raise on incongruent input ends", nontrivial=False)

    chk.describe("C09.R4", "cache_beyond keeps what lies after the split (early split allowed) and raises when the starts cannot be aligned")
    cbf = repo.func("OverlapWindowPlugin.cache_beyond", OVERLAP)
    sp = [n for n in walk_body(cbf.node) if isinstance(n, ast.Assign) and isinstance(n.value, ast.Subscript) and isinstance(n.value.value, ast.Call) and isinstance(n.value.value.func, ast.Attribute) and n.value.value.func.attr == "split"]
    chk.check(len(sp) == 1 and norm(sp[0].value.slice) == "1" and isinstance(kw(sp[0].value.value, "allow_early_split"), ast.Constant) and kw(sp[0].value.value, "allow_early_split").value is True and norm(kw(sp[0].value.value, "t")) == cbf.params[2], "C09.R4", cbf, sp[0] if sp else None, "cache does not keep the right part of an early split at the running split time", site_text="cache_beyond: cached[data] = chunk.split(t=prev_split, allow_early_split=True)[1]")
    if len(sp) == 1:
        il = enclosing(sp[0], (ast.For,))
        ccfg = cfg_of(cbf)
        okk = il is not None and isinstance(sp[0].targets[0], ast.Subscript) and norm(sp[0].targets[0].value) == cbf.params[3]
        if okk:
            ln = ccfg.node_of(il)
            first = ccfg.nodes_of(il.body[0])
            store = ccfg.node_of(sp[0])
            inside = {id(x) for st_ in il.body for x in ast.walk(st_)}
            in_loop = lambda n: id(n.stmt if n.kind == "stmt" else n.owner) in inside
            okk = store in first or ccfg.every_path(first, [ln], lambda n: n is store or (n is not ln and not in_loop(n)), "n")[0]
            okk = okk and "items" in norm(il.iter) and cbf.params[1] in norm(il.iter)
        chk.check(okk, "C09.R4", cbf, sp[0], "an entry of the cache can keep its chunk from an earlier call (the store is skipped on some path of the loop over the new inputs): rows between the stale cache and the next chunk are lost",
                  site_text="cache_beyond: every entry of io is re-split into the cache in every pass", site={"function": cbf.qualname, "rule": "cache entry refreshed on every pass"})
    fl_ = [n for n in walk_body(cbf.node) if isinstance(n, ast.For) and n.orelse and any(isinstance(x, ast.Raise) for x in n.orelse)]
    chk.check(bool(fl_), "C09.R4", cbf, None, "cache alignment gives up silently", site_text="cache_beyond: for ... else: raise")
    up = [n for n, b in pfind(cbf.node, f"{cbf.params[2]} = {cbf.params[3]}[L_d].start")]
    chk.check(bool(up), "C09.R4", cbf, None, "split time does not follow the early splits", site_text="cache_beyond: prev_split = cached[data].start")
    rt = [n for n in walk_body(cbf.node) if isinstance(n, ast.Return)]
    chk.check(bool(rt) and all(norm(r.value) == cbf.params[2] for r in rt), "C09.R4", cbf, None, "cache_beyond does not report the aligned split time", site_text="cache_beyond: returns prev_split", nontrivial=False)


WITNESSES = [
    W("final flush dropped", "C09.R1", OVERLAP,
      "# Yield final results, kept at bay in fear of a new chunk\n        yield self.cached_results", "# Yield final results, kept at bay in fear of a new chunk\n        return"),
    W("flush before processing", "C09.R1", OVERLAP,
      "yield from super().iter(iters, executor=executor)\n\n        # Yield final results, kept at bay in fear of a new chunk\n        yield self.cached_results",
      "yield self.cached_results\n        yield from super().iter(iters, executor=executor)"),
    W("parallel = True", "C09.R2", OVERLAP, "parallel = False\n    max_trials = 10", "parallel = True\n    max_trials = 10"),
    W("sent_until not updated in the multi-output branch", "C09.R3", OVERLAP,
      "raise ValueError(\"Output start time inconsistency has not been resolved?\")\n            self.sent_until = prev_split", "raise ValueError(\"Output start time inconsistency has not been resolved?\")"),
    W("already-sent results not cut (single output)", "C09.R3", OVERLAP,
      "else:\n            result = result.split(t=self.sent_until, allow_early_split=False)[1]", "else:\n            pass"),
    W("cut keeps the sent part", "C09.R3", OVERLAP,
      "result = result.split(t=self.sent_until, allow_early_split=False)[1]", "result = result.split(t=self.sent_until, allow_early_split=False)[0]"),
    W("withheld results not stored (single output)", "C09.R3", OVERLAP,
      "result, self.cached_results = result.split(t=invalid_beyond, allow_early_split=True)\n            self.sent_until = self.cached_results.start",
      "result, _rest = result.split(t=invalid_beyond, allow_early_split=True)\n            self.sent_until = _rest.start"),
    W("input cache not refreshed", "C09.R3", OVERLAP,
      "self.cache_beyond(kwargs, cache_inputs_beyond, self.cached_input)\n        return result", "return result"),
    W("new input before cached input", "C09.R3", OVERLAP,
      "[self.cached_input[data_kind], chunk], self.allow_superrun", "[chunk, self.cached_input[data_kind]], self.allow_superrun"),
    W("scalar window handed out as (w, 0)", "C09.R3", OVERLAP,
      "return window_size, window_size\n        elif", "return window_size, 0\n        elif"),
    W("window converted to float", "C09.R3", OVERLAP,
      "return window_size, window_size\n        elif", "return float(window_size), float(window_size)\n        elif"),
    W("input cache starts after sent_until", "C09.R3", OVERLAP,
      "cache_inputs_beyond = int(self.sent_until - 2 * window_size[0] - 1)", "cache_inputs_beyond = int(self.sent_until + 2 * window_size[0] - 1)"),
    W("input cache keeps only half a look-back window", "C09.R3", OVERLAP,
      "cache_inputs_beyond = int(self.sent_until - 2 * window_size[0] - 1)", "cache_inputs_beyond = int(self.sent_until - window_size[0] // 2 - 1)"),
    W("windows crossed", "C09.R3", OVERLAP,
      "invalid_beyond = int(end - 2 * window_size[1] - 1)", "invalid_beyond = int(end - 2 * window_size[0] - 1)"),
    W("validity limit ignores the window", "C09.R3", OVERLAP,
      "invalid_beyond = int(end - 2 * window_size[1] - 1)", "invalid_beyond = int(end - 1)"),
    W("sent_until cut may move earlier", "C09.R3", OVERLAP,
      "result = result.split(t=self.sent_until, allow_early_split=False)[1]", "result = result.split(t=self.sent_until, allow_early_split=True)[1]"),
    W("cache entry kept when it already starts at the split time", "C09.R4", OVERLAP,
      "cached[data] = chunk.split(t=prev_split, allow_early_split=True)[1]", "if data in cached and cached[data].start == prev_split:\n                    continue\n                cached[data] = chunk.split(t=prev_split, allow_early_split=True)[1]"),
    W("cache keeps the left part", "C09.R4", OVERLAP,
      "cached[data] = chunk.split(t=prev_split, allow_early_split=True)[1]", "cached[data] = chunk.split(t=prev_split, allow_early_split=True)[0]"),
    W("alignment failure ignored", "C09.R4", OVERLAP,
      "else:\n            raise ValueError(\n                f\"Buffer start time inconsistency cannot be resolved after {self.max_trials} tries\"\n            )", "else:\n            pass"),
]
