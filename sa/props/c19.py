"""C19 - peak clustering, summing, merging and splitting conserve hits, area and time.

Taken whole the property is numeric (areas add up, waveforms integrate to areas, helper outputs equal
formulas) and is not decided here.  What *is* visible in the shape of the code, and is a necessary
condition of the conservation laws, is the bookkeeping discipline of the four kernels:

  R1 find_peaks     every hit is counted and its area added exactly once to the open peak, the
                    counters are reset when a peak is opened, the peak's end is the running maximum
                    of the hit ends, a peak is closed exactly when the next hit starts at least
                    gap_threshold after that end (or would exceed max_duration, or there is no next
                    hit), and the extensions enter the start / length with the right sign.
  R2 _merge_peaks   every constituent adds its area, per-channel area and hit count exactly once, the
                    merged peak starts at the first and ends at the last constituent.
  R3 _split_peaks   the fragments tile the parent: fragment k starts at the previous split point and
                    is (split - previous) samples long, the cursor is advanced after every fragment
                    and starts at 0 for every parent; the parents that were split are replaced by
                    their fragments and the result is re-sorted.
  R4 _replace_merged every original peak is either skipped inside a merge window or copied, every
                    merged peak is inserted exactly once, and the kernel's own conservation asserts
                    (all slots filled, all windows consumed) are on its normal exit.

The numeric clauses (waveform integrals, down-sampling, area-fraction times, moving averages, highest
density regions) are listed as not decided.
"""

import ast

from ..cfg import cfg_of
from ..dataflow import Defs, calls_in, provenance, stmt_of
from ..index import AnalysisError, call_name, enclosing, head, norm, walk_body
from ..linear import linear
from ..rules import on_every_iteration
from ..witness import W

BUILD = "strax/processing/peak_building.py"
MERGE = "strax/processing/peak_merging.py"
SPLIT = "strax/processing/peak_splitting.py"

EXPLANATION = (
    "Bookkeeping discipline of the peak kernels decided on their syntax trees and CFGs: R1 in find_peaks "
    "the per-hit accumulations (n_hits += 1, area += hit area, per-channel area) are unconditional "
    "top-level statements of the hit loop, the counters are reset where a peak is opened, the peak end "
    "is a running maximum, the closing predicate is `next start - peak end >= gap_threshold` (linear "
    "form, non-strict) or last hit or too long, start = first hit - left extension and length = (end - "
    "start + right extension) / dt; R2 in _merge_peaks the constituent loop adds area, area_per_channel "
    "and n_hits unconditionally, time comes from the first and length / endtime from the last "
    "constituent; R3 in _split_peaks fragment start = parent start + cursor * dt, fragment length = "
    "(split - cursor) * dt / orig_dt, the cursor starts at 0 per parent and is set to the split point on "
    "every path that emitted a fragment, and PeakSplitter.__call__ replaces split parents by the new "
    "peaks and re-sorts; R4 in _replace_merged copy / insert statements are paired with their cursor "
    "increments and the closing asserts are present.  Not decided: every numeric clause of C19."
)
RULE_TEXT = "one obligation per (kernel, bookkeeping statement or predicate)"
ASSUMPTIONS = [
    "numba compiles the kernels with the semantics of the Python source (assert statements included)",
    "hits / peaks are sorted by time on entry (checked by the callers, see C17.R1)",
]


def run(chk):
    repo = chk.repo
    r1_find_peaks(chk, repo)
    r2_merge(chk, repo)
    r3_split(chk, repo)
    r4_replace(chk, repo)
    r5_sum_waveform(chk, repo)
    from .c18 import r7_stale_locals
    r7_stale_locals(chk, repo, "C19.R6", [BUILD, MERGE, SPLIT])


def _top(body, pred):
    return [st for st in body if pred(st)]


def _field_store(st, base=None, field=None):
    """(base text, field) of `base["field"] = ...` / augmented, else None."""
    tg = st.targets[0] if isinstance(st, ast.Assign) and len(st.targets) == 1 else st.target if isinstance(st, ast.AugAssign) else None
    if isinstance(tg, ast.Subscript) and isinstance(tg.slice, ast.Constant) and isinstance(tg.slice.value, str):
        b, f = norm(tg.value), tg.slice.value
        if (base is None or b == base) and (field is None or f == field):
            return b, f
    return None


# ------------------------------------------------------------------------------------ R1
def r1_find_peaks(chk, repo):
    chk.describe("C19.R1", "find_peaks: every hit is counted and added once to the open peak, counters are reset when a peak is opened, the peak end is a running maximum, the peak is closed exactly at a gap >= gap_threshold / at the last hit / when it would get too long, and the extensions enter start and length with the right sign")
    R = "C19.R1"
    f = repo.func("find_peaks", BUILD)
    cfg = cfg_of(f)
    defs = Defs(f.node)
    loops = [n for n in f.node.body if isinstance(n, ast.For) and call_name(n.iter) == "enumerate"]
    chk.need(len(loops) == 1 and isinstance(loops[0].target, ast.Tuple), "C19.R1: hit loop of find_peaks not found")
    lp = loops[0]
    HI, HIT = norm(lp.target.elts[0]), norm(lp.target.elts[1])
    pdef = [st for st in lp.body if isinstance(st, ast.Assign) and isinstance(st.targets[0], ast.Name) and isinstance(st.value, ast.Subscript) and isinstance(st.value.slice, ast.Name)]
    chk.need(bool(pdef), "C19.R1: current peak `p = buffer[offset]` not found")
    P = pdef[0].targets[0].id
    # unconditional per-hit accumulations
    nh = _top(lp.body, lambda st: isinstance(st, ast.AugAssign) and _field_store(st, P, "n_hits") and isinstance(st.op, ast.Add) and norm(st.value) == "1")
    chk.check(len(nh) == 1 and on_every_iteration(cfg, lp, nh), R, f, lp, "a hit is not counted exactly once (unconditionally) in the peak's n_hits", site_text="find_peaks: p[n_hits] += 1 per hit")
    ar = _top(lp.body, lambda st: isinstance(st, ast.AugAssign) and _field_store(st, P, "area") and isinstance(st.op, ast.Add))
    chk.check(len(ar) == 1 and on_every_iteration(cfg, lp, ar), R, f, lp, "a hit's area is not added exactly once (unconditionally) to the peak's area", site_text="find_peaks: p[area] += hit area per hit")
    AREA = norm(ar[0].value) if ar else None
    if ar:
        pv = provenance(defs, ar[0].value)
        chk.check(f"{HIT}" in pv and "str:area" in pv and "str:channel" in pv, R, f, ar[0], "what is added to the peak's area is not the hit's area converted with the gain of the hit's channel", site_text="find_peaks: hit area = hit[area] * to_pe[hit[channel]]")
    pc = _top(lp.body, lambda st: isinstance(st, ast.AugAssign) and isinstance(st.target, ast.Subscript) and norm(st.target.slice) == f"{HIT}['channel']" and isinstance(st.op, ast.Add))
    chk.check(len(pc) == 1 and AREA is not None and norm(pc[0].value) == AREA and on_every_iteration(cfg, lp, pc), R, f, lp, "the per-channel area does not receive the same amount as the total area, once per hit", site_text="find_peaks: area_per_channel[channel] += hit area per hit")
    APC = norm(pc[0].target.value) if pc else None
    # the peak end is a running maximum of the hit ends
    ends = [st for st in lp.body if isinstance(st, ast.Assign) and isinstance(st.targets[0], ast.Name) and isinstance(st.value, ast.Call) and call_name(st.value) == "max" and st.targets[0].id in [norm(a) for a in st.value.args]]
    chk.check(len(ends) == 1 and on_every_iteration(cfg, lp, ends), R, f, lp, "the end of the open peak is not kept as the running maximum of the hit ends (a long early hit would be forgotten)", site_text="find_peaks: peak_endtime = max(peak_endtime, hit end)")
    END = ends[0].targets[0].id if ends else None
    T1 = None
    if ends:
        others = [a for a in ends[0].value.args if norm(a) != END]
        T1 = others[0] if len(others) == 1 else None
        tv = defs.single(T1.id) if isinstance(T1, ast.Name) else T1
        okt = False
        if tv is not None:
            try:
                form = linear(tv)
                okt = form.get(f"{HIT}['time']") == 1 and form.get("1", 0) == 0 and len(form) == 2
            except AnalysisError:
                # time + dt * length: a product of two symbols
                okt = isinstance(tv, ast.BinOp) and isinstance(tv.op, ast.Add) and f"{HIT}['time']" in (norm(tv.left), norm(tv.right)) and "length" in norm(tv)
        chk.check(okt, R, f, ends[0], "the hit end is not time + dt * length", site_text="find_peaks: hit end = time + dt * length")
    # opening a peak resets the counters
    opens = [n for n in cfg.stmt_nodes() if isinstance(n.stmt, ast.Assign) and _field_store(n.stmt, P, "time")]
    chk.check(len(opens) == 1, R, f, lp, "the peak start is not set at exactly one place", site_text="find_peaks: p[time] set where a peak is opened")
    if opens:
        blk = enclosing(opens[0].stmt, (ast.If,))
        branch = None
        if blk is not None:
            branch = blk.orelse if any(opens[0].stmt is x for x in blk.orelse) else blk.body
        chk.check(branch is not None, R, f, opens[0].stmt, "the peak start is not set in the branch that opens a peak", site_text="find_peaks: opening branch")
        if branch is not None:
            zero = {fld for st in branch if isinstance(st, ast.Assign) and norm(st.value) == "0" for fld in [(_field_store(st, P) or (None, None))[1]] if fld}
            chk.check({"n_hits", "area"} <= zero, R, f, opens[0].stmt, f"opening a peak does not reset n_hits and area (reset: {sorted(zero)}): what a rejected candidate accumulated leaks into the next peak", site_text="find_peaks: n_hits = area = 0 when a peak is opened", site={"function": f.qualname, "rule": "reset on open"})
            rs = [st for st in branch if isinstance(st, ast.AugAssign) and APC and norm(st.target) == APC and isinstance(st.op, ast.Mult) and norm(st.value) == "0"] + [st for st in branch if isinstance(st, ast.Assign) and APC and norm(st.targets[0]).startswith(APC) and norm(st.value) == "0"]
            chk.check(bool(rs), R, f, opens[0].stmt, "opening a peak does not clear the per-channel areas", site_text="find_peaks: area_per_channel cleared when a peak is opened")
            se = [st for st in branch if isinstance(st, ast.Assign) and END and norm(st.targets[0]) == END]
            chk.check(bool(se) and T1 is not None and all(norm(st.value) == norm(T1) for st in se), R, f, opens[0].stmt, "opening a peak does not start its end at the end of the first hit", site_text="find_peaks: peak_endtime = end of first hit when opened")
        try:
            form = linear(opens[0].stmt.value, lambda n_: defs.single(n_.id))
        except AnalysisError:
            form = {}
        chk.check(form.get(f"{HIT}['time']") == 1 and form.get("left_extension") == -1 and form.get("1", 0) == 0 and len([k for k in form if k != "1"]) == 2, R, f, opens[0].stmt, f"peak start is not `first hit start - left_extension` (found {form})", site_text="find_peaks: time = t0 - left_extension")
    # closing predicate
    far = [st for st in walk_body(lp) if isinstance(st, ast.Assign) and isinstance(st.value, ast.Compare) and "gap_threshold" in norm(st.value)]
    chk.check(len(far) == 1, R, f, lp, "the gap test against gap_threshold was not found as a single comparison", site_text="find_peaks: gap test")
    if len(far) == 1:
        c = far[0].value
        a, b, op = c.left, c.comparators[0], c.ops[0]
        if isinstance(op, (ast.Lt, ast.LtE)):
            a, b = b, a
        strict = isinstance(op, (ast.Lt, ast.Gt))
        try:
            form = linear(ast.BinOp(left=a, op=ast.Sub(), right=b))
        except AnalysisError:
            form = {}
        const = form.pop("1", 0) if form else 0
        nxt = [k for k, v in form.items() if k.endswith("['time']") and v == 1]
        okg = isinstance(op, (ast.Lt, ast.LtE, ast.Gt, ast.GtE)) and not strict and const == 0 and len(nxt) == 1 and form.get(END) == -1 and form.get("gap_threshold") == -1 and len(form) == 3
        chk.check(okg, R, f, far[0], f"the next hit is not declared far exactly when `next start - peak end >= gap_threshold` (found {form}, constant {const}, {'strict' if strict else 'non-strict'})", site_text="find_peaks: next_hit[time] - peak_endtime >= gap_threshold", site={"function": f.qualname, "rule": "gap predicate"})
        if nxt:
            NX = nxt[0][: -len("['time']")]
            nd = defs.single(NX) if NX.isidentifier() else None
            chk.check(nd is not None and norm(nd).replace(" ", "") in (f"hits[{HI}+1]",), R, f, far[0], "the hit compared with the peak end is not the next hit", site_text="find_peaks: next hit = hits[i + 1]")
    closes = [n for n in cfg.stmt_nodes() if isinstance(n.stmt, ast.Assign) and _field_store(n.stmt, P, "length")]
    chk.check(len(closes) == 1, R, f, lp, "the peak length is not set at exactly one place", site_text="find_peaks: p[length] set where a peak is closed")
    if closes:
        v = closes[0].stmt.value
        okl = isinstance(v, ast.BinOp) and isinstance(v.op, (ast.Div, ast.FloorDiv))
        form = {}
        if okl:
            try:
                form = linear(v.left)
            except AnalysisError:
                okl = False
        chk.check(okl and form.get(END) == 1 and form.get(f"{P}['time']") == -1 and form.get("right_extension") == 1 and form.get("1", 0) == 0 and len([k for k in form if k != "1"]) == 3, R, f, closes[0].stmt, f"peak length is not (peak end - peak start + right_extension) / dt (found {form})", site_text="find_peaks: length = (peak_endtime - time + right_extension) / dt")
        cl_if = enclosing(closes[0].stmt, (ast.If,))
        t = norm(cl_if.test) if cl_if is not None else ""
        names = set(x.id for x in ast.walk(cl_if.test) if isinstance(x, ast.Name)) if cl_if is not None else set()
        chk.check(cl_if is not None and isinstance(cl_if.test, ast.BoolOp) and isinstance(cl_if.test.op, ast.Or) and (far[0].targets[0].id in names if len(far) == 1 else False) and len(names) == 3, R, f, cl_if or lp, f"a peak is not closed exactly when this is the last hit, the next hit is far, or the peak would get too long (test: {t})", site_text="find_peaks: close iff last or far or too long")
        store = [n for n in cfg.stmt_nodes() if isinstance(n.stmt, ast.Assign) and isinstance(n.stmt.targets[0], ast.Subscript) and norm(n.stmt.targets[0].value) == f"{P}['area_per_channel']"]
        chk.check(bool(store) and APC is not None and all(norm(n.stmt.value) == APC for n in store), R, f, closes[0].stmt, "the accumulated per-channel areas are not stored in the closed peak", site_text="find_peaks: p[area_per_channel][:] = accumulated")
    ip = [st for st in walk_body(lp) if isinstance(st, ast.Assign) and norm(st.value) in ("True", "False") and isinstance(st.targets[0], ast.Name) and st.targets[0].id == (norm(enclosing(opens[0].stmt, (ast.If,)).test) if opens and enclosing(opens[0].stmt, (ast.If,)) is not None else "")]
    chk.check(len(ip) == 2 and {norm(st.value) for st in ip} == {"True", "False"}, R, f, lp, "the open / closed state of the peak candidate is not switched on when opened and off when closed", site_text="find_peaks: in_peak = True on open, False on close")


# ------------------------------------------------------------------------------------ R2
def r2_merge(chk, repo):
    chk.describe("C19.R2", "_merge_peaks: every constituent adds its area, per-channel area and hit count exactly once; the merged peak starts at the first constituent and ends at the end of the last one")
    R = "C19.R2"
    f = repo.func("_merge_peaks", MERGE)
    defs = Defs(f.node)
    outer = [n for n in f.node.body if isinstance(n, ast.For) and call_name(n.iter) == "enumerate"]
    chk.need(len(outer) == 1 and isinstance(outer[0].target, ast.Tuple), "C19.R2: loop over the merged peaks not found")
    NEW = norm(outer[0].target.elts[1])
    NI = norm(outer[0].target.elts[0])
    inner = [n for n in outer[0].body if isinstance(n, ast.For) and isinstance(n.target, ast.Name) and isinstance(n.iter, ast.Name)]
    chk.need(len(inner) == 1, "C19.R2: loop over the constituents not found")
    OLD, PK = inner[0].iter.id, inner[0].target.id
    src = [st for st in outer[0].body if isinstance(st, ast.Assign) and norm(st.targets[0]) == OLD]
    chk.check(bool(src) and isinstance(src[0].value, ast.Subscript) and norm(src[0].value.value) == f.params[0], R, f, src[0] if src else None, "the constituents are not a slice of the input peaks", site_text="_merge_peaks: old_peaks = peaks[start:end]")
    if src and isinstance(src[0].value.slice, ast.Name):
        sd = defs.single(src[0].value.slice.id)
        chk.check(sd is not None and norm(sd) == f"slice({f.params[1]}[{NI}], {f.params[2]}[{NI}])", R, f, src[0], "the merge window is not [start_merge_at[i], end_merge_at[i])", site_text="_merge_peaks: slice(start_merge_at[i], end_merge_at[i])")
    for fld in ("area", "area_per_channel", "n_hits"):
        acc = _top(inner[0].body, lambda st: isinstance(st, ast.AugAssign) and _field_store(st, NEW, fld) and isinstance(st.op, ast.Add) and norm(st.value) == f"{PK}['{fld}']")
        other = [st for st in walk_body(outer[0]) if isinstance(st, (ast.Assign, ast.AugAssign)) and _field_store(st, NEW, fld) and st not in acc]
        chk.check(len(acc) == 1 and not other and on_every_iteration(cfg_of(f), inner[0], acc), R, f, inner[0], f"merged {fld} is not the sum over all constituents (each added exactly once, unconditionally, and never overwritten)", site_text=f"_merge_peaks: new[{fld}] += p[{fld}] for every constituent", site={"function": f.qualname, "field": fld})
    fl = [st for st in outer[0].body if isinstance(st, ast.Assign) and isinstance(st.targets[0], ast.Tuple) and norm(st.value) == f"({OLD}[0], {OLD}[-1])"]
    chk.check(len(fl) == 1, R, f, outer[0], "first / last constituent are not old_peaks[0] / old_peaks[-1]", site_text="_merge_peaks: first, last = old[0], old[-1]")
    if fl:
        later = [st for st in outer[0].body if isinstance(st, (ast.Assign, ast.If)) and outer[0].body.index(st) > outer[0].body.index(fl[0]) and any(isinstance(x, ast.Assign) and norm(x.targets[0]) == OLD for x in ast.walk(st))]
        chk.check(not later, R, f, fl[0], "first / last constituent are taken before the constituents are narrowed down (e.g. by the `merged` mask): the merged peak spans peaks that are not part of it", site_text="_merge_peaks: first, last taken from the final list of constituents", site={"function": f.qualname, "rule": "first/last after the mask"})
        FIRST, LAST = [norm(e) for e in fl[0].targets[0].elts]
        tm = [st for st in outer[0].body if isinstance(st, ast.Assign) and _field_store(st, NEW, "time")]
        chk.check(len(tm) == 1 and norm(tm[0].value) == f"{FIRST}['time']", R, f, tm[0] if tm else outer[0], "the merged peak does not start at the first constituent", site_text="_merge_peaks: new[time] = first[time]")
        ln = [st for st in outer[0].body if isinstance(st, ast.Assign) and _field_store(st, NEW, "length")]
        okl = False
        if len(ln) == 1 and isinstance(ln[0].value, ast.BinOp) and isinstance(ln[0].value.op, (ast.FloorDiv, ast.Div)):
            try:
                form = linear(ln[0].value.left)
                okl = form.get(f"strax.endtime({LAST})") == 1 and form.get(f"{NEW}['time']") == -1 and form.get("1", 0) == 0 and len(form) <= 3
            except AnalysisError:
                okl = False
            dtv = [st for st in outer[0].body if isinstance(st, ast.Assign) and _field_store(st, NEW, "dt")]
            okl = okl and bool(dtv) and norm(dtv[0].value) == norm(ln[0].value.right)
        chk.check(okl, R, f, ln[0] if ln else outer[0], "the merged peak does not span up to the end of the last constituent in units of its own dt", site_text="_merge_peaks: length = (endtime(last) - time) // dt")
        et = [st for st in outer[0].body if isinstance(st, ast.Assign) and isinstance(st.targets[0], ast.Subscript) and norm(st.targets[0].slice) == NI and norm(st.value) == f"strax.endtime({LAST})"]
        chk.check(len(et) == 1, R, f, outer[0], "the end time handed back for the merged peak is not the end of the last constituent", site_text="_merge_peaks: endtime[i] = endtime(last)")
    dj = [st for st in f.node.body if isinstance(st, ast.If) and any(isinstance(x, ast.Raise) for x in st.body) and "endtime" in norm(st.test) and "time" in norm(st.test)]
    chk.check(bool(dj), R, f, None, "overlapping input peaks are no longer refused", site_text="_merge_peaks: peaks must be disjoint", nontrivial=False)


# ------------------------------------------------------------------------------------ R3
def r3_split(chk, repo):
    chk.describe("C19.R3", "_split_peaks: fragments tile their parent (start = parent start + cursor * dt, length = (split - cursor) * dt / orig_dt, cursor reset per parent and advanced after every fragment); split parents are replaced by their fragments and the result is sorted")
    R = "C19.R3"
    f = repo.func("PeakSplitter._split_peaks", SPLIT)
    cfg = cfg_of(f)
    outer = [n for n in f.node.body if isinstance(n, ast.For) and call_name(n.iter) == "enumerate"]
    chk.need(len(outer) == 1 and isinstance(outer[0].target, ast.Tuple), "C19.R3: parent loop of _split_peaks not found")
    PI, PAR = norm(outer[0].target.elts[0]), norm(outer[0].target.elts[1])
    inner = [n for n in outer[0].body if isinstance(n, ast.For) and isinstance(n.target, ast.Tuple) and call_name(n.iter) == f.params[0]]
    chk.need(len(inner) == 1, "C19.R3: loop over the split points not found")
    il = inner[0]
    SP = norm(il.target.elts[0])
    frag = [st for st in il.body if isinstance(st, ast.Assign) and isinstance(st.targets[0], ast.Name) and isinstance(st.value, ast.Subscript) and isinstance(st.value.slice, ast.Name)]
    chk.need(bool(frag), "C19.R3: new fragment `r = new_peaks[offset]` not found")
    FR = frag[0].targets[0].id
    tm = [st for st in il.body if isinstance(st, ast.Assign) and _field_store(st, FR, "time")]
    CUR = None
    if len(tm) == 1 and isinstance(tm[0].value, ast.BinOp) and isinstance(tm[0].value.op, ast.Add):
        l, r_ = tm[0].value.left, tm[0].value.right
        if norm(l) != f"{PAR}['time']":
            l, r_ = r_, l
        if norm(l) == f"{PAR}['time']" and isinstance(r_, ast.BinOp) and isinstance(r_.op, ast.Mult):
            fac = [x for x in (r_.left, r_.right) if norm(x) != f"{PAR}['dt']"]
            if len(fac) == 1 and isinstance(fac[0], ast.Name) and f"{PAR}['dt']" in (norm(r_.left), norm(r_.right)):
                CUR = fac[0].id
    chk.check(CUR is not None, R, f, tm[0] if tm else il, "a fragment does not start at parent start + cursor * parent dt", site_text="_split_peaks: r[time] = p[time] + prev_split * p[dt]")
    if CUR is None:
        return
    ln = [st for st in il.body if isinstance(st, ast.Assign) and _field_store(st, FR, "length")]
    okl = False
    if len(ln) == 1:
        t = norm(ln[0].value).replace(" ", "")
        okl = t in (f"({SP}-{CUR})*{PAR}['dt']/{f.params[2]}", f"({SP}-{CUR})*{PAR}['dt']//{f.params[2]}")
        dtv = [st for st in il.body if isinstance(st, ast.Assign) and _field_store(st, FR, "dt")]
        okl = okl and bool(dtv) and norm(dtv[0].value) == f.params[2]
    chk.check(okl, R, f, ln[0] if ln else il, "a fragment is not (split - cursor) parent samples long, expressed in its own dt", site_text="_split_peaks: r[length] = (split - prev_split) * p[dt] / orig_dt with r[dt] = orig_dt")
    # cursor: reset per parent, advanced after every fragment
    resets = [st for st in outer[0].body if isinstance(st, ast.Assign) and norm(st.targets[0]) == CUR and norm(st.value) == "0"]
    chk.check(len(resets) == 1 and outer[0].body.index(resets[0]) < outer[0].body.index(il), R, f, outer[0], "the cursor is not reset to 0 for every parent before its split points are visited", site_text="_split_peaks: prev_split = 0 per parent")
    adv = [st for st in walk_body(il) if isinstance(st, ast.Assign) and norm(st.targets[0]) == CUR]
    chk.check(len(adv) == 1 and norm(adv[0].value) == SP, R, f, il, "the cursor is not moved to the split point (exactly one assignment inside the loop)", site_text="_split_peaks: prev_split = split")
    if len(adv) == 1 and tm:
        tn, an, lnode = cfg.node_of(tm[0]), cfg.node_of(adv[0]), cfg.node_of(il)
        inside = {id(x) for st_ in il.body for x in ast.walk(st_)}
        in_loop = lambda n: id(n.stmt if n.kind == "stmt" else n.owner) in inside
        ok, _p = cfg.every_path([tn], [lnode], lambda n: n is an or (n is not lnode and not in_loop(n)), "n")
        chk.check(ok, R, f, adv[0], "after a fragment was written the loop can continue without moving the cursor: the next fragment would overlap it", site_text="_split_peaks: cursor advanced on every path after a fragment", site={"function": f.qualname, "rule": "cursor advanced after every fragment"})
    mk = [st for st in il.body if isinstance(st, ast.Assign) and isinstance(st.targets[0], ast.Subscript) and norm(st.targets[0].value) == f.params[3] and norm(st.targets[0].slice) == PI and norm(st.value) == "True"]
    chk.check(len(mk) == 1, R, f, il, "a parent that produced a fragment is not marked as split", site_text="_split_peaks: is_split[p_i] = True")
    zl = [st for st in il.body if isinstance(st, ast.If) and any(isinstance(x, ast.Raise) for x in st.body) and norm(st.test).replace(" ", "") in (f"{FR}['length']<=0",)]
    chk.check(bool(zl), R, f, il, "fragments of non-positive length are not refused", site_text="_split_peaks: raise if r[length] <= 0", nontrivial=False)
    # the caller replaces the parents
    call = repo.func("PeakSplitter.__call__", SPLIT)
    rep = [st for st in walk_body(call.node) if isinstance(st, ast.Assign) and norm(st.targets[0]) == call.params[1] and "np.concatenate" in norm(st.value)]
    okr = False
    if len(rep) == 1:
        nps = [st for st in walk_body(call.node) if isinstance(st, ast.Assign) and isinstance(st.value, ast.Call) and call_name(st.value) == "self._split_peaks"]
        NP = norm(nps[0].targets[0]) if nps else None
        ISS = None
        for k in (nps[0].value.keywords if nps else []):
            if k.arg == "is_split":
                ISS = norm(k.value)
        okr = NP is not None and ISS is not None and norm(rep[0].value).replace(" ", "") == f"strax.sort_by_time(np.concatenate([{call.params[1]}[~{ISS}],{NP}]))"
    chk.check(okr, R, call, rep[0] if rep else None, "the result is not `unsplit parents + all new peaks`, sorted by time", site_text="PeakSplitter.__call__: peaks = sort_by_time(concatenate([peaks[~is_split], new_peaks]))")


# ------------------------------------------------------------------------------------ R4
def r4_replace(chk, repo):
    chk.describe("C19.R4", "_replace_merged: every original peak is skipped (inside a merge window) or copied, every merged peak is inserted exactly once, and the kernel's conservation asserts sit on its normal exit")
    R = "C19.R4"
    f = repo.func("_replace_merged", MERGE)
    cfg = cfg_of(f)
    RES, ORIG, MRG, WIN = f.params[:4]
    loops = [n for n in f.node.body if isinstance(n, ast.For)]
    chk.need(len(loops) == 1 and isinstance(loops[0].target, ast.Name), "C19.R4: loop over the original peaks not found")
    lp = loops[0]
    OI = lp.target.id
    chk.check(norm(lp.iter).replace(" ", "") in (f"range(len({ORIG}))",) or (isinstance(lp.iter, ast.Call) and call_name(lp.iter) == "range" and len(lp.iter.args) == 1 and isinstance(lp.iter.args[0], ast.Name) and norm(Defs(f.node).single(lp.iter.args[0].id) or ast.Constant(value=0)) == f"len({ORIG})"), R, f, lp, "the loop does not visit every original peak", site_text="_replace_merged: for orig_i in range(len(orig))")
    stores = [st for st in walk_body(f.node) if isinstance(st, ast.Assign) and isinstance(st.targets[0], ast.Subscript) and norm(st.targets[0].value) == RES]
    copies = [st for st in stores if norm(st.value) == f"{ORIG}[{OI}]"]
    inserts = [st for st in stores if isinstance(st.value, ast.Subscript) and norm(st.value.value) == MRG]
    chk.check(len(copies) == 1 and len(inserts) == 2 and len(stores) == 3, R, f, lp, f"expected one copy of an original peak and two insert sites of a merged peak (in the loop and after it), found {len(copies)} / {len(inserts)} of {len(stores)} stores", site_text="_replace_merged: store sites")
    RI = norm(copies[0].targets[0].slice) if copies else None
    WI = norm(inserts[0].value.slice) if inserts else None

    def followed_by_inc(st, var):
        blk = None
        for parent in ast.walk(f.node):
            for fld in ("body", "orelse"):
                seq = getattr(parent, fld, None)
                if isinstance(seq, list) and st in seq:
                    blk = seq
        if blk is None:
            return False
        rest = blk[blk.index(st) + 1:]
        incs = [x for x in rest if isinstance(x, ast.AugAssign) and norm(x.target) == var and isinstance(x.op, ast.Add) and norm(x.value) == "1"]
        return len(incs) == 1

    for st in copies + inserts:
        chk.check(RI is not None and norm(st.targets[0].slice) == RI and followed_by_inc(st, RI), R, f, st, "a stored peak is not followed by exactly one advance of the result cursor in the same block (a slot would be overwritten or left empty)", site_text=f"_replace_merged: `{head(st, 40)}`; result_i += 1", site={"function": f.qualname, "store": norm(st.value)[:40]})
    for st in inserts:
        chk.check(WI is not None and norm(st.value.slice) == WI and followed_by_inc(st, WI), R, f, st, "an inserted merged peak is not followed by exactly one advance of the window cursor (a merged peak would be inserted twice or skipped)", site_text=f"_replace_merged: `{head(st, 40)}`; window_i += 1", site={"function": f.qualname, "insert": norm(st.value)[:40]})
    if copies:
        cn = cfg.node_of(copies[0])
        facts = cfg.guard_literals(cn)
        skip = [e for e, pol, g in facts if pol is False and isinstance(e, ast.Compare) and norm(e.left) in (OI,) or (pol is False and isinstance(e, ast.Compare) and OI in norm(e))]
        chk.check(bool(skip), R, f, copies[0], "an original peak inside a merge window is copied as well (it must be replaced by the merged peak)", site_text="_replace_merged: copy only outside the skip window")
    asserts = [n for n in cfg.stmt_nodes() if isinstance(n.stmt, ast.Assert)]
    from ..index import N
    want = {N(f"{RI} == len({RES})"): False, N(f"{WI} == len({WIN})"): False}
    for n in asserts:
        t = norm(n.stmt.test)
        for k in want:
            if t == k and n in cfg.dominators("n").get(cfg.exit_return, ()):
                want[k] = True
    chk.check(all(want.values()), R, f, None, f"the closing conservation asserts ({', '.join(k for k, v in want.items() if not v)}) are missing from the normal exit", site_text="_replace_merged: assert result full and all windows consumed")
    rm = repo.func("replace_merged", MERGE)
    sz = [st for st in walk_body(rm.node) if isinstance(st, ast.Assign) and isinstance(st.value, ast.Call) and call_name(st.value) == "np.zeros" and st.value.args]
    oks = False
    if sz:
        try:
            form = linear(sz[0].value.args[0], lambda n_: None)
            oks = form.get(f"len({rm.params[0]})") == 1 and form.get(f"len({rm.params[1]})") == 1 and sum(1 for k, v in form.items() if v == -1) == 1 and len(form) == 3
        except AnalysisError:
            oks = False
    chk.check(oks, R, rm, sz[0] if sz else None, "the result is not sized len(orig) - skipped + len(merge)", site_text="replace_merged: result size")

# ------------------------------------------------------------------------------------ R5
def r5_sum_waveform(chk, repo):
    chk.describe("C19.R5", "sum_waveform: scratch buffers and areas are cleared at the start of every peak, the left hit cursor is only moved by the search for the first overlapping hit, and what is added to the peak's area (total and per channel) is the sum of exactly the samples added to its waveform; _merge_peaks clears its scratch buffers before every merged peak")
    R = "C19.R5"
    f = repo.func("sum_waveform", BUILD)
    cfg = cfg_of(f)
    outer = [n for n in f.node.body if isinstance(n, ast.For) and isinstance(n.target, ast.Name)]
    chk.need(len(outer) == 1, "C19.R5: peak loop of sum_waveform not found")
    ol = outer[0]
    pdef = [st for st in ol.body if isinstance(st, ast.Assign) and isinstance(st.targets[0], ast.Name) and isinstance(st.value, ast.Subscript) and norm(st.value.slice) == norm(ol.target)]
    chk.need(bool(pdef), "C19.R5: current peak `p = peaks[peak_i]` not found")
    P = pdef[0].targets[0].id
    scans = [n for n in ol.body if isinstance(n, ast.For) and isinstance(n.iter, ast.Call) and call_name(n.iter) == "range" and len(n.iter.args) == 2]
    chk.check(len(scans) == 2, R, f, ol, f"expected the search for the first overlapping hit and the scan over the overlapping hits, found {len(scans)} range loops", site_text="sum_waveform: search loop + scan loop")
    if len(scans) != 2:
        return
    search, scan = scans
    LEFT = norm(search.target)
    okc = norm(search.iter.args[0]) == LEFT and norm(scan.iter.args[0]) == LEFT and norm(scan.target) != LEFT
    other = [st for st in walk_body(f.node) if isinstance(st, (ast.Assign, ast.AugAssign)) and any(norm(t) == LEFT for t in (st.targets if isinstance(st, ast.Assign) else [st.target]))]
    init_ok = len(other) == 1 and norm(other[0].value) == "0" and enclosing(other[0], (ast.For, ast.While)) is None
    chk.check(okc and init_ok, R, f, other[1] if len(other) > 1 else search, f"the left hit cursor `{LEFT}` is moved by something other than the search for the first overlapping hit (a hit that straddles two adjacent peaks would be skipped for the second one)", site_text="sum_waveform: left cursor moved only by the search loop", site={"function": f.qualname, "rule": "left cursor"})
    brk = [st for st in search.body if isinstance(st, ast.If) and len(st.body) == 1 and isinstance(st.body[0], ast.Break)]
    okb = False
    if len(brk) == 1 and isinstance(brk[0].test, ast.Compare) and len(brk[0].test.ops) == 1:
        c = brk[0].test
        a, b, op = c.left, c.comparators[0], c.ops[0]
        if isinstance(op, (ast.Gt, ast.GtE)):
            a, b = b, a
        okb = isinstance(op, (ast.Lt, ast.Gt)) and norm(a) == f"{P}['time']" and "['time']" in norm(b) and "['length']" in norm(b)
    chk.check(okb, R, f, brk[0] if brk else search, "the search does not stop at the first hit that ends after the peak start (strictly)", site_text="sum_waveform: break at first hit with peak start < hit end")
    # clearing at the start of every peak, before the scan
    si = ol.body.index(scan)
    pre = ol.body[:si]
    bufs = [st for st in walk_body(f.node) if isinstance(st, ast.AugAssign) and isinstance(st.target, ast.Subscript) and isinstance(st.target.slice, ast.Slice) and isinstance(st.op, ast.Add) and id(st) in {id(x) for x in ast.walk(scan)}]
    main = [st for st in bufs if enclosing(st, (ast.If,)) is None or enclosing(enclosing(st, (ast.If,)), (ast.For,)) is not scan]
    chk.check(len(main) >= 1, R, f, scan, "the scan does not add the hit's samples to the waveform buffer unconditionally", site_text="sum_waveform: buffer[p_start:p_end] += hit samples")
    for st in main[:1]:
        BUF, D = norm(st.target.value), norm(st.value)
        cleared = [x for x in pre if isinstance(x, ast.Assign) and isinstance(x.targets[0], ast.Subscript) and norm(x.targets[0].value) == BUF and norm(x.value) == "0"]
        chk.check(len(cleared) == 1, R, f, st, f"the waveform buffer `{BUF}` is not cleared at the start of every peak, before the hits are added", site_text="sum_waveform: buffer cleared per peak")
        ar = [x for x in scan.body if isinstance(x, ast.AugAssign) and _field_store(x, P, "area") and isinstance(x.op, ast.Add)]
        okA = False
        if len(ar) == 1 and isinstance(ar[0].value, ast.Name):
            ad = [x for x in scan.body if isinstance(x, ast.Assign) and norm(x.targets[0]) == ar[0].value.id]
            okA = len(ad) == 1 and norm(ad[0].value) == f"{D}.sum()"
            pc = [x for x in scan.body if isinstance(x, ast.AugAssign) and isinstance(x.target, ast.Subscript) and norm(x.value) == ar[0].value.id and not _field_store(x, P, "area")]
            okA = okA and len(pc) == 1
            if okA:
                APC = norm(pc[0].target.value)
                okA = any(isinstance(x, ast.AugAssign) and norm(x.target) == APC and isinstance(x.op, ast.Mult) and norm(x.value) == "0" for x in pre) and any(isinstance(x, ast.Assign) and _field_store(x, P, "area") and norm(x.value) == "0" for x in pre)
                fin = [x for x in ol.body[si:] if isinstance(x, ast.Assign) and isinstance(x.targets[0], ast.Subscript) and norm(x.targets[0].value) == f"{P}['area_per_channel']" and norm(x.value) == APC]
                okA = okA and len(fin) == 1
        chk.check(okA, R, f, ar[0] if ar else scan, "the area added to the peak (total, per channel, cleared per peak, stored at the end) is not the sum of exactly the samples added to its waveform", site_text="sum_waveform: area += (samples added).sum(), per channel too", site={"function": f.qualname, "rule": "area is the integral of what was added"})
        from ..rules import on_every_iteration as _oei
    # _merge_peaks: scratch buffers cleared before the constituents are written
    mf = repo.func("_merge_peaks", MERGE)
    mo = [n for n in mf.node.body if isinstance(n, ast.For) and call_name(n.iter) == "enumerate"]
    if mo:
        inner = [n for n in mo[0].body if isinstance(n, ast.For) and isinstance(n.iter, ast.Name)]
        if inner:
            ii = mo[0].body.index(inner[0])
            writes = {norm(st.targets[0].value) for st in walk_body(inner[0]) if isinstance(st, ast.Assign) and isinstance(st.targets[0], ast.Subscript) and isinstance(st.targets[0].slice, ast.Slice) and isinstance(st.targets[0].value, ast.Name)}
            cleared = {norm(st.targets[0].value) for st in mo[0].body[:ii] if isinstance(st, ast.Assign) and isinstance(st.targets[0], ast.Subscript) and isinstance(st.targets[0].slice, ast.Slice) and norm(st.value) == "0"}
            chk.check(bool(writes) and writes <= cleared, R, mf, inner[0], f"scratch buffers {sorted(writes - cleared)} are written for a merged peak without having been cleared for it first: samples of an earlier merged peak show up in the gaps between the constituents", site_text="_merge_peaks: buffers cleared before every merged peak", site={"function": mf.qualname, "rule": "buffers cleared before use"})


WITNESSES = [
    W("first / last constituent taken before the mask", "C19.R2", MERGE,
      "old_peaks = peaks[sl]\n", "old_peaks = peaks[sl]\n        first_peak, last_peak = old_peaks[0], old_peaks[-1]\n"),
    W("left cursor resumes at the right cursor", "C19.R5", BUILD,
      "area_per_channel[ch] += area_pe\n            p[\"area\"] += area_pe\n", "area_per_channel[ch] += area_pe\n            p[\"area\"] += area_pe\n\n        left_h_i = right_h_i\n"),
    W("area taken from the whole hit, waveform from the overlap", "C19.R5", BUILD,
      "area_pe = hit_data.sum()", "area_pe = hit_waveform.sum() * adc_to_pe[ch]"),
    W("waveform buffer not cleared per peak", "C19.R5", BUILD,
      "swv_buffer[: min(2 * p_length, len(swv_buffer))] = 0\n", "pass\n"),
    W("merge buffers cleared after use", "C19.R5", MERGE,
      "buffer[:bl] = 0\n        buffer_top[:bl] = 0\n", "pass\n"),
    W("per-channel areas reset only when a peak is saved", "C19.R1", BUILD,
      "# This hit starts a new peak candidate\n            area_per_channel *= 0\n", "# This hit starts a new peak candidate\n"),
    W("hits counted only when they continue a peak", "C19.R1", BUILD,
      "in_peak = True\n            p[\"max_gap\"] = 0\n\n        # Add hit's properties to the current peak candidate\n\n        # NB! One pulse can result in two hits, if it occours at the\n        # boundary of a record. This is the default of strax.find_hits.\n        p[\"n_hits\"] += 1",
      "in_peak = True\n            p[\"max_gap\"] = 0\n            continue\n\n        p[\"n_hits\"] += 1"),
    W("area of a rejected candidate leaks into the next peak", "C19.R1", BUILD,
      "p[\"n_hits\"] = 0\n            p[\"area\"] = 0\n            in_peak = True", "p[\"n_hits\"] = 0\n            in_peak = True"),
    W("peak end follows the last hit instead of the latest end", "C19.R1", BUILD,
      "peak_endtime = max(peak_endtime, t1)", "peak_endtime = t1"),
    W("gap of exactly gap_threshold does not close the peak", "C19.R1", BUILD,
      "next_hit_is_far = next_hit[\"time\"] - peak_endtime >= gap_threshold", "next_hit_is_far = next_hit[\"time\"] - peak_endtime > gap_threshold"),
    W("right extension subtracted", "C19.R1", BUILD,
      "p[\"length\"] = (peak_endtime - p[\"time\"] + right_extension) / dt", "p[\"length\"] = (peak_endtime - p[\"time\"] - right_extension) / dt"),
    W("left extension added", "C19.R1", BUILD,
      "p[\"time\"] = t0 - left_extension", "p[\"time\"] = t0 + left_extension"),
    W("merged area is the area of the last constituent", "C19.R2", MERGE,
      "new_p[\"area\"] += p[\"area\"]", "new_p[\"area\"] = p[\"area\"]"),
    W("saturated constituents do not add their area", "C19.R2", MERGE,
      "# Handle the other peak attributes\n            new_p[\"area\"] += p[\"area\"]", "# Handle the other peak attributes\n            if p[\"n_saturated_channels\"]:\n                continue\n            new_p[\"area\"] += p[\"area\"]"),
    W("hit count of the first constituent only", "C19.R2", MERGE,
      "new_p[\"n_hits\"] += p[\"n_hits\"]", "if new_p[\"n_hits\"] == 0:\n                new_p[\"n_hits\"] += p[\"n_hits\"]"),
    W("merged peak ends with the first constituent", "C19.R2", MERGE,
      "new_p[\"length\"] = (strax.endtime(last_peak) - new_p[\"time\"]) // common_dt", "new_p[\"length\"] = (strax.endtime(first_peak) - new_p[\"time\"]) // common_dt"),
    W("merged peak starts at the last constituent", "C19.R2", MERGE,
      "new_p[\"time\"] = first_peak[\"time\"]", "new_p[\"time\"] = last_peak[\"time\"]"),
    W("fragments all start at the parent start", "C19.R3", SPLIT,
      "r[\"time\"] = p[\"time\"] + prev_split_i * p[\"dt\"]", "r[\"time\"] = p[\"time\"]"),
    W("cursor not advanced", "C19.R3", SPLIT,
      "offset = 0\n\n                prev_split_i = split_i", "offset = 0\n"),
    W("cursor kept across parents", "C19.R3", SPLIT,
      "prev_split_i = 0\n            w = p[\"data\"][: p[\"length\"]]", "w = p[\"data\"][: p[\"length\"]]"),
    W("split parents kept next to their fragments", "C19.R3", SPLIT,
      "peaks = strax.sort_by_time(np.concatenate([peaks[~is_split], new_peaks]))", "peaks = strax.sort_by_time(np.concatenate([peaks, new_peaks]))"),
    W("result not re-sorted after splitting", "C19.R3", SPLIT,
      "peaks = strax.sort_by_time(np.concatenate([peaks[~is_split], new_peaks]))", "peaks = np.concatenate([peaks[~is_split], new_peaks])"),
    W("merged peak inserted without advancing the window", "C19.R4", MERGE,
      "result[result_i] = merge[window_i]\n            result_i += 1\n\n            window_i += 1\n            if window_i == len(skip_windows):", "result[result_i] = merge[window_i]\n            result_i += 1\n\n            if window_i == len(skip_windows):"),
    W("conservation assert removed", "C19.R4", MERGE,
      "assert result_i == len(result)\n    assert window_i == len(skip_windows)", "assert window_i == len(skip_windows)"),
    W("peaks inside a merge window copied as well", "C19.R4", MERGE,
      "if orig_i >= skip_start:\n            n_skipped += 1\n            continue", "if orig_i >= skip_start:\n            n_skipped += 1"),
]
