"""C01 - results do not depend on chunking, processor, parallelism or what is stored.

Decided statically (necessary conditions only): a chunk handed out by the pipeline is never
modified in place by a consumer while other subscribers (savers, sibling plugins) hold it;
plugins that keep state across chunks are never run in parallel; every data type has a single
producer in both processors; the continuity guard wraps what the user receives.
Not decided: row-for-row equality of results across chunkings, processors and schedules.
"""

import ast

from ..cfg import cfg_of, literals
from ..dataflow import Defs, calls_in, stmt_of
from ..index import AnalysisError, call_name, dotted, enclosing, head, norm, walk_body
from ..rules import COMPOUND, kw, node_calls, own_calls, prov_at, reaching
from ..witness import W
from . import c11, c12

CONTEXT = "strax/context.py"
PLUGIN = "strax/plugins/plugin.py"
FILES = "strax/storage/files.py"
THREADED = "strax/processors/threaded_mailbox.py"
SINGLE = "strax/processors/single_thread.py"
OVERLAP = "strax/plugins/overlap_window_plugin.py"
DOWN = "strax/plugins/down_chunking_plugin.py"

EXPLANATION = (
    "R1 ownership: every attribute store / delete on a chunk-like object (fields of strax.Chunk on a "
    "receiver that is not self and not a plugin) in the package must be one of the reviewed "
    "exclusive-ownership sites; in get_iter the edited object must be a copy made in the loop. "
    "R2 effect summary: a Plugin subclass whose do_compute (or anything it calls on self) stores "
    "to self must resolve `parallel` to False through its MRO; only do_compute is ever submitted to "
    "an executor and only under the parallel flag. R3 single producer per data type in both "
    "processors (shared with C11.R6). R4 the user-facing iterator is wrapped in continuity_check "
    "(shared with C12.R5)."
)
RULE_TEXT = "one obligation per (rule, site): attribute store on a chunk-like object, plugin class with cross-chunk state, executor submission, fan-out argument, iterator wrapper"
ASSUMPTIONS = ["an object is recognised as chunk-like by a store to an attribute that only strax.Chunk has (data, start, end, data_type, subruns, superrun, target_size_mb)"]

# fields that only strax.Chunk has (dtype / data_kind / run_id also exist on plugins and are therefore
# not used to recognise a chunk by the attribute stored to)
CHUNK_FIELDS = {"data", "start", "end", "data_type", "subruns", "superrun", "target_size_mb", "_subruns", "_superrun"}
NOT_CHUNKS = {"self", "cls"}

# function -> reason why it owns the object exclusively
OWNERS = {
    "Context.copy_to_frontend.wrapped_loader": "chunk just read from a loader this function created; nobody else subscribes to it",
    "Context.merge_per_chunk_storage.wrapped_loader": "chunk just read from a loader this function created; nobody else subscribes to it",
    "FileSytemBackend._read_and_format_chunk": "chunk constructed by the call one line above, not yet returned",
    "Plugin._update_superrun": "annotates the result the plugin has just computed, before it is published",
    "Plugin._update_subruns": "annotates the result the plugin has just computed, before it is published",
    "Plugin.do_compute": "frees the input after compute under clean_chunk_after_compute, guarded by a reference-count check",
    "Context.get_iter": "edits a shallow copy made inside the loop (checked)",
}


def run(chk):
    repo = chk.repo
    r1_chunk_ownership(chk, repo)
    r2_stateful_sequential(chk, repo)
    c11.single_producer(chk, repo, rule="C01.R3")
    c12.r5_continuity(chk, repo, rule="C01.R4")
    r5_post_office(chk, repo)


# ------------------------------------------------------------------------------------ R1
def r1_chunk_ownership(chk, repo):
    chk.describe("C01.R1", "a chunk that other subscribers may hold is never modified in place: stores on chunk-like objects only at reviewed exclusive-ownership sites")
    n = 0
    for m in repo.modules.values():
        if m.relpath.startswith("strax/processing/") or m.relpath == "strax/chunk.py":
            continue
        for f in m.functions.values():
            for node in walk_body(f.node):
                tg = []
                if isinstance(node, ast.Assign):
                    tg = node.targets
                elif isinstance(node, ast.AugAssign):
                    tg = [node.target]
                elif isinstance(node, ast.Delete):
                    tg = node.targets
                for t in tg:
                    for x in (t.elts if isinstance(t, (ast.Tuple, ast.List)) else [t]):
                        if not (isinstance(x, ast.Attribute) and x.attr in CHUNK_FIELDS):
                            continue
                        base = x.value
                        root = base
                        while isinstance(root, (ast.Subscript, ast.Attribute)):
                            root = root.value
                        if isinstance(root, ast.Name) and root.id in NOT_CHUNKS:
                            continue
                        n += 1
                        site = {"function": f.qualname, "construct": head(node, 120)}
                        if f.qualname not in OWNERS:
                            chk.fail("C01.R1", f, node, f"`{norm(x)}` is modified in place on an object that may be the chunk shared with savers / other subscribers; what is stored or handed to siblings then depends on processor and timing", site=site)
                            continue
                        ok, why = _owner_condition(repo, f, node, x)
                        chk.check(ok, "C01.R1", f, node, f"reviewed in-place edit no longer satisfies its ownership condition: {why}",
                                  site_text=f"{f.qualname}: `{head(node, 50)}` ({OWNERS[f.qualname]})", site=site)
    chk.floor("C01.R1", "attribute stores on chunk-like objects", n, 8)


def _owner_condition(repo, f, st, target):
    q = f.qualname
    if q == "Context.get_iter":
        base = target.value
        if not isinstance(base, ast.Name):
            return False, "edited object is not a local"
        r = reaching(f)
        cfg = cfg_of(f)
        for node in cfg.nodes_of(st):
            ds = r.defs_of(node, base.id)
            if not ds:
                return False, "no definition reaches"
            for d in ds:
                v = d[1]
                if not (d[3] == "assign" and isinstance(v, ast.Call) and (call_name(v) or "").split(".")[-1] in ("copy",) and v.args and norm(v.args[0]) == base.id):
                    return False, f"`{base.id}` may still be the object received from the processor (definition `{head(d[2], 50)}` reaches)"
        return True, ""
    if q.endswith("wrapped_loader"):
        base = target.value
        d = Defs(f.node)
        vals = [v for v, s, how in d.defs.get(base.id, []) if v is not None] if isinstance(base, ast.Name) else []
        if vals and all(isinstance(v, ast.Call) and call_name(v) == "next" and v.args and isinstance(v.args[0], ast.Name) for v in vals):
            # the iterator is created from a backend loader in the enclosing function / this function
            lname = vals[0].args[0].id
            scope = [f] + ([f.parent_func] if f.parent_func else [])
            for g in scope:
                dd = Defs(g.node)
                lv = [v for v, s, how in dd.defs.get(lname, []) if v is not None]
                if lv and all(isinstance(v, ast.Call) and (call_name(v) or "").endswith(".loader") for v in lv):
                    return True, ""
            return False, "loader is not created here"
        return False, "edited object does not come from next(loader)"
    if q == "FileSytemBackend._read_and_format_chunk":
        base = target.value
        d = Defs(f.node)
        v = d.single(base.id) if isinstance(base, ast.Name) else None
        return (v is not None and "super()._read_and_format_chunk" in norm(v)), "edited object is not the chunk just built by the base class"
    if q in ("Plugin._update_superrun", "Plugin._update_subruns"):
        # only called from superrun_transformation with the plugin's own result
        callers = set()
        for m in repo.modules.values():
            for g in m.functions.values():
                for c in calls_in(g.node):
                    if (call_name(c) or "").split(".")[-1] == f.name:
                        callers.add(g.qualname)
        return callers <= {"Plugin.superrun_transformation"}, f"called from {sorted(callers)}"
    if q == "Plugin.do_compute":
        cfg = cfg_of(f)
        facts = set()
        for node in cfg.nodes_of(st):
            facts |= cfg.guard_facts(node)
        from ..pattern import facts_matching, find
        ok = ("self.clean_chunk_after_compute", True) in facts
        rc = False
        for node in cfg.nodes_of(st):
            for e, pol, g, b in facts_matching(cfg, node, "L_n != 1", False):
                if find(f.node, f"{b['L_n']} = sys.getrefcount(E_x.data) - 1"):
                    rc = True
        ok = ok and rc
        return ok, "not under clean_chunk_after_compute with the reference-count check"
    return False, "no condition defined"


# ------------------------------------------------------------------------------------ R2
def _self_stores(repo, cls, func, depth=4, seen=None):
    """self attributes stored by func or by methods it calls on self (resolved through cls' MRO)."""
    seen = seen if seen is not None else set()
    if func in seen or depth < 0:
        return {}
    seen.add(func)
    out = {}
    for n in walk_body(func.node):
        tg = []
        if isinstance(n, ast.Assign):
            tg = n.targets
        elif isinstance(n, ast.AugAssign):
            tg = [n.target]
        for t in tg:
            for x in (t.elts if isinstance(t, (ast.Tuple, ast.List)) else [t]):
                root = x
                while isinstance(root, ast.Subscript):
                    root = root.value
                if isinstance(root, ast.Attribute) and dotted(root.value) == "self":
                    out.setdefault(root.attr, f"{func.qualname}: {head(n, 50)}")
        if isinstance(n, ast.Call) and isinstance(n.func, ast.Attribute):
            recv = dotted(n.func.value)
            if recv == "self":
                g = repo.resolve_method(cls, n.func.attr)
                if g is not None:
                    for k, v in _self_stores(repo, cls, g, depth - 1, seen).items():
                        out.setdefault(k, v)
                # argument aliases of self attributes mutated by the callee: cache_beyond(x, y, self.cached)
            elif recv == "super()":
                for c in repo.mro(func.cls)[1:] if func.cls else []:
                    if n.func.attr in c.methods:
                        for k, v in _self_stores(repo, cls, c.methods[n.func.attr], depth - 1, seen).items():
                            out.setdefault(k, v)
                        break
            # a self attribute passed as an argument and mutated in the callee counts as state too
            for a in n.args:
                if isinstance(a, ast.Attribute) and dotted(a.value) == "self" and recv == "self":
                    g = repo.resolve_method(cls, n.func.attr)
                    if g is not None:
                        idx = n.args.index(a)
                        params = [p for p in g.params if p != "self"]
                        if idx < len(params):
                            pname = params[idx]
                            for s in walk_body(g.node):
                                if isinstance(s, ast.Assign) and any(isinstance(t, ast.Subscript) and norm(t.value) == pname for t in s.targets):
                                    out.setdefault(a.attr, f"{g.qualname}: {head(s, 50)} (via argument)")
    return out


def r2_stateful_sequential(chk, repo):
    chk.describe("C01.R2", "plugins whose per-chunk computation keeps state on self are never parallelised; only do_compute is submitted to an executor, and only under the plugin's parallel flag")
    pl = repo.cls("Plugin")
    n_cls = 0
    for c in repo.subclasses(pl):
        if not c.module.relpath.startswith("strax/plugins/"):
            continue
        dc = repo.resolve_method(c, "do_compute")
        if dc is None:
            continue
        n_cls += 1
        state = _self_stores(repo, c, dc)
        ic = repo.resolve_method(c, "_iter_compute")
        gen = False
        fo = repo.resolve_method(c, "_fix_output")
        if fo is not None and any(isinstance(x, (ast.Yield, ast.YieldFrom)) for x in walk_body(fo.node)):
            gen = True
        owner, val = repo.class_attr(c, "parallel")
        is_false = isinstance(val, ast.Constant) and val.value is False
        if state or gen:
            why = f"keeps state across chunks ({', '.join(sorted(state))})" if state else "returns a generator from do_compute"
            chk.check(is_false, "C01.R2", c.name, None,
                      f"{c.name} {why} but `parallel` resolves to {norm(val) if val is not None else None} (from {owner.name if owner else None}): chunks would be computed concurrently / out of order on shared state",
                      site_text=f"{c.name}: {why} -> parallel = False", site={"class": c.name, "what": "parallel"})
        else:
            chk.ok("C01.R2", f"{c.name}: do_compute stores nothing on self", nontrivial=False)
    chk.floor("C01.R2", "plugin classes inspected", n_cls, 8)
    ow = repo.cls("OverlapWindowPlugin")
    chk.check(bool(_self_stores(repo, ow, repo.resolve_method(ow, "do_compute"))), "C01.R2", "OverlapWindowPlugin", None, "effect summary no longer sees the cross-chunk state of OverlapWindowPlugin (analysis anchor)", site_text="OverlapWindowPlugin: cached_input / cached_results / sent_until detected", nontrivial=False)
    # submission sites
    it = repo.func("Plugin.iter", PLUGIN)
    cfg = cfg_of(it)
    subs = [n for n in cfg.stmt_nodes() if not isinstance(n.stmt, COMPOUND) and node_calls(n, lambda c, nm: nm.endswith(".submit"))]
    chk.floor("C01.R2", "executor submissions in Plugin.iter", len(subs), 1)
    for s in subs:
        c = [c for c in own_calls(s.stmt) if (call_name(c) or "").endswith(".submit")][0]
        chk.check(c.args and norm(c.args[0]) == "self.do_compute", "C01.R2", it, s.stmt, "something other than do_compute is handed to the executor", site_text="Plugin.iter: submit(self.do_compute, ...)")
        facts = cfg.guard_facts(s)
        chk.check(("self.parallel", True) in facts and ("executor is not None", True) in facts, "C01.R2", it, s.stmt, "computation is submitted to an executor although the plugin is not declared parallel", site_text="Plugin.iter: submit only if self.parallel and executor is not None")
    for m in repo.modules.values():
        if not m.relpath.startswith("strax/plugins/"):
            continue
        for f in m.functions.values():
            if f is it:
                continue
            for c in calls_in(f.node):
                if (call_name(c) or "").endswith(".submit"):
                    chk.fail("C01.R2", f, stmt_of(c), "plugin code submits work to an executor outside Plugin.iter")
    tp = repo.func("ThreadedMailboxProcessor.__init__", THREADED)
    tcfg = cfg_of(tp)
    exn = {norm(kw(c, "executor")) for c in calls_in(tp.node) if isinstance(c.func, ast.Attribute) and c.func.attr == "iter" and isinstance(kw(c, "executor"), ast.Name)}
    ex_assign = [n for n in tcfg.stmt_nodes() if isinstance(n.stmt, ast.Assign) and any(norm(t) in exn for t in n.stmt.targets) and not (isinstance(n.stmt.value, ast.Constant) and n.stmt.value.value is None)]
    chk.floor("C01.R2", "executor selections in the threaded processor", len(ex_assign), 2)
    for n in ex_assign:
        facts = tcfg.guard_facts(n)
        from ..pattern import has_fact
        chk.check(has_fact(tcfg, n, "L_p.parallel", True) or has_fact(tcfg, n, "L_p.parallel == 'process'", True), "C01.R2", tp, n.stmt, "a plugin gets an executor without its parallel flag being set", site_text="ThreadedMailboxProcessor: executor only for parallel plugins")
    oi = repo.func("OverlapWindowPlugin.__init__", OVERLAP)
    ocfg = cfg_of(oi)
    chk.check(any(isinstance(n.stmt, ast.Raise) and ("self.clean_chunk_after_compute", True) in ocfg.guard_facts(n) for n in ocfg.stmt_nodes()), "C01.R2", oi, None, "OverlapWindowPlugin accepts clean_chunk_after_compute although it caches its inputs", site_text="OverlapWindowPlugin.__init__: rejects clean_chunk_after_compute")
    di = repo.func("DownChunkingPlugin.__init__", DOWN)
    dcfg = cfg_of(di)
    chk.check(any(isinstance(n.stmt, ast.Raise) and ("self.parallel", True) in dcfg.guard_facts(n) for n in dcfg.stmt_nodes()), "C01.R2", di, None, "DownChunkingPlugin accepts parallel=True in a subclass", site_text="DownChunkingPlugin.__init__: rejects parallel")

# ------------------------------------------------------------------------------------ R5
POST = "strax/processors/post_office.py"


def r5_post_office(chk, repo):
    from ..dtable import run as drun
    from ..pattern import find as pfind, pmatch
    from ..rules import on_every_iteration
    chk.describe("C01.R5", "the single-thread processor's post office delivers like the mailbox: messages are numbered from 0 in production order, a reader takes message <cursor> from the cache (searching all of it) or fetches it, acknowledges, yields, advances by one, and stops only when the topic is exhausted and the cursor is beyond the last message; every produced message reaches every spy")
    R = "C01.R5"
    rd = repo.func("PostOffice._read", POST)
    cfg = cfg_of(rd)
    TOPIC = rd.params[1]
    loops = [n for n in rd.node.body if isinstance(n, ast.While) and isinstance(n.test, ast.Call) and call_name(n.test) == "self._message_may_come"]
    chk.need(len(loops) == 1 and len(loops[0].test.args) == 2 and isinstance(loops[0].test.args[1], ast.Name), "C01.R5: read loop `while self._message_may_come(topic, <cursor>)` not found")
    lp = loops[0]
    CUR = lp.test.args[1].id
    inits = [st for st in rd.node.body if isinstance(st, ast.Assign) and norm(st.targets[0]) == CUR]
    reg = repo.func("PostOffice._register_topic", POST)
    gi = repo.func("PostOffice.get_iter", POST)
    p0 = [st for st in walk_body(reg.node) if isinstance(st, ast.Assign) and norm(st.targets[0]).startswith("self._last_msg_produced[")]
    r0 = [st for st in walk_body(gi.node) if isinstance(st, ast.Assign) and norm(st.targets[0]).startswith("self._last_msg_read[")]
    chk.check(len(inits) == 1 and norm(inits[0].value) == "0" and len(p0) == 1 and norm(p0[0].value) == "-1" and len(r0) == 1 and norm(r0[0].value) == "-1", R, rd, inits[0] if inits else None,
              "numbering bases disagree: the cursor must start at 0 while `last produced` and `last read` start at -1 (first message is number 0)", site_text="PostOffice: cursor 0, last produced -1, last read -1")
    incs = [st for st in walk_body(lp) if isinstance(st, ast.AugAssign) and norm(st.target) == CUR]
    chk.check(len(incs) == 1 and isinstance(incs[0].op, ast.Add) and norm(incs[0].value) == "1" and on_every_iteration(cfg, lp, incs), R, rd, lp, "the cursor does not advance by exactly one on every round of the read loop", site_text="PostOffice._read: cursor += 1 per delivered message")
    # cache lookup searches the whole cache for the cursor, else fetches
    look = [st for st in lp.body if isinstance(st, ast.For) and norm(st.iter) == f"self._saved_mail[{TOPIC}]" and isinstance(st.target, ast.Tuple) and len(st.target.elts) == 2]
    okl = False
    RES = None
    if len(look) == 1:
        NUM, RES = norm(look[0].target.elts[0]), norm(look[0].target.elts[1])
        hit = [x for x in look[0].body if isinstance(x, ast.If) and pmatch(f"{NUM} == {CUR}", x.test) is not None and len(x.body) == 1 and isinstance(x.body[0], ast.Break)]
        fetch = [x for x in ast.walk(ast.Module(body=look[0].orelse, type_ignores=[])) if isinstance(x, ast.Assign) and norm(x.targets[0]) == RES and isinstance(x.value, ast.Call) and call_name(x.value) == "self._fetch_new" and norm(x.value.args[0]) == TOPIC]
        okl = len(hit) == 1 and len(look[0].body) == 1 and len(fetch) == 1
    chk.check(okl, R, rd, look[0] if look else lp, "the reader does not search the whole cache for message <cursor> and fetch a new message only when it is not there: with three readers at different paces the middle one would skip or repeat messages", site_text="PostOffice._read: for (n, msg) in saved: if n == cursor: break; else: fetch", site={"function": rd.qualname, "rule": "cache lookup by number"})
    ys = [n for n in cfg.stmt_nodes() if isinstance(n.stmt, ast.Expr) and isinstance(n.stmt.value, ast.Yield)]
    acks = [n for n in cfg.stmt_nodes() if not isinstance(n.stmt, COMPOUND) and node_calls(n, lambda c, nm: nm == "self._ack_reader_recieved" and len(c.args) == 3 and norm(c.args[2]) == CUR and norm(c.args[1]) == TOPIC)]
    dom = cfg.dominators("n")
    chk.check(len(ys) == 1 and len(acks) == 1 and acks[0] in dom[ys[0]] and on_every_iteration(cfg, lp, [y.stmt for y in ys]), R, rd, ys[0].stmt if ys else lp, "a message is not acknowledged (under its number) before it is yielded, once per round", site_text="PostOffice._read: ack(reader, topic, cursor) then yield")
    if ys and RES:
        r = reaching(rd)
        yv = ys[0].stmt.value.value
        src = set()
        for x in ast.walk(yv):
            if isinstance(x, ast.Name):
                for d in r.defs_of(ys[0], x.id):
                    if d[1] is not None:
                        src.add(norm(d[1]))
        chk.check(any(RES in t for t in src) or norm(yv) == RES, R, rd, ys[0].stmt, "what is yielded is not the message found / fetched for the cursor", site_text="PostOffice._read: yields the looked-up message")
    for b in [n for n in cfg.stmt_nodes() if isinstance(n.stmt, (ast.Break, ast.Return)) and enclosing(n.stmt, (ast.While,)) is lp and enclosing(n.stmt, (ast.For,)) is None]:
        h = enclosing(b.stmt, (ast.ExceptHandler,))
        chk.check(h is not None and h.type is not None and "StopIteration" in norm(h.type), R, rd, b.stmt, "the read loop is left although the producer is not exhausted", site_text="PostOffice._read: loop left only on StopIteration of the producer")
    # _message_may_come: decision table
    mc = repo.func("PostOffice._message_may_come", POST)
    T, M = mc.params[1], mc.params[2]
    bad = []
    for exhausted in (True, False):
        for order in ("lt", "eq", "gt"):
            def oracle(text, node, exhausted=exhausted, order=order):
                if isinstance(node, ast.Compare) and len(node.ops) == 1:
                    l, r_, op = norm(node.left), norm(node.comparators[0]), node.ops[0]
                    if r_ == "self._exhausted_topics" and l == T:
                        return exhausted if isinstance(op, ast.In) else (not exhausted) if isinstance(op, ast.NotIn) else None
                    last = f"self._last_msg_produced[{T}]"
                    if {l, r_} == {M, last}:
                        o = order if l == M else {"lt": "gt", "gt": "lt", "eq": "eq"}[order]
                        return {ast.Lt: o == "lt", ast.LtE: o in ("lt", "eq"), ast.Gt: o == "gt", ast.GtE: o in ("gt", "eq"), ast.Eq: o == "eq", ast.NotEq: o != "eq"}.get(type(op))
                return None
            try:
                kind, val = drun(mc.node, oracle)
            except AnalysisError as e:
                kind, val = "unknown", str(e)
            want = (not exhausted) or order != "gt"
            if kind != "return" or val is not want:
                bad.append((exhausted, order, kind, val, want))
    chk.check(not bad, R, mc, None, "a message may come exactly unless the topic is exhausted and the number lies beyond the last produced message" + (f"; for exhausted={bad[0][0]}, number {bad[0][1]} last: code gives {bad[0][3]!r}, specification {bad[0][4]}" if bad else ""),
              site_text="PostOffice._message_may_come: decision table (2 x 3 cases)", site={"function": mc.qualname, "rule": "decision table"})
    chk.exhaustive = True
    # production: numbered consecutively, saved under the number, every spy receives it
    ap = repo.func("PostOffice._ack_msg_produced", POST)
    acfg = cfg_of(ap)
    MSG, TP = ap.params[1], ap.params[2]
    inc = [st for st in ap.node.body if isinstance(st, ast.AugAssign) and norm(st.target) == f"self._last_msg_produced[{TP}]" and isinstance(st.op, ast.Add) and norm(st.value) == "1"]
    chk.check(len(inc) == 1, R, ap, None, "a produced message does not advance the topic's message number by exactly one (unconditionally)", site_text="PostOffice._ack_msg_produced: last produced += 1")
    sv = [c for c in calls_in(ap.node) if norm(c.func) == f"self._saved_mail[{TP}].append"]
    chk.check(len(sv) == 1 and norm(sv[0].args[0]) == f"(self._last_msg_produced[{TP}], {MSG})" and bool(inc) and stmt_of(sv[0]).lineno > inc[0].lineno, R, ap, stmt_of(sv[0]) if sv else None, "the message is not saved under its own (already advanced) number", site_text="PostOffice._ack_msg_produced: saved as (last produced, msg)")
    sp = [st for st in ap.node.body if isinstance(st, ast.For) and norm(st.iter) == f"self._spies[{TP}]" and any(isinstance(x, ast.Expr) and isinstance(x.value, ast.Call) and norm(x.value.func) == f"{norm(st.target)}.receive" and norm(x.value.args[0]) == MSG for x in st.body)]
    chk.check(len(sp) == 1, R, ap, None, "not every spy (saver) of the topic receives every produced message", site_text="PostOffice._ack_msg_produced: every spy receives the message")
    ar = repo.func("PostOffice._ack_reader_recieved", POST)
    keep = [n for n in walk_body(ar.node) if isinstance(n, ast.ListComp) and any(isinstance(g.iter, ast.Subscript) and norm(g.iter.value) == "self._saved_mail" for g in n.generators)]
    okk = False
    if len(keep) == 1 and len(keep[0].generators[0].ifs) == 1:
        cond = keep[0].generators[0].ifs[0]
        tgt = keep[0].generators[0].target
        if isinstance(tgt, ast.Tuple):
            b = pmatch(f"L_e < {norm(tgt.elts[0])}", cond)
            if b:
                d = [st for st in walk_body(ar.node) if isinstance(st, ast.Assign) and norm(st.targets[0]) == b["L_e"]]
                okk = bool(d) and norm(d[0].value).startswith("min(self._last_msg_read[")
    chk.check(okk, R, ar, None, "messages are dropped from the cache although some reader has not received them yet (keep: number > min over readers)", site_text="PostOffice._ack_reader_recieved: keep messages newer than the slowest reader")
    st_ = [st for st in walk_body(ar.node) if isinstance(st, ast.Assign) and norm(st.targets[0]).startswith("self._last_msg_read[")]
    chk.check(len(st_) == 1 and norm(st_[0].value) == ar.params[3], R, ar, None, "the reader's progress is not recorded as the acknowledged number", site_text="PostOffice._ack_reader_recieved: last read = msg_number")


WITNESSES = [
    W("reader stops one message early", "C01.R5", POST,
      "return not (topic in self._exhausted_topics and msg_number > self._last_msg_produced[topic])", "return not (topic in self._exhausted_topics and msg_number >= self._last_msg_produced[topic])"),
    W("cache lookup looks at the first entry only", "C01.R5", POST,
      "for _msg_i, result in self._saved_mail[topic]:\n                if _msg_i == msg_number:\n                    break\n            else:",
      "saved = self._saved_mail[topic]\n            if saved and saved[0][0] == msg_number:\n                result = saved[0][1]\n            else:"),
    W("cache trimmed up to the fastest reader", "C01.R5", POST,
      "everyone_got = min(self._last_msg_read[topic].values())", "everyone_got = max(self._last_msg_read[topic].values())"),
    W("spies see only messages somebody reads", "C01.R5", POST,
      "self._saved_mail[topic].append((self._last_msg_produced[topic], msg))\n\n        # Deliver the message to the spies (savers/monitors)\n        for spy in self._spies[topic]:\n            spy.receive(msg)",
      "self._saved_mail[topic].append((self._last_msg_produced[topic], msg))\n\n            # Deliver the message to the spies (savers/monitors)\n            for spy in self._spies[topic]:\n                spy.receive(msg)"),
    W("post office cursor starts at 1", "C01.R5", POST,
      "msg_number = 0\n        while self._message_may_come(topic, msg_number):", "msg_number = 1\n        while self._message_may_come(topic, msg_number):"),
    W("edit the shared chunk in get_iter (the original defect)", "C01.R1", CONTEXT,
      "# Do not modify the chunk in place: savers may still hold it\n                    result = copy(result)\n", ""),
    W("SaverSpy edits the chunk it receives", "C01.R1", SINGLE,
      "def receive(self, chunk):\n        self._save_chunk(self.rechunker.receive(chunk))",
      "def receive(self, chunk):\n        chunk.data = chunk.data.copy()\n        self._save_chunk(self.rechunker.receive(chunk))"),
    W("plugin trims its input chunk in place", "C01.R1", PLUGIN,
      "_kwargs = {k: v.data for k, v in kwargs.items()}", "for v in kwargs.values():\n            v.end = int(v.end)\n        _kwargs = {k: v.data for k, v in kwargs.items()}"),
    W("free inputs without the refcount check", "C01.R1", PLUGIN,
      "if n != 1:\n                    raise ValueError(\n                        f\"Reference count of input {k} is {n} \"\n                        \"and should be 1. This is a memory leak.\"\n                    )\n", ""),
    W("OverlapWindowPlugin parallel", "C01.R2", OVERLAP,
      "parallel = False\n    max_trials = 10", "parallel = \"process\"\n    max_trials = 10"),
    W("DownChunkingPlugin parallel", "C01.R2", DOWN,
      "parallel = False\n\n    def __init__(self):", "parallel = True\n\n    def __init__(self):"),
    W("stateful LoopPlugin-style cache on a parallel plugin", "C01.R2", "strax/plugins/cut_plugin.py",
      "class CutPlugin(Plugin):", "class CutPlugin(Plugin):\n    parallel = True\n\n    def do_compute(self, chunk_i=None, **kwargs):\n        self.last_chunk_i = chunk_i\n        return super().do_compute(chunk_i=chunk_i, **kwargs)\n"),
    W("submit regardless of the parallel flag", "C01.R2", PLUGIN,
      "if self.parallel and executor is not None:", "if executor is not None:"),
    W("threaded fan-out includes loader-fed outputs", "C01.R3", THREADED,
      "outputs = tuple(k for k in p.provides if k not in components.loaders)", "outputs = tuple(p.provides)"),
    W("single-thread filter dropped", "C01.R3", SINGLE,
      "registered=tuple(components.loaders),", ""),
    W("get_iter iterates the generator directly", "C01.R4", CONTEXT,
      "for n_chunks, result in enumerate(strax.continuity_check(generator), 1):", "for n_chunks, result in enumerate(generator, 1):"),
]
