"""C01 - results do not depend on chunking, processor, parallelism or what is stored.

Decided statically (necessary conditions only): a chunk handed out by the pipeline is never
modified in place by a consumer while other subscribers (savers, sibling plugins) hold it;
plugins that keep state across chunks are never run in parallel; every data type has a single
producer in both processors; the continuity guard wraps what the user receives.
Not decided: row-for-row equality of results across chunkings, processors and schedules.
"""

import ast

from ..cfg import cfg_of, literals
from ..dataflow import Defs, calls_in, stmt_of
from ..index import AnalysisError, call_name, dotted, enclosing, head, norm, walk_body
from ..rules import COMPOUND, kw, node_calls, own_calls, prov_at, reaching
from ..witness import W
from . import c11, c12

CONTEXT = "strax/context.py"
PLUGIN = "strax/plugins/plugin.py"
FILES = "strax/storage/files.py"
THREADED = "strax/processors/threaded_mailbox.py"
SINGLE = "strax/processors/single_thread.py"
OVERLAP = "strax/plugins/overlap_window_plugin.py"
DOWN = "strax/plugins/down_chunking_plugin.py"

EXPLANATION = (
    "R1 ownership: every attribute store / delete on a chunk-like object (fields of strax.Chunk on a "
    "receiver that is not self and not a plugin) in the package must be one of the reviewed "
    "exclusive-ownership sites; in get_iter the edited object must be a copy made in the loop. "
    "R2 effect summary: a Plugin subclass whose do_compute (or anything it calls on self) stores "
    "to self must resolve `parallel` to False through its MRO; only do_compute is ever submitted to "
    "an executor and only under the parallel flag. R3 single producer per data type in both "
    "processors (shared with C11.R6). R4 the user-facing iterator is wrapped in continuity_check "
    "(shared with C12.R5)."
)
RULE_TEXT = "one obligation per (rule, site): attribute store on a chunk-like object, plugin class with cross-chunk state, executor submission, fan-out argument, iterator wrapper"
ASSUMPTIONS = ["an object is recognised as chunk-like by a store to an attribute that only strax.Chunk has (data, start, end, data_type, subruns, superrun, target_size_mb)"]

# fields that only strax.Chunk has (dtype / data_kind / run_id also exist on plugins and are therefore
# not used to recognise a chunk by the attribute stored to)
CHUNK_FIELDS = {"data", "start", "end", "data_type", "subruns", "superrun", "target_size_mb", "_subruns", "_superrun"}
NOT_CHUNKS = {"self", "cls"}

# function -> reason why it owns the object exclusively
OWNERS = {
    "Context.copy_to_frontend.wrapped_loader": "chunk just read from a loader this function created; nobody else subscribes to it",
    "Context.merge_per_chunk_storage.wrapped_loader": "chunk just read from a loader this function created; nobody else subscribes to it",
    "FileSytemBackend._read_and_format_chunk": "chunk constructed by the call one line above, not yet returned",
    "Plugin._update_superrun": "annotates the result the plugin has just computed, before it is published",
    "Plugin._update_subruns": "annotates the result the plugin has just computed, before it is published",
    "Plugin.do_compute": "frees the input after compute under clean_chunk_after_compute, guarded by a reference-count check",
    "Context.get_iter": "edits a shallow copy made inside the loop (checked)",
}


def run(chk):
    repo = chk.repo
    r1_chunk_ownership(chk, repo)
    r2_stateful_sequential(chk, repo)
    c11.single_producer(chk, repo, rule="C01.R3")
    c12.r5_continuity(chk, repo, rule="C01.R4")


# ------------------------------------------------------------------------------------ R1
def r1_chunk_ownership(chk, repo):
    chk.describe("C01.R1", "a chunk that other subscribers may hold is never modified in place: stores on chunk-like objects only at reviewed exclusive-ownership sites")
    n = 0
    for m in repo.modules.values():
        if m.relpath.startswith("strax/processing/") or m.relpath == "strax/chunk.py":
            continue
        for f in m.functions.values():
            for node in walk_body(f.node):
                tg = []
                if isinstance(node, ast.Assign):
                    tg = node.targets
                elif isinstance(node, ast.AugAssign):
                    tg = [node.target]
                elif isinstance(node, ast.Delete):
                    tg = node.targets
                for t in tg:
                    for x in (t.elts if isinstance(t, (ast.Tuple, ast.List)) else [t]):
                        if not (isinstance(x, ast.Attribute) and x.attr in CHUNK_FIELDS):
                            continue
                        base = x.value
                        root = base
                        while isinstance(root, (ast.Subscript, ast.Attribute)):
                            root = root.value
                        if isinstance(root, ast.Name) and root.id in NOT_CHUNKS:
                            continue
                        n += 1
                        site = {"function": f.qualname, "construct": head(node, 120)}
                        if f.qualname not in OWNERS:
                            chk.fail("C01.R1", f, node, f"`{norm(x)}` is modified in place on an object that may be the chunk shared with savers / other subscribers; what is stored or handed to siblings then depends on processor and timing", site=site)
                            continue
                        ok, why = _owner_condition(repo, f, node, x)
                        chk.check(ok, "C01.R1", f, node, f"reviewed in-place edit no longer satisfies its ownership condition: {why}",
                                  site_text=f"{f.qualname}: `{head(node, 50)}` ({OWNERS[f.qualname]})", site=site)
    chk.floor("C01.R1", "attribute stores on chunk-like objects", n, 8)


def _owner_condition(repo, f, st, target):
    q = f.qualname
    if q == "Context.get_iter":
        base = target.value
        if not isinstance(base, ast.Name):
            return False, "edited object is not a local"
        r = reaching(f)
        cfg = cfg_of(f)
        for node in cfg.nodes_of(st):
            ds = r.defs_of(node, base.id)
            if not ds:
                return False, "no definition reaches"
            for d in ds:
                v = d[1]
                if not (d[3] == "assign" and isinstance(v, ast.Call) and (call_name(v) or "").split(".")[-1] in ("copy",) and v.args and norm(v.args[0]) == base.id):
                    return False, f"`{base.id}` may still be the object received from the processor (definition `{head(d[2], 50)}` reaches)"
        return True, ""
    if q.endswith("wrapped_loader"):
        base = target.value
        d = Defs(f.node)
        vals = [v for v, s, how in d.defs.get(base.id, []) if v is not None] if isinstance(base, ast.Name) else []
        if vals and all(isinstance(v, ast.Call) and call_name(v) == "next" and v.args and isinstance(v.args[0], ast.Name) for v in vals):
            # the iterator is created from a backend loader in the enclosing function / this function
            lname = vals[0].args[0].id
            scope = [f] + ([f.parent_func] if f.parent_func else [])
            for g in scope:
                dd = Defs(g.node)
                lv = [v for v, s, how in dd.defs.get(lname, []) if v is not None]
                if lv and all(isinstance(v, ast.Call) and (call_name(v) or "").endswith(".loader") for v in lv):
                    return True, ""
            return False, "loader is not created here"
        return False, "edited object does not come from next(loader)"
    if q == "FileSytemBackend._read_and_format_chunk":
        base = target.value
        d = Defs(f.node)
        v = d.single(base.id) if isinstance(base, ast.Name) else None
        return (v is not None and "super()._read_and_format_chunk" in norm(v)), "edited object is not the chunk just built by the base class"
    if q in ("Plugin._update_superrun", "Plugin._update_subruns"):
        # only called from superrun_transformation with the plugin's own result
        callers = set()
        for m in repo.modules.values():
            for g in m.functions.values():
                for c in calls_in(g.node):
                    if (call_name(c) or "").split(".")[-1] == f.name:
                        callers.add(g.qualname)
        return callers <= {"Plugin.superrun_transformation"}, f"called from {sorted(callers)}"
    if q == "Plugin.do_compute":
        cfg = cfg_of(f)
        facts = set()
        for node in cfg.nodes_of(st):
            facts |= cfg.guard_facts(node)
        from ..pattern import facts_matching, find
        ok = ("self.clean_chunk_after_compute", True) in facts
        rc = False
        for node in cfg.nodes_of(st):
            for e, pol, g, b in facts_matching(cfg, node, "L_n != 1", False):
                if find(f.node, f"{b['L_n']} = sys.getrefcount(E_x.data) - 1"):
                    rc = True
        ok = ok and rc
        return ok, "not under clean_chunk_after_compute with the reference-count check"
    return False, "no condition defined"


# ------------------------------------------------------------------------------------ R2
def _self_stores(repo, cls, func, depth=4, seen=None):
    """self attributes stored by func or by methods it calls on self (resolved through cls' MRO)."""
    seen = seen if seen is not None else set()
    if func in seen or depth < 0:
        return {}
    seen.add(func)
    out = {}
    for n in walk_body(func.node):
        tg = []
        if isinstance(n, ast.Assign):
            tg = n.targets
        elif isinstance(n, ast.AugAssign):
            tg = [n.target]
        for t in tg:
            for x in (t.elts if isinstance(t, (ast.Tuple, ast.List)) else [t]):
                root = x
                while isinstance(root, ast.Subscript):
                    root = root.value
                if isinstance(root, ast.Attribute) and dotted(root.value) == "self":
                    out.setdefault(root.attr, f"{func.qualname}: {head(n, 50)}")
        if isinstance(n, ast.Call) and isinstance(n.func, ast.Attribute):
            recv = dotted(n.func.value)
            if recv == "self":
                g = repo.resolve_method(cls, n.func.attr)
                if g is not None:
                    for k, v in _self_stores(repo, cls, g, depth - 1, seen).items():
                        out.setdefault(k, v)
                # argument aliases of self attributes mutated by the callee: cache_beyond(x, y, self.cached)
            elif recv == "super()":
                for c in repo.mro(func.cls)[1:] if func.cls else []:
                    if n.func.attr in c.methods:
                        for k, v in _self_stores(repo, cls, c.methods[n.func.attr], depth - 1, seen).items():
                            out.setdefault(k, v)
                        break
            # a self attribute passed as an argument and mutated in the callee counts as state too
            for a in n.args:
                if isinstance(a, ast.Attribute) and dotted(a.value) == "self" and recv == "self":
                    g = repo.resolve_method(cls, n.func.attr)
                    if g is not None:
                        idx = n.args.index(a)
                        params = [p for p in g.params if p != "self"]
                        if idx < len(params):
                            pname = params[idx]
                            for s in walk_body(g.node):
                                if isinstance(s, ast.Assign) and any(isinstance(t, ast.Subscript) and norm(t.value) == pname for t in s.targets):
                                    out.setdefault(a.attr, f"{g.qualname}: {head(s, 50)} (via argument)")
    return out


def r2_stateful_sequential(chk, repo):
    chk.describe("C01.R2", "plugins whose per-chunk computation keeps state on self are never parallelised; only do_compute is submitted to an executor, and only under the plugin's parallel flag")
    pl = repo.cls("Plugin")
    n_cls = 0
    for c in repo.subclasses(pl):
        if not c.module.relpath.startswith("strax/plugins/"):
            continue
        dc = repo.resolve_method(c, "do_compute")
        if dc is None:
            continue
        n_cls += 1
        state = _self_stores(repo, c, dc)
        ic = repo.resolve_method(c, "_iter_compute")
        gen = False
        fo = repo.resolve_method(c, "_fix_output")
        if fo is not None and any(isinstance(x, (ast.Yield, ast.YieldFrom)) for x in walk_body(fo.node)):
            gen = True
        owner, val = repo.class_attr(c, "parallel")
        is_false = isinstance(val, ast.Constant) and val.value is False
        if state or gen:
            why = f"keeps state across chunks ({', '.join(sorted(state))})" if state else "returns a generator from do_compute"
            chk.check(is_false, "C01.R2", c.name, None,
                      f"{c.name} {why} but `parallel` resolves to {norm(val) if val is not None else None} (from {owner.name if owner else None}): chunks would be computed concurrently / out of order on shared state",
                      site_text=f"{c.name}: {why} -> parallel = False", site={"class": c.name, "what": "parallel"})
        else:
            chk.ok("C01.R2", f"{c.name}: do_compute stores nothing on self", nontrivial=False)
    chk.floor("C01.R2", "plugin classes inspected", n_cls, 8)
    ow = repo.cls("OverlapWindowPlugin")
    chk.check(bool(_self_stores(repo, ow, repo.resolve_method(ow, "do_compute"))), "C01.R2", "OverlapWindowPlugin", None, "effect summary no longer sees the cross-chunk state of OverlapWindowPlugin (analysis anchor)", site_text="OverlapWindowPlugin: cached_input / cached_results / sent_until detected", nontrivial=False)
    # submission sites
    it = repo.func("Plugin.iter", PLUGIN)
    cfg = cfg_of(it)
    subs = [n for n in cfg.stmt_nodes() if not isinstance(n.stmt, COMPOUND) and node_calls(n, lambda c, nm: nm.endswith(".submit"))]
    chk.floor("C01.R2", "executor submissions in Plugin.iter", len(subs), 1)
    for s in subs:
        c = [c for c in own_calls(s.stmt) if (call_name(c) or "").endswith(".submit")][0]
        chk.check(c.args and norm(c.args[0]) == "self.do_compute", "C01.R2", it, s.stmt, "something other than do_compute is handed to the executor", site_text="Plugin.iter: submit(self.do_compute, ...)")
        facts = cfg.guard_facts(s)
        chk.check(("self.parallel", True) in facts and ("executor is not None", True) in facts, "C01.R2", it, s.stmt, "computation is submitted to an executor although the plugin is not declared parallel", site_text="Plugin.iter: submit only if self.parallel and executor is not None")
    for m in repo.modules.values():
        if not m.relpath.startswith("strax/plugins/"):
            continue
        for f in m.functions.values():
            if f is it:
                continue
            for c in calls_in(f.node):
                if (call_name(c) or "").endswith(".submit"):
                    chk.fail("C01.R2", f, stmt_of(c), "plugin code submits work to an executor outside Plugin.iter")
    tp = repo.func("ThreadedMailboxProcessor.__init__", THREADED)
    tcfg = cfg_of(tp)
    exn = {norm(kw(c, "executor")) for c in calls_in(tp.node) if isinstance(c.func, ast.Attribute) and c.func.attr == "iter" and isinstance(kw(c, "executor"), ast.Name)}
    ex_assign = [n for n in tcfg.stmt_nodes() if isinstance(n.stmt, ast.Assign) and any(norm(t) in exn for t in n.stmt.targets) and not (isinstance(n.stmt.value, ast.Constant) and n.stmt.value.value is None)]
    chk.floor("C01.R2", "executor selections in the threaded processor", len(ex_assign), 2)
    for n in ex_assign:
        facts = tcfg.guard_facts(n)
        from ..pattern import has_fact
        chk.check(has_fact(tcfg, n, "L_p.parallel", True) or has_fact(tcfg, n, "L_p.parallel == 'process'", True), "C01.R2", tp, n.stmt, "a plugin gets an executor without its parallel flag being set", site_text="ThreadedMailboxProcessor: executor only for parallel plugins")
    oi = repo.func("OverlapWindowPlugin.__init__", OVERLAP)
    ocfg = cfg_of(oi)
    chk.check(any(isinstance(n.stmt, ast.Raise) and ("self.clean_chunk_after_compute", True) in ocfg.guard_facts(n) for n in ocfg.stmt_nodes()), "C01.R2", oi, None, "OverlapWindowPlugin accepts clean_chunk_after_compute although it caches its inputs", site_text="OverlapWindowPlugin.__init__: rejects clean_chunk_after_compute")
    di = repo.func("DownChunkingPlugin.__init__", DOWN)
    dcfg = cfg_of(di)
    chk.check(any(isinstance(n.stmt, ast.Raise) and ("self.parallel", True) in dcfg.guard_facts(n) for n in dcfg.stmt_nodes()), "C01.R2", di, None, "DownChunkingPlugin accepts parallel=True in a subclass", site_text="DownChunkingPlugin.__init__: rejects parallel")


WITNESSES = [
    W("edit the shared chunk in get_iter (the original defect)", "C01.R1", CONTEXT,
      "# Do not modify the chunk in place: savers may still hold it\n                    result = copy(result)\n", ""),
    W("SaverSpy edits the chunk it receives", "C01.R1", SINGLE,
      "def receive(self, chunk):\n        self._save_chunk(self.rechunker.receive(chunk))",
      "def receive(self, chunk):\n        chunk.data = chunk.data.copy()\n        self._save_chunk(self.rechunker.receive(chunk))"),
    W("plugin trims its input chunk in place", "C01.R1", PLUGIN,
      "_kwargs = {k: v.data for k, v in kwargs.items()}", "for v in kwargs.values():\n            v.end = int(v.end)\n        _kwargs = {k: v.data for k, v in kwargs.items()}"),
    W("free inputs without the refcount check", "C01.R1", PLUGIN,
      "if n != 1:\n                    raise ValueError(\n                        f\"Reference count of input {k} is {n} \"\n                        \"and should be 1. This is a memory leak.\"\n                    )\n", ""),
    W("OverlapWindowPlugin parallel", "C01.R2", OVERLAP,
      "parallel = False\n    max_trials = 10", "parallel = \"process\"\n    max_trials = 10"),
    W("DownChunkingPlugin parallel", "C01.R2", DOWN,
      "parallel = False\n\n    def __init__(self):", "parallel = True\n\n    def __init__(self):"),
    W("stateful LoopPlugin-style cache on a parallel plugin", "C01.R2", "strax/plugins/cut_plugin.py",
      "class CutPlugin(Plugin):", "class CutPlugin(Plugin):\n    parallel = True\n\n    def do_compute(self, chunk_i=None, **kwargs):\n        self.last_chunk_i = chunk_i\n        return super().do_compute(chunk_i=chunk_i, **kwargs)\n"),
    W("submit regardless of the parallel flag", "C01.R2", PLUGIN,
      "if self.parallel and executor is not None:", "if executor is not None:"),
    W("threaded fan-out includes loader-fed outputs", "C01.R3", THREADED,
      "outputs = tuple(k for k in p.provides if k not in components.loaders)", "outputs = tuple(p.provides)"),
    W("single-thread filter dropped", "C01.R3", SINGLE,
      "registered=tuple(components.loaders),", ""),
    W("get_iter iterates the generator directly", "C01.R4", CONTEXT,
      "for n_chunks, result in enumerate(strax.continuity_check(generator), 1):", "for n_chunks, result in enumerate(generator, 1):"),
]
