"""C07 - splitting, concatenating, merging and rechunking obey the laws of chunking.

Decided statically: the validating guards of merge / concatenate dominate construction; the
sub/superrun split is an exhaustive and exclusive three-way case split that equals its
specification on every weak ordering; reductions without identity are protected against empty
input (incl. the cursor idiom of the split-point search); the rechunk paths build chunks only
through split / concatenate with strict splitting.  Not decided: that split points are optimal or
that rows are preserved.
"""

import ast

from ..cfg import cfg_of, literals
from ..dataflow import Defs, atoms, calls_in, provenance, stmt_of
from ..index import N, AnalysisError, call_name, dotted, enclosing, head, norm, walk_body
from ..ordering import describe, evaluate, parse_pred, weak_orderings
from ..pattern import facts_matching, find, has_fact, local_defined_as, pmatch
from ..rules import COMPOUND, kw, node_calls, own_calls, prov_at, reaching
from ..witness import W

CHUNK = "strax/chunk.py"
COMMON = "strax/storage/common.py"

EXPLANATION = (
    "R1 guard dominance: the chunk returned by Chunk.merge / Chunk.concatenate is dominated by the "
    "negative edges of raise-guards on data kind, run id, row count and time range (merge) and on "
    "data type, run id unless allow_superrun, and start < previous end (concatenate). R2 ordering "
    "enumeration: the three branch conditions of _split_runs_in_chunk over (t, start, end), start <= "
    "end, are evaluated on all weak orderings - exactly one holds and the side(s) a run lands on equal "
    "the specification; the continuity test of _mergable_check compares start[i] with end[i-1]. R3 "
    "reductions without identity (min / max / argmin / argmax) in chunk.py and the rechunk-on-load "
    "path need an `initial=`, a dominating non-emptiness guard on their base array, and - when the "
    "operand is a cursor slice x[c+1:] - a cursor that starts before the first element. R4 the "
    "rechunk paths create chunks only by split (strict) and concatenate."
)
RULE_TEXT = "one obligation per (rule, site): required guard, weak ordering, reduction site, chunk-producing statement"
ASSUMPTIONS = ["np.ndarray.argmin / min raise ValueError on empty input"]


def run(chk):
    repo = chk.repo
    r1_validators(chk, repo)
    r2_case_split(chk, repo)
    r3_reductions(chk, repo)
    r4_constructors(chk, repo)
    r5_running_max(chk, repo)
    r6_split_protocol(chk, repo)
    r7_presence_tests(chk, repo)
    from ..rules import dropped_parameters
    dropped_parameters(chk, repo, "C07.R8", [CHUNK])


def _mentions_len_of_element(f, text):
    """Does the guard (after following its locals) take len() of each chunk?  True when the test or a
    local it uses contains `len(c)` for the comprehension variable over chunks."""
    d = Defs(f.node)
    seen = [text]
    for name in [x.id for x in ast.walk(ast.parse(text, mode="eval")) if isinstance(x, ast.Name)]:
        for v, s_, how in d.defs.get(name, []):
            if v is not None:
                seen.append(norm(v))
    import re as _re

    return any(_re.search(r"len\((\w+)\) for \1 in ", t) for t in seen)


# ------------------------------------------------------------------------------------ R1
def _raising_guards_dominating(func, node):
    """[(guard node, provenance atoms)] for negative guards dominating node whose positive branch
    cannot fall through (it raises)."""
    cfg = cfg_of(func)
    r = reaching(func)
    out = []
    for g in cfg.dominating_guards(node):
        if g.test is None or g.polarity is not False:
            continue
        tg = cfg.guards_of(g.owner, True)
        fall = cfg.reachable(tg, "n")
        if node in fall:
            continue
        if not any(x.kind == "stmt" and isinstance(x.stmt, ast.Raise) for x in fall):
            continue
        out.append((g, r.provenance(g, g.test), norm(g.test)))
    # guards inside a loop that dominates the node: `for c in xs: if <test>: raise`
    for lp in cfg.dominated_by(node, lambda d: d.kind == "stmt" and isinstance(d.stmt, (ast.For, ast.While))):
        for st in lp.stmt.body:
            if isinstance(st, ast.If) and any(isinstance(x, ast.Raise) for x in st.body):
                hn = cfg.node_of(st)
                out.append((hn, r.provenance(hn, st.test), norm(st.test)))
    return out


def r1_validators(chk, repo):
    chk.describe("C07.R1", "merge and concatenate construct their result only after the validating guards; split_array refuses to cut a row unless early splits are allowed")
    reqs = {
        "Chunk.merge": [
            ("same data kind", {".data_kind"}),
            ("same run id", {".run_id"}),
            ("same number of rows", lambda prov, text, f: _mentions_len_of_element(f, text)),
            ("same time range", {".start", ".end"}),
            ("at least one chunk", {"chunks"}),
        ],
        "Chunk.concatenate": [
            ("same data type", {".data_type"}),
            ("same run id unless allow_superrun", {".run_id", "allow_superrun"}),
            ("in order and not overlapping", lambda prov, text, f: pmatch("L_c.start < L_prev", ast.parse(text, mode="eval").body) is not None),
            ("at least one chunk", {"chunks"}),
        ],
    }
    for q, lst in reqs.items():
        f = repo.func(q, CHUNK)
        cfg = cfg_of(f)
        rets = [n for n in cfg.stmt_nodes() if isinstance(n.stmt, ast.Return) and isinstance(n.stmt.value, ast.Call) and norm(n.stmt.value.func) == "cls"]
        chk.need(len(rets) == 1, f"C07.R1: constructing return of {q} not found")
        gs = _raising_guards_dominating(f, rets[0])
        for name, need in lst:
            if callable(need):
                hit = [g for g, prov, text in gs if need(prov, text, f)]
            else:
                hit = [g for g, prov, text in gs if need <= prov]
            chk.check(bool(hit), "C07.R1", f, rets[0].stmt, f"{q} builds its result without having checked: {name}", site_text=f"{q}: guard [{name}] dominates construction", site={"function": q, "guard": name})
    # concatenate: the order guard compares with the previous end, which is updated from c.end
    f = repo.func("Chunk.concatenate", CHUNK)
    cfg = cfg_of(f)
    og = []
    for n in cfg.stmt_nodes():
        if isinstance(n.stmt, ast.Raise):
            for e, pol, g, b in facts_matching(cfg, n, "L_c.start < L_prev", True):
                lp = enclosing(n.stmt, (ast.For,))
                if lp is not None and norm(lp.target) == b["L_c"] and find(lp, f"{b['L_prev']} = {b['L_c']}.end"):
                    og.append(n)
    upd = og
    chk.check(bool(og) and bool(upd), "C07.R1", f, None, "concatenate's order test is not `start < previous end` with the previous end taken from each chunk", site_text="Chunk.concatenate: raise if c.start < prev_end; prev_end = c.end")
    # merged / concatenated range
    for q, want in (("Chunk.concatenate", {"start": "chunks[0].start", "end": "chunks[-1].end"}),):
        f = repo.func(q, CHUNK)
        c = [n.value for n in walk_body(f.node) if isinstance(n, ast.Return) and isinstance(n.value, ast.Call) and norm(n.value.func) == "cls"][0]
        kws = {k.arg: norm(k.value) for k in c.keywords}
        for k, v in want.items():
            chk.check(kws.get(k) == v, "C07.R1", f, None, f"{q}: result {k} is {kws.get(k)}, expected {v}", site_text=f"{q}: {k}={v}")
    sa = repo.func("split_array", CHUNK)
    scfg = cfg_of(sa)
    rs = [n for n in scfg.stmt_nodes() if isinstance(n.stmt, ast.Raise) and "CannotSplit" in norm(n.stmt.exc)]
    chk.check(bool(rs) and all(("allow_early_split", False) in scfg.guard_facts(n) for n in rs), "C07.R1", sa, None, "split_array does not raise CannotSplit exactly when early splits are not allowed", site_text="split_array: raise CannotSplit iff not allow_early_split")
    for n in rs:
        outer = [g for g in scfg.dominating_guards(n) if g.test is not None and "allow_early_split" not in norm(g.test)]
        ok = any(pmatch("L_si != L_fb or L_les > t", g.test) is not None and g.polarity for g in outer)
        chk.check(ok, "C07.R1", sa, n.stmt, "the straddling-row condition guarding CannotSplit changed", site_text="split_array: CannotSplit under (splittable_i != i_first_beyond or latest_end_seen > t)", nontrivial=False)
    init = repo.func("Chunk.__init__", CHUNK)
    icfg = cfg_of(init)
    for lit, what in ((("self.start > self.end", True), "inverted range"), (("self.start < 0", True), "negative start")):
        chk.check(any(isinstance(n.stmt, ast.Raise) and lit in icfg.guard_facts(n) for n in icfg.stmt_nodes()), "C07.R1", init, None, f"Chunk.__init__ accepts a chunk with {what}", site_text=f"Chunk.__init__: rejects {what}")


# ------------------------------------------------------------------------------------ R2
def r2_case_split(chk, repo, rule="C07.R2"):
    chk.describe(rule, "splitting the run annotations at t is an exhaustive, exclusive three-way case split that equals its specification on every weak ordering of (t, start, end)")
    f = repo.func("_split_runs_in_chunk", CHUNK)
    loops = [n for n in walk_body(f.node) if isinstance(n, ast.For)]
    chk.need(len(loops) == 1, "C07.R2: loop over the runs in _split_runs_in_chunk not found")
    lp = loops[0]
    chain = []
    node = lp.body[0] if lp.body and isinstance(lp.body[0], ast.If) else None
    while node is not None:
        sides = set()
        for s in node.body:
            for x in ast.walk(s):
                if isinstance(x, ast.Subscript) and isinstance(x.ctx, ast.Store) and isinstance(x.value, ast.Name):
                    sides.add(x.value.id)
        chain.append((node.test, sides))
        if node.orelse and len(node.orelse) == 1 and isinstance(node.orelse[0], ast.If):
            node = node.orelse[0]
        else:
            if node.orelse:
                chain.append((None, {x.value.id for s in node.orelse for x in ast.walk(s) if isinstance(x, ast.Subscript) and isinstance(x.ctx, ast.Store) and isinstance(x.value, ast.Name)}))
            node = None
    chk.need(len(chain) >= 2, "C07.R2: branch chain of _split_runs_in_chunk not found")
    tparam = f.params[1]
    val = norm(lp.target.elts[1]) if isinstance(lp.target, ast.Tuple) else "run_start_end"
    symmap = {tparam: "t", f"{val}['start']": "s", f"{val}['end']": "e"}
    first_names = [n for n in ("runs_first_chunk",)]
    n_ord = 0
    bad = None
    for env in weak_orderings(["t", "s", "e"]):
        if not env["s"] <= env["e"]:
            continue
        n_ord += 1
        taken = []
        try:
            for test, sides in chain:
                if test is None:
                    if not taken:
                        taken.append(sides)
                    break
                if evaluate(test, env, symmap):
                    taken.append(sides)
                    break
        except AnalysisError as ex:
            chk.fail(rule, f, lp, f"branch conditions are no longer comparison-only: {ex}")
            return
        # independent evaluation of all tests for exclusivity
        trues = [i for i, (test, sides) in enumerate(chain) if test is not None and evaluate(test, env, symmap)]
        want_first = env["s"] < env["t"]
        want_second = env["t"] < env["e"] or env["t"] <= env["s"]
        got = taken[0] if taken else set()
        got_first = any("first" in x for x in got)
        got_second = any("second" in x for x in got)
        if not taken or got_first != want_first or got_second != want_second:
            bad = (dict(env), len(trues), (got_first, got_second), (want_first, want_second))
            break
    chk.check(bad is None, rule, f, lp,
              "run annotation split is wrong for ordering " + (f"{describe(bad[0])}: {bad[1]} branch condition(s) hold, run goes to (first={bad[2][0]}, second={bad[2][1]}), specification (first={bad[3][0]}, second={bad[3][1]})" if bad else ""),
              site_text=f"_split_runs_in_chunk: a branch is taken and the run lands on the specified side(s) on {n_ord} orderings of (t, start, end)", site={"function": f.qualname, "construct": "case split"})
    chk.exhaustive = True
    chk.note("orderings_enumerated", n_ord)
    # both halves of a straddled run are cut at t
    mids = [s for test, sides in chain if len(sides) == 2 for s in (lp,)]
    texts = [norm(x) for x in walk_body(f.node) if isinstance(x, ast.Dict)]
    chk.check(any("'end': int(t)" in t or f"'end': int({tparam})" in t for t in texts) and any(f"'start': int({tparam})" in t for t in texts), rule, f, None, "a straddled run is not cut at the split time on both sides", site_text="_split_runs_in_chunk: straddled run -> [start, t) and [t, end)")
    pops = [c for c in calls_in(f.node) if call_name(c) == "_pop_out_empty_run_id"]
    chk.check(len(pops) == 2, rule, f, None, "zero-length run fragments are not removed from both sides", site_text="_split_runs_in_chunk: empty fragments popped on both sides", nontrivial=False)
    mc = repo.func("_mergable_check", CHUNK)
    cmp_ = [n for n, b in find(mc.node, "E_x[L_i][0] != E_x[L_i - 1][1]")]
    chk.check(bool(cmp_), rule, mc, None, "continuity of concatenated run fragments is not tested as start[i] != end[i-1]", site_text="_mergable_check: start[i] != end[i-1] -> raise")
    so = [c for c in calls_in(mc.node) if isinstance(c.func, ast.Attribute) and c.func.attr == "sort"]
    chk.check(bool(so), rule, mc, None, "run fragments are not sorted by start before the continuity test", site_text="_mergable_check: fragments sorted by start", nontrivial=False)


# ------------------------------------------------------------------------------------ R3
REDUCERS = {"argmin", "argmax", "min", "max"}
R3_FUNCS = [("Chunk.__init__", CHUNK), ("Rechunker.get_splits", CHUNK), ("Rechunker.receive", CHUNK), ("StorageBackend._read_format_split_chunk", COMMON), ("split_array", CHUNK), ("Chunk.merge", CHUNK), ("Chunk.concatenate", CHUNK)]


def reduction_sites(func):
    out = []
    for n in walk_body(func.node):
        if isinstance(n, ast.Call) and isinstance(n.func, ast.Attribute) and n.func.attr in REDUCERS and not n.args:
            if any(k.arg in ("initial", "default") for k in n.keywords):
                continue
            out.append(n)
    return out


def check_reduction(func, call):
    """(ok, why) for one identity-less reduction."""
    cfg = cfg_of(func)
    st = stmt_of(call)
    node = cfg.node_of(st)
    operand = call.func.value
    # base arrays: names / attribute chains that are sliced or passed inside the operand
    bases = set()
    cursor_slices = []
    for x in ast.walk(operand):
        if isinstance(x, ast.Subscript):
            b = x.value
            d = dotted(b)
            if d:
                bases.add(d)
            sl = x.slice
            if isinstance(sl, ast.Slice) and sl.lower is not None and not isinstance(sl.lower, ast.Constant) and not (isinstance(sl.lower, ast.UnaryOp) and isinstance(sl.lower.operand, ast.Constant)):
                cursor_slices.append((x, sl.lower))
        elif isinstance(x, (ast.Name, ast.Attribute)) and dotted(x):
            pass
    if not bases:
        for x in ast.walk(operand):
            if isinstance(x, ast.Name):
                bases.add(x.id)
    facts = cfg.guard_facts(node)
    nonempty = False
    for b in bases:
        if (f"len({b})", True) in facts or (f"len({b}) != 0", True) in facts or (f"len({b}) > 0", True) in facts or (f"not len({b})", False) in facts or (f"len({b}) == 0", False) in facts:
            nonempty = True
    if not nonempty:
        return False, f"no dominating non-emptiness test of {sorted(bases)}"
    for sub, lower in cursor_slices:
        # cursor idiom x[c + 1:]: c must start before the first element (c = -1)
        names = [x.id for x in ast.walk(lower) if isinstance(x, ast.Name)]
        if not (isinstance(lower, ast.BinOp) and isinstance(lower.op, ast.Add) and isinstance(lower.right, ast.Constant) and lower.right.value == 1 and len(names) == 1):
            return False, f"slice start `{norm(lower)}` is not a recognised cursor"
        c = names[0]
        d = Defs(func.node)
        inits = [v for v, s, how in d.defs.get(c, []) if how == "assign"]
        if not inits or not all(isinstance(v, ast.UnaryOp) and isinstance(v.op, ast.USub) and isinstance(v.operand, ast.Constant) and v.operand.value == 1 for v in inits):
            return False, f"cursor `{c}` of the slice `{norm(sub)}` does not start at -1: the first element is never a candidate and the slice can be empty"
        # the loop must stop while something lies beyond the cursor: its test compares against x[-1]
        lp = enclosing(st, (ast.While,))
        base = dotted(sub.value)
        if lp is None or f"{base}[-1]" not in norm(lp.test):
            return False, "loop does not stop at the last element of the sliced array"
    return True, ""


def r3_reductions(chk, repo):
    chk.describe("C07.R3", "min / max / argmin / argmax without identity are never applied to a possibly empty array in the chunk and rechunk code")
    n = 0
    for q, p in R3_FUNCS:
        f = repo.func(q, p)
        for call in reduction_sites(f):
            n += 1
            ok, why = check_reduction(f, call)
            chk.check(ok, "C07.R3", f, stmt_of(call), f"`{norm(call)[:80]}` can be applied to an empty array ({why}): valid input makes the rechunker raise ValueError",
                      site_text=f"{q}: `{norm(call)[:60]}` protected", site={"function": q, "construct": norm(call)[:120]})
    chk.floor("C07.R3", "identity-less reductions in scope", n, 1)


# ------------------------------------------------------------------------------------ R4
def r4_constructors(chk, repo):
    chk.describe("C07.R4", "rechunk paths emit only chunks produced by Chunk.split (strict) / Chunk.concatenate or the received chunk itself")
    for q, p in (("Rechunker.receive", CHUNK), ("Rechunker.flush", CHUNK), ("StorageBackend._read_format_split_chunk", COMMON)):
        f = repo.func(q, p)
        raw = [c for c in calls_in(f.node) if (call_name(c) or "").split(".")[-1] == "Chunk" and (call_name(c) or "") in ("strax.Chunk", "Chunk")]
        chk.check(not raw, "C07.R4", f, stmt_of(raw[0]) if raw else None, "rechunk path builds a chunk directly from raw data instead of through split / concatenate (a row could be cut unnoticed)", site_text=f"{q}: no direct Chunk(...) construction")
        for c in calls_in(f.node):
            if isinstance(c.func, ast.Attribute) and c.func.attr == "split":
                a = kw(c, "allow_early_split")
                chk.check(a is not None and isinstance(a, ast.Constant) and a.value is False, "C07.R4", f, stmt_of(c), "rechunk split allows early splitting: the split time would silently move", site_text=f"{q}: split(..., allow_early_split=False)")
                t = kw(c, "t")
                chk.check(t is not None and (pmatch("E_c.data['time'][L_i] - int(DEFAULT_CHUNK_SPLIT_NS // 2)", t) is not None or pmatch("E_c.data['time'][L_i] - int(strax.DEFAULT_CHUNK_SPLIT_NS // 2)", t) is not None), "C07.R4", f, stmt_of(c), "split time is not half a minimum gap before the first row of the next piece", site_text=f"{q}: t = time[index] - min_gap/2")
    # both rechunk loops cut the *remainder*, so they must walk the differences of the split indices
    shapes = {}
    for q, p in (("Rechunker.receive", CHUNK), ("StorageBackend._read_format_split_chunk", COMMON)):
        f = repo.func(q, p)
        loops = [n for n in walk_body(f.node) if isinstance(n, ast.For) and isinstance(n.target, ast.Name) and any(isinstance(c.func, ast.Attribute) and c.func.attr == "split" for st in n.body for c in calls_in(st))]
        chk.check(len(loops) == 1, "C07.R4", f, None, f"{q}: expected one loop that splits the chunk at the chosen indices", site_text=f"{q}: split loop")
        for lp in loops:
            ok = False
            it = lp.iter
            if isinstance(it, ast.Call) and call_name(it) == "np.diff" and len(it.args) == 1 and isinstance(it.args[0], ast.Name):
                d = [st for st in walk_body(f.node) if isinstance(st, ast.Assign) and norm(st.targets[0]) == it.args[0].id]
                ok = bool(d) and all(isinstance(st.value, ast.Call) and (call_name(st.value) or "").endswith("get_splits") for st in d)
            # the remainder is what gets split and indexed next
            sp = [st for st in lp.body if isinstance(st, ast.Assign) and isinstance(st.targets[0], ast.Tuple) and isinstance(st.value, ast.Call) and isinstance(st.value.func, ast.Attribute) and st.value.func.attr == "split"]
            rem = bool(sp) and norm(sp[0].targets[0].elts[1]) == norm(sp[0].value.func.value)
            chk.check(ok and rem, "C07.R4", f, lp, f"{q}: the loop splits the shrinking remainder but does not walk np.diff(<get_splits result>): absolute indices applied to the remainder cut at the wrong rows or fail on valid input",
                      site_text=f"{q}: for index in np.diff(split_indices) over the remainder", site={"function": q, "rule": "relative split indices"})
            shapes[q] = norm(it).split("(")[0]
    lf = repo.func("StorageBackend._read_format_split_chunk", COMMON)
    lcfg = cfg_of(lf)
    lloops = [n for n in walk_body(lf.node) if isinstance(n, ast.For) and any(isinstance(c.func, ast.Attribute) and c.func.attr == "split" for st in n.body for c in calls_in(st))]
    if lloops:
        sp = [st for st in lloops[0].body if isinstance(st, ast.Assign) and isinstance(st.targets[0], ast.Tuple)]
        REM = norm(sp[0].targets[0].elts[1]) if sp else None
        ys = [n for n in lcfg.stmt_nodes() if isinstance(n.stmt, ast.Expr) and isinstance(n.stmt.value, ast.Yield) and REM and norm(n.stmt.value.value) == REM]
        ln = lcfg.node_of(lloops[0])
        ok, _p = lcfg.every_path([ln], [lcfg.exit_return], lambda n: n in ys and n.stmt not in list(ast.walk(lloops[0])), "n")
        chk.check(ok, "C07.R4", lf, lloops[0], "after the split loop the remainder is not yielded on every path (e.g. only `if len(chunk)`): an empty remainder still carries a time range, dropping it leaves a gap or shortens the stream", site_text="_read_format_split_chunk: remainder yielded unconditionally after the loop", site={"function": lf.qualname, "rule": "remainder yielded"})
    chk.check(len(set(shapes.values())) <= 1, "C07.R4", "strax/chunk.py", None, f"the save-side and load-side rechunk loops disagree on how they walk the split indices: {shapes}", site_text="rechunk loops agree (sibling check)")
    rr = repo.func("Rechunker.receive", CHUNK)
    cc = [c for c in calls_in(rr.node) if (call_name(c) or "").endswith("Chunk.concatenate")]
    chk.check(len(cc) == 1 and norm(cc[0].args[0]) == "[self.cache, chunk]", "C07.R4", rr, None, "cached rows are not put in front of the received chunk", site_text="Rechunker.receive: concatenate([cache, chunk])")
    st = [n for n in walk_body(rr.node) if isinstance(n, ast.Assign) and norm(n.targets[0]) == "self.cache"]
    chk.check(bool(st) and all(norm(n.value) == "chunk" for n in st), "C07.R4", rr, None, "remainder after the last split is not kept for the next call", site_text="Rechunker.receive: self.cache = remainder")
    gs = repo.func("Rechunker.get_splits", CHUNK)
    GI, gi_assign, _b = local_defined_as(gs.node, "np.argwhere(strax.diff(data) > min_gap).flatten() + 1")
    chk.check(GI is not None, "C07.R4", gs, None, "split candidates are not the positions after gaps larger than the minimum gap", site_text="get_splits: candidates = argwhere(diff(data) > min_gap) + 1")

# ------------------------------------------------------------------------------------ R5
def r5_running_max(chk, repo, rule="C07.R5"):
    from ..rules import endtime_accumulators
    chk.describe(rule, "sweeps over time-sorted rows compare against the running maximum of the end times seen so far (rows are sorted by start, not by end: a long early row can outlast later ones)")
    n = 0
    for q, p in (("split_array", CHUNK), ("diff", "strax/processing/general.py")):
        f = repo.func(q, p)
        acc = endtime_accumulators(f)
        chk.check(bool(acc), rule, f, None, f"{q} no longer keeps a loop-carried latest-end value (anchor moved?)", site_text=f"{q}: keeps a latest-end accumulator")
        for L, st, ok in acc:
            n += 1
            chk.check(ok, rule, f, st, f"`{L}` is overwritten with the end of the current row instead of accumulated with max(): with nested rows a cut (or gap) is found inside a long earlier row",
                      site_text=f"{q}: {L} = max({L}, end of row)", site={"function": q, "accumulator": "latest end"})
    chk.floor(rule, "latest-end accumulators", n, 1)


# ------------------------------------------------------------------------------------ R6
def r6_split_protocol(chk, repo):
    chk.describe("C07.R6", "Chunk.split fixes the (possibly earlier) split time before anything else uses it, and builds two adjacent chunks: left = [start, t) with the left rows, right = [t, end) with the right rows")
    R = "C07.R6"
    f = repo.func("Chunk.split", CHUNK)
    cfg = cfg_of(f)
    T = f.params[1]
    sa = [st for st in walk_body(f.node) if isinstance(st, ast.Assign) and isinstance(st.value, ast.Call) and (call_name(st.value) or "").split(".")[-1] == "split_array"]
    chk.need(len(sa) == 1 and isinstance(sa[0].targets[0], ast.Tuple) and len(sa[0].targets[0].elts) == 3, "C07.R6: Chunk.split no longer unpacks (left, right, t) from split_array")
    d1, d2, t3 = [norm(e) for e in sa[0].targets[0].elts]
    chk.check(t3 == T, R, f, sa[0], "the split time returned by split_array (which may be earlier than requested) is not taken over", site_text="Chunk.split: t rebound from split_array")
    D = cfg.node_of(sa[0])
    before = cfg.reaching([D], "n")  # nodes from which the rebinding can still happen
    for n in cfg.nodes:
        if n is D or n not in before:
            continue
        e = n.stmt if n.kind == "stmt" else None
        if e is None:
            continue
        if isinstance(e, (ast.If, ast.While)):
            reads = [x for x in ast.walk(e.test) if isinstance(x, ast.Name) and x.id == T]
            # branch tests that decide whether a search is needed at all: only `t` against a chunk edge
            tt = e.test
            allowed = isinstance(tt, ast.Compare) and len(tt.ops) == 1 and isinstance(tt.ops[0], (ast.Eq, ast.LtE, ast.GtE)) and {norm(tt.left), norm(tt.comparators[0])} in ({T, "self.end"}, {T, "self.start"})
            what = norm(e.test)
            if reads and not allowed:
                chk.fail(R, f, e, f"`{what[:90]}` decides without looking at the rows that everything lies on one side of the split: only the chunk edges allow that (rows are sorted by start, not by end - a long early row can still straddle t)",
                         site={"function": f.qualname, "rule": "shortcut only at the chunk edges", "construct": what[:90]})
                continue
        elif isinstance(e, (ast.For, ast.With, ast.Try, ast.FunctionDef)):
            continue
        else:
            reads = [x for x in ast.walk(e) if isinstance(x, ast.Name) and x.id == T and isinstance(x.ctx, ast.Load)]
            # the clamp `t = max(min(t, end), start)` rebinds t itself
            allowed = isinstance(e, ast.Assign) and len(e.targets) == 1 and norm(e.targets[0]) == T
            what = head(e, 100)
        if reads and not allowed:
            chk.fail(R, f, e, f"`{what}` uses the requested split time before split_array has fixed the actual one: with an early split the annotation / bounds refer to a different time than the data cut",
                     site={"function": f.qualname, "rule": "no use of t before it is final", "construct": what})
        elif reads:
            chk.ok(R, f"Chunk.split: `{what[:60]}` may read the requested time")
    cons = [c for c in calls_in(f.node) if (call_name(c) or "") in ("strax.Chunk", "Chunk", "cls", "self.__class__")]
    cons.sort(key=lambda c: c.lineno)
    chk.check(len(cons) == 2, R, f, None, "Chunk.split does not build exactly two chunks", site_text="Chunk.split: two result chunks")
    if len(cons) == 2:
        k1 = {k.arg: norm(k.value) for k in cons[0].keywords if k.arg}
        k2 = {k.arg: norm(k.value) for k in cons[1].keywords if k.arg}
        chk.check(k1.get("start") == "self.start" and k1.get("data") == d1, R, f, stmt_of(cons[0]), "left chunk does not start at the chunk start with the left rows", site_text="Chunk.split: left = (self.start, ..., left rows)")
        chk.check(k1.get("end") is not None and k1.get("end") == k2.get("start") and T in atoms(cons[0].keywords[[k.arg for k in cons[0].keywords].index("end")].value), R, f, stmt_of(cons[1]), "the two halves are not adjacent at the split time (left end != right start)", site_text="Chunk.split: left.end == right.start == f(t)")
        chk.check(k2.get("data") == d2 and "self.end" in (k2.get("end") or ""), R, f, stmt_of(cons[1]), "right chunk does not end at the chunk end with the right rows", site_text="Chunk.split: right = (..., self.end, right rows)")
    ret = [st for st in walk_body(f.node) if isinstance(st, ast.Return)]
    names = [norm(stmt_of(c).targets[0]) for c in cons if isinstance(stmt_of(c), ast.Assign)]
    for nm in names:
        others = [st for st in walk_body(f.node) if isinstance(st, ast.Assign) and any(norm(t) == nm for t in st.targets) and st not in [stmt_of(c) for c in cons]]
        chk.check(not others, R, f, others[0] if others else None, f"`{nm}` is also bound by `{head(others[0], 50) if others else ''}`: on that path a half is not rebuilt from its own rows, range and run annotations (e.g. the chunk itself is handed back, keeping annotations of runs that lie entirely in the other half)", site_text=f"Chunk.split: {nm} only from its constructor call", site={"function": f.qualname, "rule": "halves always rebuilt"})
    chk.check(len(ret) == 1 and len(names) == 2 and norm(ret[0].value) == f"({names[0]}, {names[1]})", R, f, ret[0] if ret else None, "Chunk.split does not return (left, right)", site_text="Chunk.split: return (left, right)")

# ------------------------------------------------------------------------------------ R7
def _strip_presence(e):
    """`len(X)` / `not X` / `X.get(k, ...)` -> the chunk-valued expression whose rows are counted."""
    while True:
        if isinstance(e, ast.Call) and call_name(e) in ("len", "bool") and len(e.args) == 1:
            e = e.args[0]
        elif isinstance(e, ast.UnaryOp) and isinstance(e.op, ast.Not):
            e = e.operand
        elif isinstance(e, ast.Compare) and len(e.ops) == 1 and isinstance(e.comparators[0], ast.Constant) and e.comparators[0].value in (0, 1) and isinstance(e.ops[0], (ast.Gt, ast.GtE, ast.NotEq, ast.Eq, ast.Lt, ast.LtE)):
            e = e.left
        else:
            break
    if isinstance(e, ast.Call) and isinstance(e.func, ast.Attribute) and e.func.attr == "get" and e.args:
        return f"{norm(e.func.value)}[{norm(e.args[0])}]"
    return norm(e)


def r7_presence_tests(chk, repo):
    chk.describe("C07.R7", "whether a cached chunk takes part in a concatenation is decided by its presence (is None / key in cache / number of cache entries), never by its row count or truth value: an empty chunk still carries a time range")
    n = 0
    for f in repo.functions:
        if not (f.path == CHUNK or f.path.startswith("strax/plugins/") or f.path == "strax/storage/common.py"):
            continue
        cc = [c for c in calls_in(f.node) if (call_name(c) or "").endswith("Chunk.concatenate") and c.args and isinstance(c.args[0], (ast.List, ast.Tuple))]
        if not cc:
            continue
        cfg = cfg_of(f)
        for c in cc:
            n += 1
            elems = {norm(e) for e in c.args[0].elts}
            node = cfg.node_of(stmt_of(c))
            bad = None
            for e, pol, g in cfg.guard_literals(node):
                if isinstance(e, ast.Compare) and len(e.ops) == 1 and isinstance(e.ops[0], (ast.Is, ast.IsNot, ast.In, ast.NotIn)):
                    continue
                if _strip_presence(e) in elems:
                    bad = e
            chk.check(bad is None, "C07.R7", f, stmt_of(c), f"`{norm(bad) if bad is not None else ''}` decides by row count / truth value whether a chunk is concatenated: an empty cached chunk is treated as absent and its time range is lost",
                      site_text=f"{f.qualname}: concatenation guarded by presence tests only", site={"function": f.qualname, "concatenate": norm(c.args[0])[:80]})
    chk.floor("C07.R7", "Chunk.concatenate call sites with a literal list", n, 3)


WITNESSES = [
    W("empty remainder dropped by rechunk on load", "C07.R4", COMMON,
      "yield _chunk\n            yield chunk", "yield _chunk\n            if len(chunk):\n                yield chunk"),
    W("load-side rechunk loop uses absolute indices", "C07.R4", COMMON,
      "for index in np.diff(split_indices):\n                _chunk, chunk = chunk.split(\n                    t=chunk.data[\"time\"][index] - int(strax.DEFAULT_CHUNK_SPLIT_NS // 2),", "for index in split_indices[1:]:\n                _chunk, chunk = chunk.split(\n                    t=chunk.data[\"time\"][index] - int(strax.DEFAULT_CHUNK_SPLIT_NS // 2),"),
    W("rechunker cache tested by truth value", "C07.R7", CHUNK,
      "if self.cache is not None:\n            # We have an old chunk", "if self.cache:\n            # We have an old chunk"),
    W("overlap plugin cache tested by row count", "C07.R7", "strax/plugins/overlap_window_plugin.py",
      "if len(self.cached_input):\n                kwargs[data_kind]", "if len(self.cached_input.get(data_kind, ())):\n                kwargs[data_kind]"),
    W("split_array forgets long earlier rows", "C07.R5", CHUNK,
      "latest_end_seen = max(latest_end_seen, strax.endtime(d))", "latest_end_seen = strax.endtime(d)"),
    W("run bookkeeping before the split time is final", "C07.R6", CHUNK,
      "t = max(min(t, self.end), self.start)  # type: ignore\n        if t == self.end:", "t = max(min(t, self.end), self.start)  # type: ignore\n        superrun_first_chunk, superrun_second_chunk = _split_runs_in_chunk(self.superrun, t)\n        if t == self.end:"),
    W("split shortcut trusts the last row's end", "C07.R6", CHUNK,
      "if t == self.end:\n            data1, data2 = self.data, self.data[:0].copy()", "if t == self.end or (len(self.data) and strax.endtime(self.data[-1]) <= t):\n            data1, data2 = self.data, self.data[:0].copy()"),
    W("left half is the chunk itself when t is the end", "C07.R6", CHUNK,
      "c2 = strax.Chunk(\n            start=max(self.start, t),", "if t == self.end:\n            c1 = self\n        c2 = strax.Chunk(\n            start=max(self.start, t),"),
    W("halves swapped", "C07.R6", CHUNK,
      "end=max(self.start, t),  # type: ignore\n            data=data1,", "end=max(self.start, t),  # type: ignore\n            data=data2,"),
    W("right half starts at the requested end", "C07.R6", CHUNK,
      "start=max(self.start, t),  # type: ignore\n            end=max(t, self.end),", "start=max(self.start, t + 1),  # type: ignore\n            end=max(t, self.end),"),
    W("early split time discarded", "C07.R6", CHUNK,
      "data1, data2, t = split_array(data=self.data, t=t, allow_early_split=allow_early_split)", "data1, data2, _t = split_array(data=self.data, t=t, allow_early_split=allow_early_split)"),
    W("merge without the row-count guard", "C07.R1", CHUNK,
      "if len(set([len(c) for c in chunks])) != 1:\n            raise ValueError(f\"Cannot merge chunks with different number of items: {chunks}\")", "pass"),
    W("merge without the time-range guard", "C07.R1", CHUNK,
      "if len(set(tranges)) != 1:\n            raise ValueError(f\"Cannot merge chunks with different time ranges: {tranges}\")", "pass"),
    W("concatenate without the order guard", "C07.R1", CHUNK,
      "if c.start < prev_end:\n                raise ValueError(\n                    f\"Attempt to concatenate overlapping or out-of-order chunks: {chunks} \"\n                )", "pass"),
    W("concatenate ignores run ids", "C07.R1", CHUNK,
      "if len(set(run_ids)) != 1 and not allow_superrun:\n            raise ValueError(\n                f\"Cannot concatenate {data_type} chunks with different run ids: {run_ids}\"\n            )", "pass"),
    W("split_array never raises CannotSplit", "C07.R1", CHUNK,
      "if not allow_early_split:\n            # Raise custom exception, make better one outside numba\n            raise CannotSplit()", "pass"),
    W("t < start in the run split", "C07.R2", CHUNK,
      "if t <= run_start_end[\"start\"]:", "if t < run_start_end[\"start\"]:"),
    W("run ending at t goes nowhere", "C07.R2", CHUNK,
      "elif run_start_end[\"end\"] <= t:", "elif run_start_end[\"end\"] < t:"),
    W("straddled run missing on the second side", "C07.R2", CHUNK,
      "runs_second_chunk[run_id] = {\"start\": int(t), \"end\": run_start_end[\"end\"]}", "pass"),
    W("cursor starts on the first gap (the original defect)", "C07.R3", CHUNK,
      "argmin = -1\n        if len(gap_indices) != 0:", "argmin = 0\n        if len(gap_indices) != 0:"),
    W("no emptiness guard around the split search", "C07.R3", CHUNK,
      "if len(gap_indices) != 0:\n            n = 0", "if True:\n            n = 0"),
    W("late-data check on empty data", "C07.R3", CHUNK,
      "if len(self.data):\n            data_starts_at = self.data[0][\"time\"]", "if True:\n            data_starts_at = self.data[0][\"time\"]"),
    W("rechunker cuts raw data", "C07.R4", CHUNK,
      "chunks.append(_chunk)\n        self.cache = chunk", "chunks.append(_chunk)\n        chunks.append(strax.Chunk(start=chunk.start, end=chunk.end, data=chunk.data[:1], dtype=chunk.dtype, data_type=chunk.data_type, data_kind=chunk.data_kind, run_id=chunk.run_id))\n        self.cache = chunk"),
    W("rechunker allows early splits", "C07.R4", CHUNK,
      "t=chunk.data[\"time\"][index] - int(DEFAULT_CHUNK_SPLIT_NS // 2),\n                allow_early_split=False,", "t=chunk.data[\"time\"][index] - int(DEFAULT_CHUNK_SPLIT_NS // 2),\n                allow_early_split=True,"),
]
