"""C16 - copying, rechunking, recompressing and per-chunk merging preserve the data.

Decided statically: which code may destroy data and under which guard (closed ownership table),
that every saver created by the copy / merge / rechunk tools is preceded by an overwrite decision
on its destination (or a destination-is-not-source guard), that Future-typed values are only used
through the Future API (path-sensitive), that copy targets exclude frontends that already hold the
data, that the owner of an asynchronously running saver inspects its outcome before acting on it,
and that the rechunker touches the source only after the destination exists.
Not decided: equality of the copied rows.
"""

import ast

from ..cfg import cfg_of, literals
from ..dataflow import Defs, atoms, calls_in, provenance, stmt_of
from ..index import AnalysisError, call_name, dotted, enclosing, head, norm, walk_body
from ..pathsens import explore
from ..rules import COMPOUND, kw, node_calls, own_calls, prov_at
from ..witness import W

CONTEXT = "strax/context.py"
RECH = "strax/storage/file_rechunker.py"
COMMON = "strax/storage/common.py"
FILES = "strax/storage/files.py"
THREADED = "strax/processors/threaded_mailbox.py"

EXPLANATION = (
    "R1 who-may-destroy: every rmtree / remove / rename / move / delete_many / tempdir cleanup in "
    "the package must be one of the reviewed (function, call, target provenance, guard) entries. "
    "R2 every direct backend saver creation (_saver) is dominated by find(write=True) on the same "
    "frontend (overwrite / exists decision) or, in the stand-alone rechunker, by the guard that the "
    "destination is not the source. R3 path-sensitive typed-local lint: a local that holds the "
    "result of executor.submit on a feasible path is only used through the Future API. R4 copy "
    "targets are the frontends that do not hold the data, accept it and are writable. R5 whoever "
    "runs Saver.save_from in another thread inspects got_exception after joining and before moving "
    "or reporting success. R6 the rechunker removes the source only under `replace`, after the "
    "destination was verified to exist, and removes before it moves."
)
RULE_TEXT = "one obligation per (rule, site): destructive call, saver creation, (local, attribute access) on a future-carrying path, filter clause, owner of an asynchronous saver"
ASSUMPTIONS = ["concurrent.futures.Future exposes result/exception/done/cancel/... only; anything else raises AttributeError"]

DESTRUCTIVE = {"shutil.rmtree", "os.remove", "os.unlink", "os.rmdir", "os.rename", "os.replace", "shutil.move", "os.removedirs"}
# (<tempdir>.cleanup() only removes the object's own temporary directory and mailbox.cleanup() joins
# threads: neither can touch stored data, so `cleanup` is not in this list)
DESTRUCTIVE_METHODS = {"delete_many", "delete_one", "drop", "unlink", "rmdir"}

# (function, call) -> (required provenance atoms of the first argument / receiver, required guard
# literals [(text-substring, polarity)], reason)
TABLE = {
    ("FileSaver.__init__", "shutil.rmtree"): [
        (["dirname"], [("os.path.exists(dirname)", True)], "overwriting existing data was decided by find(write=True)/_can_overwrite"),
        (["self.tempdirname"], [("os.path.exists(self.tempdirname)", True)], "stale temporary directory of a crashed writer"),
    ],
    ("FileSaver._close", "os.remove"): [(["self.tempdirname"], [], "per-chunk metadata files inside the temporary directory")],
    ("FileSaver._close", "os.rename"): [(["self.tempdirname"], [], "publication")],
    ("save_file", "os.rename"): [(["str:_temp"], [], "publication of a chunk file")],
    ("_move_directories", "shutil.rmtree"): [(["source_directory"], [("replace", True)], "source removed only when replacement is requested")],
    ("_move_directories", "shutil.move"): [(["dest_directory"], [("replace", True)], "destination moved over the source only when replacement is requested")],
    ("ZipDirectory.zip_dir", "shutil.rmtree"): [(["input_dir"], [("delete", True)], "explicitly requested by the caller")],
    ("MongoSaver.__init__", "delete_many"): [(["key"], [], "own key, overwrite decided by the frontend")],
}
# .cleanup() of mailboxes is a thread join, not destructive
NOT_DESTRUCTIVE_RECEIVERS = {"m", "mailbox", "self.mailboxes"}


def run(chk):
    repo = chk.repo
    destructive_calls(chk, repo, "C16.R1")
    r2_saver_creation(chk, repo)
    r3_futures(chk, repo)
    r4_copy_targets(chk, repo)
    r5_async_saver_outcome(chk, repo)
    r6_rechunker_order(chk, repo)
    r7_streams(chk, repo)
    r8_per_chunk_guard(chk, repo)


# ------------------------------------------------------------------------------------ R1
def destructive_calls(chk, repo, rule):
    chk.describe(rule, "only reviewed code may delete / rename / move stored data, each under its reviewed guard (closed table)")
    n = 0
    for m in repo.modules.values():
        for f in m.functions.values():
            cfg = None
            for c in (x for x in walk_body(f.node) if isinstance(x, ast.Call)):
                cn = call_name(c) or ""
                short = None
                arg = None
                if cn in DESTRUCTIVE:
                    short, arg = cn, (c.args[0] if c.args else None)
                elif isinstance(c.func, ast.Attribute) and c.func.attr in DESTRUCTIVE_METHODS:
                    recv = dotted(c.func.value) or ""
                    short, arg = c.func.attr, (c.args[0] if c.args else c.func.value)
                if short is None:
                    continue
                n += 1
                st = stmt_of(c)
                entries = TABLE.get((f.qualname, short))
                if entries is None:
                    chk.fail(rule, f, st, f"{short}(...) is not in the table of reviewed destructive calls: new code that can delete or move stored data",
                             site={"function": f.qualname, "call": short, "construct": head(st, 120)})
                    continue
                cfg = cfg or cfg_of(f)
                prov = prov_at(f, st, arg) if arg is not None else set()
                facts = cfg.guard_facts(cfg.node_of(st))
                matched = False
                why_not = ""
                for need_prov, need_guards, reason in entries:
                    if not all(p in prov for p in need_prov):
                        why_not = f"target does not derive from {need_prov}"
                        continue
                    missing = [g for g in need_guards if g not in facts]
                    if missing:
                        why_not = f"not guarded by {missing}"
                        continue
                    matched = True
                    chk.ok(rule, f"{f.qualname}: {short}({norm(arg)[:40] if arg is not None else ''}) - {reason}")
                    break
                if not matched:
                    chk.fail(rule, f, st, f"reviewed destructive call lost its guard or changed its target ({why_not})",
                             site={"function": f.qualname, "call": short, "construct": head(st, 120)})
    chk.floor(rule, "destructive call sites", n, 8)


# ------------------------------------------------------------------------------------ R2
def r2_saver_creation(chk, repo):
    chk.describe("C16.R2", "every direct backend saver creation is preceded by find(write=True) for that key on the target frontend, or by the destination-is-not-source guard of the rechunker")
    sites = []
    for m in repo.modules.values():
        for f in m.functions.values():
            for c in (x for x in walk_body(f.node) if isinstance(x, ast.Call)):
                if isinstance(c.func, ast.Attribute) and c.func.attr == "_saver" and dotted(c.func.value) != "self":
                    sites.append((f, c))
    chk.floor("C16.R2", "direct _saver(...) call sites", len(sites), 3)
    for f, c in sites:
        st = stmt_of(c)
        cfg = cfg_of(f)
        node = cfg.node_of(st)
        key = c.args[0] if c.args else None
        if f.qualname == "rechunker" and f.path == RECH:
            # dest != source guard: a raise under a test comparing realpath/samefile of both
            ok = False
            for g in cfg.dominating_guards(node):
                if g.test is None or g.polarity is not False:
                    continue
                a = atoms(g.test)
                if {"dest_directory", "source_directory"} <= a and ("call:os.path.realpath" in a or "call:os.path.samefile" in a or "call:os.path.abspath" in a):
                    tg = cfg.guards_of(g.owner, True)
                    if cfg.exit_return not in cfg.reachable(tg, "n", avoid=lambda x: x in cfg.guards_of(g.owner, False)) and any(isinstance(x.stmt, ast.Raise) for x in cfg.reachable(tg, "n") if x.kind == "stmt"):
                        ok = True
            # the compared destination must be the one handed to _saver (no rebinding in between)
            reb = [n for n in cfg.reachable([cfg.entry], "n") if n.kind == "stmt" and isinstance(n.stmt, ast.Assign) and any("dest_directory" in {x.id for x in ast.walk(t) if isinstance(x, ast.Name)} for t in n.stmt.targets)]
            for r in reb:
                for g in cfg.dominating_guards(node):
                    if g.test is not None and "dest_directory" in atoms(g.test) and "source_directory" in atoms(g.test):
                        if g in cfg.reachable([r], "n"):
                            continue
                        ok = False
            chk.check(ok and key is not None and norm(key) == "dest_directory", "C16.R2", f, st,
                      "the rechunker creates its saver without having ruled out that the destination is the source directory: FileSaver.__init__ then deletes the source although replace=False",
                      site_text="rechunker: _saver(dest_directory) dominated by the dest-is-not-source guard",
                      site={"function": f.qualname, "construct": head(st, 120)})
            continue
        # find(write=True) whose result provides the key
        okp = False
        prov = prov_at(f, st, key) if key is not None else set()
        finds = [n for n in cfg.stmt_nodes() if not isinstance(n.stmt, COMPOUND) and node_calls(n, lambda cc, nm: nm.split(".")[-1] == "find" and kw(cc, "write") is not None and norm(kw(cc, "write")) == "True")]
        dom = cfg.dominators("n")
        for fn in finds:
            if fn in dom[node] and isinstance(fn.stmt, ast.Assign):
                names = {x.id for t in fn.stmt.targets for x in ast.walk(t) if isinstance(x, ast.Name)}
                if key is not None and names & {x.id for x in ast.walk(key) if isinstance(x, ast.Name)}:
                    okp = True
        chk.check(okp, "C16.R2", f, st, "saver created directly on a backend without find(write=True) on the frontend (no exists / overwrite / readonly decision): existing data can be destroyed",
                  site_text=f"{f.qualname}: `{head(st, 50)}` key comes from a dominating find(..., write=True)",
                  site={"function": f.qualname, "construct": head(st, 120)})
    # StorageFrontend.saver itself
    fs = repo.func("StorageFrontend.saver", COMMON)
    fcfg = cfg_of(fs)
    calls = [n for n in fcfg.stmt_nodes() if node_calls(n, lambda cc, nm: isinstance(cc.func, ast.Attribute) and cc.func.attr == "saver")]
    finds = [n for n in fcfg.stmt_nodes() if node_calls(n, lambda cc, nm: nm == "self.find" and kw(cc, "write") is not None and norm(kw(cc, "write")) == "True")]
    chk.check(bool(calls) and bool(finds) and all(any(x in fcfg.dominators("n")[c] for x in finds) for c in calls), "C16.R2", fs, None, "StorageFrontend.saver creates a backend saver without find(write=True)", site_text="StorageFrontend.saver: find(write=True) dominates backend.saver")


# ------------------------------------------------------------------------------------ R3
FUTURE_API = {"result", "exception", "done", "cancel", "cancelled", "running", "add_done_callback", "set_result", "set_exception"}


def future_misuse(func):
    """[(stmt, name, attr)] - attribute accesses outside the Future API on a local that holds the
    result of <x>.submit(...) on a feasible path."""
    cfg = cfg_of(func)
    has_submit = any(isinstance(c.func, ast.Attribute) and c.func.attr == "submit" for c in calls_in(func.node))
    if not has_submit:
        return [], 0
    found = {}
    n_uses = [0]

    def absval(e):
        if isinstance(e, ast.Call) and isinstance(e.func, ast.Attribute) and e.func.attr == "submit":
            return "future"
        return "other"

    def visit(node, env, facts):
        if node.kind != "stmt":
            return
        from ..rules import own_exprs

        for e in own_exprs(node.stmt):
            for x in ast.walk(e):
                if isinstance(x, ast.Attribute) and isinstance(x.value, ast.Name) and isinstance(x.ctx, ast.Load):
                    if env.get(x.value.id) == "future":
                        n_uses[0] += 1
                        if x.attr not in FUTURE_API:
                            found[(id(node.stmt), x.value.id, x.attr)] = (node.stmt, x.value.id, x.attr)
                elif isinstance(x, ast.Subscript) and isinstance(x.value, ast.Name) and env.get(x.value.id) == "future":
                    found[(id(node.stmt), x.value.id, "[]")] = (node.stmt, x.value.id, "[...]")

    def transfer(node, env, facts):
        if node.kind == "stmt":
            s = node.stmt
            if isinstance(s, ast.Assign):
                for t in s.targets:
                    if isinstance(t, ast.Name):
                        env[t.id] = absval(s.value)
                    elif isinstance(t, (ast.Tuple, ast.List)):
                        for x in ast.walk(t):
                            if isinstance(x, ast.Name):
                                env[x.id] = "other"
            elif isinstance(s, (ast.For, ast.AsyncFor)):
                for x in ast.walk(s.target):
                    if isinstance(x, ast.Name):
                        env[x.id] = "other"
            elif isinstance(s, ast.AugAssign) and isinstance(s.target, ast.Name):
                env[s.target.id] = "other"
        return env

    explore(cfg, transfer=transfer, visit=visit, kinds="nr")
    return list(found.values()), n_uses[0]


def r3_futures(chk, repo):
    chk.describe("C16.R3", "a value obtained from executor.submit is used only through the Future API on every feasible path (path-sensitive over correlated parameter tests)")
    n_funcs = 0
    for m in repo.modules.values():
        for f in m.functions.values():
            if not any(isinstance(c.func, ast.Attribute) and c.func.attr == "submit" for c in calls_in(f.node)):
                continue
            n_funcs += 1
            bad, uses = future_misuse(f)
            for st, name, attr in bad:
                chk.fail("C16.R3", f, st, f"`{name}` is a concurrent.futures.Future on a feasible path here, `.{attr}` is not part of its API: AttributeError at run time (only with an executor)",
                         site={"function": f.qualname, "construct": head(st, 120), "attr": attr})
            if not bad:
                chk.ok("C16.R3", f"{f.qualname}: submit() result used through the Future API only ({uses} uses on future-carrying paths)", nontrivial=True)
    chk.floor("C16.R3", "functions that submit work to an executor", n_funcs, 4)


def fixtures():
    src = (
        "def f(self, executor, rechunk):\n"
        "    if executor is None:\n"
        "        chunk = self.read()\n"
        "    else:\n"
        "        chunk = executor.submit(self.read)\n"
        "    if not rechunk:\n"
        "        yield chunk\n"
        "    else:\n"
        "        yield chunk.data\n"
    )
    from ..index import set_parents

    tree = ast.parse(src)
    set_parents(tree)

    class F:
        node = tree.body[0]
        qualname = "fixture.f"

    bad, _ = future_misuse(F)
    src2 = src.replace("if executor is None:", "if executor is None or rechunk:")
    tree2 = ast.parse(src2)
    set_parents(tree2)

    class G:
        node = tree2.body[0]
        qualname = "fixture.g"

    good, _ = future_misuse(G)
    return [
        {"fixture": "future .data access (pre-fix shape)", "rule": "C16.R3", "fired": len(bad) == 1},
        {"fixture": "correlated guard prunes the infeasible path (post-fix shape stays silent)", "rule": "C16.R3", "fired": len(good) == 0},
    ]


# ------------------------------------------------------------------------------------ R4
def r4_copy_targets(chk, repo):
    chk.describe("C16.R4", "copy / merge targets are exactly the frontends that do not hold the data yet, accept the data type and are writable; the copy reads source metadata and data under one key")
    f = repo.func("Context._get_target_sf", CONTEXT)
    comps = [n for n in walk_body(f.node) if isinstance(n, ast.ListComp)]
    chk.need(len(comps) >= 1, "C16.R4: filter comprehension in Context._get_target_sf not found")
    conds = set()
    for c in comps:
        for g in c.generators:
            for cond in g.ifs:
                for t, p in literals(cond, True):
                    conds.add((t, p))
    texts = {t for t, p in conds}
    chk.check(any(t.startswith("self._is_stored_in_sf(") for t, p in conds if p is False), "C16.R4", f, None, "frontends that already hold the data are not excluded from the copy targets (their data would be overwritten or DataExistsError raised)", site_text="_get_target_sf: not already stored")
    chk.check(any("._we_take(" in t for t, p in conds if p is True), "C16.R4", f, None, "frontends that do not accept the data type are not excluded", site_text="_get_target_sf: frontend takes the data type")
    chk.check(any((t.endswith(".readonly is False") and p is True) or (t.endswith(".readonly") and p is False) for t, p in conds), "C16.R4", f, None, "readonly frontends are not excluded from the copy targets", site_text="_get_target_sf: not readonly")
    cp = repo.func("Context.copy_to_frontend", CONTEXT)
    from ..pattern import find as pfind, pmatch
    sv = [c for c in calls_in(cp.node) if isinstance(c.func, ast.Attribute) and c.func.attr == "_saver" and len(c.args) >= 2 and isinstance(c.args[1], ast.Name)]
    MD = sv[0].args[1].id if sv else None
    mdd = pfind(cp.node, f"{MD} = L_be.get_metadata(L_key)") if MD else []
    chk.check(len(mdd) == 1, "C16.R4", cp, None, "metadata given to the target saver is not the source's metadata", site_text="copy_to_frontend: md = <source backend>.get_metadata(<source key>)")
    if mdd:
        BE, KEY = mdd[0][1]["L_be"], mdd[0][1]["L_key"]
        lds = [st for st, b in pfind(cp.node, f"L_ld = {BE}.loader({KEY})")]
        chk.check(bool(lds), "C16.R4", cp, None, "data is not loaded from the key whose metadata is copied", site_text="copy_to_frontend: loader = <source backend>.loader(<source key>)")
        fnd = pfind(cp.node, f"(L_s, {KEY}) = L_sf.find(L_dk)")
        okf = bool(fnd) and bool(pfind(cp.node, f"{BE} = {fnd[0][1]['L_sf']}._get_backend({fnd[0][1]['L_s']})")) and bool(pfind(cp.node, f"{fnd[0][1]['L_sf']} = self.get_source_sf(run_id, target, should_exist=True)[0]"))
        chk.check(okf, "C16.R4", cp, None, "source key is not looked up (with the broken-data check) on the source frontend", site_text="copy_to_frontend: <source frontend>.find(data_key) -> backend, key")
    ex = [n for n in walk_body(cp.node) if isinstance(n, ast.Raise) and "DataNotAvailable" in norm(n.exc)] + [c for c in calls_in(cp.node) if (call_name(c) or "").endswith("_check_copy_to_frontend_kwargs")]
    chk.check(bool(ex), "C16.R4", cp, None, "copy does not verify that the source exists", site_text="copy_to_frontend: argument / existence check")


# ------------------------------------------------------------------------------------ R5
def r5_async_saver_outcome(chk, repo):
    chk.describe("C16.R5", "whoever runs Saver.save_from in another thread inspects the saver's got_exception after the threads are joined, before reporting success or moving data")
    owners = []
    for m in repo.modules.values():
        for f in m.functions.values():
            for c in (x for x in walk_body(f.node) if isinstance(x, ast.Call)):
                if isinstance(c.func, ast.Attribute) and c.func.attr == "add_reader" and c.args:
                    a = c.args[0]
                    tgt = a.args[0] if isinstance(a, ast.Call) and (call_name(a) or "").endswith("partial") and a.args else a
                    if isinstance(tgt, ast.Attribute) and tgt.attr == "save_from":
                        owners.append((f, c))
    chk.floor("C16.R5", "places that start save_from in a thread", len(owners), 2)
    for f, c in owners:
        # scope: the function itself, or - for methods - all methods of the class
        scope = [f]
        if f.cls is not None:
            scope = [g for g in f.cls.methods.values()]
        ok = False
        for g in scope:
            cfg = cfg_of(g)
            joins = [n for n in cfg.stmt_nodes() if (isinstance(n.stmt, ast.For) and any((call_name(x) or "").endswith(".cleanup") for s in n.stmt.body for x in calls_in(s))) or (not isinstance(n.stmt, COMPOUND) and node_calls(n, lambda cc, nm: nm.endswith(".cleanup")))]
            looks = [n for n in cfg.stmt_nodes() if isinstance(n.stmt, (ast.If, ast.For)) and "got_exception" in norm(n.stmt) and any(isinstance(x, ast.Raise) for x in ast.walk(n.stmt))]
            if not joins or not looks:
                continue
            # on every normal path from the (last) join to the normal exit, the inspection is passed
            okp, _ = cfg.every_path(joins, [cfg.exit_return], lambda n: n in looks, "n")
            if okp:
                ok = True
        chk.check(ok, "C16.R5", f, stmt_of(c), "a saver is run in its own thread but its outcome (got_exception) is not inspected after joining: a failed save is reported as success" + (" and, in the rechunker, the source is replaced by incomplete data" if f.path == RECH else ""),
                  site_text=f"{f.qualname}: got_exception inspected after cleanup() on every normal path",
                  site={"function": f.qualname, "construct": "save_from in a thread"})


# ------------------------------------------------------------------------------------ R6
def r6_rechunker_order(chk, repo):
    chk.describe("C16.R6", "the rechunker moves / removes only after the destination was verified, removes the source before moving, and only under `replace`")
    f = repo.func("rechunker", RECH)
    cfg = cfg_of(f)
    mv = [n for n in cfg.stmt_nodes() if not isinstance(n.stmt, COMPOUND) and node_calls(n, lambda c, nm: nm == "_move_directories")]
    chk.floor("C16.R6", "_move_directories call sites", len(mv), 1)
    ex = [n for n in cfg.stmt_nodes() if not isinstance(n.stmt, COMPOUND) and node_calls(n, lambda c, nm: nm == "_exhaust_generator")]
    for m in mv:
        facts = cfg.guard_facts(m)
        chk.check(("os.path.exists(dest_directory)", True) in facts, "C16.R6", f, m.stmt, "source can be replaced although the rechunked destination does not exist", site_text="rechunker: _move_directories after `os.path.exists(dest_directory)`")
        chk.check(bool(ex) and all(e in cfg.dominators("n")[m] for e in ex), "C16.R6", f, m.stmt, "directories are moved before the data was written", site_text="rechunker: _exhaust_generator dominates _move_directories")
        c = [c for c in own_calls(m.stmt) if call_name(c) == "_move_directories"][0]
        chk.check([norm(a) for a in c.args[:3]] == ["replace", "source_directory", "dest_directory"], "C16.R6", f, m.stmt, "arguments of _move_directories are not (replace, source, destination)", site_text="rechunker: _move_directories(replace, source, dest, ...)")
    md = repo.func("_move_directories", RECH)
    mcfg = cfg_of(md)
    rm = [n for n in mcfg.stmt_nodes() if not isinstance(n.stmt, COMPOUND) and node_calls(n, lambda c, nm: nm == "shutil.rmtree")]
    mvs = [n for n in mcfg.stmt_nodes() if not isinstance(n.stmt, COMPOUND) and node_calls(n, lambda c, nm: nm == "shutil.move")]
    chk.check(bool(rm) and bool(mvs) and all(any(r in mcfg.dominators("n")[x] for r in rm) for x in mvs), "C16.R6", md, None, "destination is moved onto the source before the source is removed (shutil.move would nest it inside)", site_text="_move_directories: rmtree(source) dominates move(dest, source)")
    for x in mvs:
        c = [c for c in own_calls(x.stmt) if call_name(c) == "shutil.move"][0]
        chk.check([norm(a) for a in c.args[:2]] == ["dest_directory", "source_directory"], "C16.R6", md, x.stmt, "move direction is not destination -> source", site_text="_move_directories: move(dest, source)")
    ca = repo.func("_check_arguments", RECH)
    acfg = cfg_of(ca)
    r1 = [n for n in acfg.stmt_nodes() if isinstance(n.stmt, ast.Raise) and {("replace", False), ("dest_directory is None", True)} <= acfg.guard_facts(n)]
    chk.check(bool(r1), "C16.R6", ca, None, "no error when neither a destination nor replace is given", site_text="_check_arguments: destination required unless replace")

# ------------------------------------------------------------------------------------ R7
def r7_streams(chk, repo):
    from ..rules import passthrough_conserves, passthrough_generators
    chk.describe("C16.R7", "chunk streams are handled whole: wrapper generators around a loader yield every chunk they take, and a loader that is consumed once per target is created once per target")
    R = "C16.R7"
    n = 0
    for q, p in (("Context.copy_to_frontend", CONTEXT), ("Context.merge_per_chunk_storage", CONTEXT), ("rechunker", RECH)):
        f = repo.func(q, p)
        for fn, take, item, loop in passthrough_generators(f):
            n += 1
            ok, path = passthrough_conserves(fn, take, item, loop)
            chk.check(ok, R, f, take, f"{q}.{fn.name}: a chunk taken from the source can be dropped without being yielded (its rows or its time range never reach the saver)",
                      site_text=f"{q}.{fn.name}: every chunk taken is yielded", site={"function": f"{q}.{fn.name}", "rule": "wrapper conserves the stream"})
            # the wrapper ends only when the source is exhausted
            for st in walk_body(fn):
                if isinstance(st, (ast.Return, ast.Break)) and enclosing(st, (ast.While, ast.For)) is loop:
                    h = enclosing(st, (ast.ExceptHandler,))
                    chk.check(h is not None and h.type is not None and "StopIteration" in norm(h.type), R, f, st, f"{q}.{fn.name}: the wrapper stops although its source is not exhausted", site_text=f"{q}.{fn.name}: ends only on StopIteration")
    chk.floor(R, "wrapper generators around loaders", n, 3)
    from .c03 import decompressors_drain
    decompressors_drain(chk, repo, R)
    # one stream per target: whatever save_from consumes inside a loop over target frontends is created
    # inside that loop (a generator is exhausted by its first consumer)
    for q in ("Context.copy_to_frontend", "Context.merge_per_chunk_storage"):
        cp = repo.func(q, CONTEXT)
        sf = [c for c in calls_in(cp.node) if isinstance(c.func, ast.Attribute) and c.func.attr == "save_from"]
        chk.check(len(sf) >= 1, R, cp, None, f"{q} no longer feeds a saver with save_from", site_text=f"{q}: saver.save_from(<stream>)")
        for c in sf:
            lp = enclosing(c, (ast.For, ast.While))
            if lp is None or enclosing(lp, (ast.FunctionDef,)) is not cp.node:
                chk.ok(R, f"{q}: save_from outside a loop", nontrivial=False)
                continue
            inside = {id(x) for st_ in lp.body for x in ast.walk(st_)}
            local_gens = {x.name for x in ast.walk(cp.node) if isinstance(x, ast.FunctionDef) and x is not cp.node and any(isinstance(y, (ast.Yield, ast.YieldFrom)) for y in ast.walk(x))}
            arg = c.args[0] if c.args else None
            bad = []
            srcs = []
            if isinstance(arg, ast.Name):
                # a name: its binding must be inside the loop
                binds = [st for st in walk_body(cp.node) if isinstance(st, ast.Assign) and any(isinstance(t, ast.Name) and t.id == arg.id for t in st.targets)]
                srcs += binds
                bad += [st for st in binds if id(st) not in inside]
            names = {x.id for a in c.args for x in ast.walk(a) if isinstance(x, ast.Name)}
            for fn in [x for x in ast.walk(cp.node) if isinstance(x, ast.FunctionDef) and x is not cp.node and x.name in names]:
                bound = {a.arg for a in fn.args.args} | {t.id for st in walk_body(fn) for t in ast.walk(st) if isinstance(t, ast.Name) and isinstance(t.ctx, ast.Store)}
                free = {x.id for st in walk_body(fn) for x in ast.walk(st) if isinstance(x, ast.Name) and isinstance(x.ctx, ast.Load) and x.id not in bound}
                gens = [st for st in walk_body(cp.node) if isinstance(st, ast.Assign) and isinstance(st.targets[0], ast.Name) and st.targets[0].id in free and isinstance(st.value, ast.Call) and isinstance(st.value.func, ast.Attribute) and st.value.func.attr in ("loader", "get_iter")]
                srcs += gens
                bad += [st for st in gens if id(st) not in inside]
            chk.check(bool(srcs) or (isinstance(arg, ast.Call) and call_name(arg) in local_gens), R, cp, stmt_of(c), f"{q}: the stream given to save_from does not come from a loader / local generator", site_text=f"{q}: stream = loader or local generator")
            chk.check(not bad, R, cp, bad[0] if bad else stmt_of(c), f"{q}: one stream (a generator) is shared by all target frontends: the first target exhausts it and every further target is written empty and marked complete",
                      site_text=f"{q}: a fresh stream for every target frontend", site={"function": cp.qualname, "rule": "generator created inside the loop that consumes it"})

# ------------------------------------------------------------------------------------ R8
def r8_per_chunk_guard(chk, repo):
    chk.describe("C16.R8", "building a data type chunk by chunk is refused for every plugin in the lineage that looks across chunk boundaries (subclass-aware test), however far downstream of the per-chunk data type it is")
    R = "C16.R8"
    f = repo.func("Context.__assign_chunk_number_to_plugin", CONTEXT)
    cfg = cfg_of(f)
    mod = repo.module(CONTEXT)
    tab = mod.assigns.get("NOT_PER_CHUNK_ALLOWED_PLUGINS")
    members = {norm(e).split(".")[-1] for e in tab.elts} if isinstance(tab, (ast.Tuple, ast.List)) else set()
    chk.check({"LoopPlugin", "OverlapWindowPlugin"} <= members, R, "strax/context.py", None, f"the list of plugin kinds that cannot be computed per chunk no longer contains the loop and overlap-window plugins ({sorted(members)})", site_text="NOT_PER_CHUNK_ALLOWED_PLUGINS contains LoopPlugin, OverlapWindowPlugin")
    raises = []
    for n in cfg.stmt_nodes():
        if not isinstance(n.stmt, ast.Raise):
            continue
        lits = cfg.guard_literals(n)
        for e, pol, g in lits:
            if "NOT_PER_CHUNK_ALLOWED_PLUGINS" in norm(e):
                raises.append((n, e, pol, lits))
    chk.check(len(raises) >= 1, R, f, None, "per-chunk processing is no longer refused for plugins listed in NOT_PER_CHUNK_ALLOWED_PLUGINS", site_text="__assign_chunk_number_to_plugin: raise for not-per-chunk plugins")
    for n, e, pol, lits in raises[:1]:
        okt = pol is True and isinstance(e, ast.Call) and call_name(e) in ("issubclass", "isinstance") and len(e.args) == 2 and norm(e.args[1]) == "NOT_PER_CHUNK_ALLOWED_PLUGINS"
        chk.check(okt, R, f, n.stmt, f"`{norm(e)[:80]}` is not a subclass-aware test: user plugins always subclass the listed kinds, so an identity / membership test never matches", site_text="__assign_chunk_number_to_plugin: issubclass / isinstance against the list", site={"function": f.qualname, "rule": "subclass-aware"})
        lp0 = enclosing(n.stmt, (ast.For,))
        in_lp = {id(x) for x in ast.walk(lp0)} if lp0 is not None else set()
        others = [(x, p_) for x, p_, g in lits if x is not e and id(g.owner) in in_lp]
        direct = [x for x, p_ in others if ".depends_on" in norm(x) and "get_dependencies" not in norm(x)]
        trans = [x for x, p_ in others if "get_dependencies(" in norm(x) and p_ is True]
        PAR = f.params[2] if len(f.params) > 2 else "chunk_number"
        chk.check(not direct and (not others or bool(trans)), R, f, n.stmt, "the refusal only looks at plugins that depend *directly* on the per-chunk data type" + (f" (`{norm(direct[0])[:70]}`)" if direct else "") + ": an overlap / loop plugin further downstream is computed one chunk at a time, without its neighbours, and the merged result differs from the directly made data at every chunk boundary",
                  site_text="__assign_chunk_number_to_plugin: refusal covers transitive dependants", site={"function": f.qualname, "rule": "transitive"})
        lp = enclosing(n.stmt, (ast.For,))
        chk.check(lp is not None and norm(lp.iter).endswith(".lineage"), R, f, n.stmt, "the refusal is not evaluated for every plugin of the target's lineage", site_text="__assign_chunk_number_to_plugin: for every entry of plugin.lineage")
    # the lineage walk (which tags every downstream data type with the chunk numbers) is reached
    # whenever chunk numbers are given: the only early return is `chunk_number is None`
    CN = f.params[2] if len(f.params) > 2 else "chunk_number"
    walks = [n for n in cfg.stmt_nodes() if isinstance(n.stmt, ast.For) and norm(n.stmt.iter).endswith(".lineage")]
    chk.check(len(walks) == 1, R, f, None, "the walk over the target's lineage that records the chunk numbers was not found", site_text="__assign_chunk_number_to_plugin: for last_provide in plugin.lineage")
    for r_ in [n for n in cfg.stmt_nodes() if isinstance(n.stmt, ast.Return)]:
        if walks and r_ in cfg.reachable(walks, "n"):
            continue
        chk.check((f"{CN} is None", True) in cfg.guard_facts(r_), R, f, r_.stmt, "the function can return before the lineage walk although chunk numbers were given (e.g. because the target does not read the per-chunk data type directly): the per-chunk result of a downstream data type is then stored under the key of the whole run, and every later request loads that fragment as the full data",
                  site_text="__assign_chunk_number_to_plugin: early return only for chunk_number is None", site={"function": f.qualname, "rule": "lineage walk always reached"})


WITNESSES = [
    W("per-chunk refusal only for direct dependants (the original defect)", "C16.R8", CONTEXT,
      "if issubclass(p.__class__, NOT_PER_CHUNK_ALLOWED_PLUGINS) and (\n                self.get_dependencies(last_provide) & set(chunk_number)\n            ):", "if issubclass(p.__class__, NOT_PER_CHUNK_ALLOWED_PLUGINS) and (\n                set(p.depends_on) & set(chunk_number)\n            ):"),
    W("indirect dependants keep the whole-run key", "C16.R8", CONTEXT,
      "if len(set(plugin.depends_on) & set(chunk_number)) > 1 and plugin.compute_takes_chunk_i:", "if not (set(plugin.depends_on) & set(chunk_number)):\n            return\n\n        if len(set(plugin.depends_on) & set(chunk_number)) > 1 and plugin.compute_takes_chunk_i:"),
    W("per-chunk refusal by class identity", "C16.R8", CONTEXT,
      "if issubclass(p.__class__, NOT_PER_CHUNK_ALLOWED_PLUGINS) and (", "if p.__class__ in NOT_PER_CHUNK_ALLOWED_PLUGINS and ("),
    W("overlap plugins allowed per chunk", "C16.R8", CONTEXT,
      "NOT_PER_CHUNK_ALLOWED_PLUGINS = (strax.LoopPlugin, strax.OverlapWindowPlugin)", "NOT_PER_CHUNK_ALLOWED_PLUGINS = (strax.LoopPlugin,)"),
    W("load wrapper skips empty chunks", "C16.R7", RECH,
      "t1 = time.time()\n                load_time_seconds.append(t1 - t0)", "t1 = time.time()\n                if not data.nbytes:\n                    continue\n                load_time_seconds.append(t1 - t0)"),
    W("copy wrapper stops at the first empty chunk", "C16.R7", CONTEXT,
      "data.target_size_mb = md[\"chunk_target_size_mb\"]\n                        except StopIteration:", "data.target_size_mb = md[\"chunk_target_size_mb\"]\n                            if not len(data):\n                                return\n                        except StopIteration:"),
    W("one merged stream shared by all merge targets", "C16.R7", CONTEXT,
      "saver.save_from(wrapped_loader(), rechunk=rechunk)", "saver.save_from(_the_loader, rechunk=rechunk)"),
    W("one loader shared by all copy targets", "C16.R7", CONTEXT,
      "for t_sf in target_sf:\n            try:\n                # Need to load a new loader each time since it's a generator\n                # and will be exhausted otherwise.\n                loader = s_be.loader(s_be_key)\n",
      "loader = s_be.loader(s_be_key)\n        for t_sf in target_sf:\n            try:\n"),
    W("rmtree of the source outside `if replace`", "C16.R1", RECH,
      "if replace:\n        print(f\"move {dest_directory} to {source_directory}\")\n        shutil.rmtree(source_directory)",
      "shutil.rmtree(source_directory)\n    if replace:\n        print(f\"move {dest_directory} to {source_directory}\")"),
    W("new destructive site", "C16.R1", CONTEXT,
      "self.log.info(f\"Copy data from {source_sf} to {target_sf}\")", "self.log.info(f\"Copy data from {source_sf} to {target_sf}\")\n        import shutil\n        shutil.rmtree(str(target_sf))"),
    W("FileSaver removes dirname unconditionally", "C16.R1", FILES,
      "if os.path.exists(dirname):\n            print(f\"Removing data in {dirname} to overwrite\")\n            shutil.rmtree(dirname)",
      "print(f\"Removing data in {dirname} to overwrite\")\n        shutil.rmtree(dirname, ignore_errors=True)"),
    W("copy_to_frontend skips find(write=True)", "C16.R2", CONTEXT,
      "t_be_str, t_be_key = t_sf.find(data_key, write=True)\n                target_be = t_sf._get_backend(t_be_str)\n                saver = target_be._saver(t_be_key, md)",
      "t_be_str, t_be_key = t_sf._find(data_key, True, False, (), ())\n                target_be = t_sf._get_backend(t_be_str)\n                saver = target_be._saver(t_be_key, md)"),
    W("rechunker without the dest-is-not-source guard (the original defect)", "C16.R2", RECH,
      "if os.path.realpath(dest_directory) == os.path.realpath(source_directory):\n        raise ValueError(\n            f\"Destination {dest_directory} is the source itself, \"\n            \"rechunk to another location or to a temporary one with replace=True.\"\n        )", "pass"),
    W("read .data of a submitted future (the original defect)", "C16.R3", COMMON,
      "if executor is None or rechunk:\n            # Splitting needs the data itself, not a future", "if executor is None:\n            # Splitting needs the data itself, not a future"),
    W("future attribute access in the file saver", "C16.R3", FILES,
      "return dict(filename=filename), executor.submit(strax.save_file, fn, **kwargs)",
      "fut = executor.submit(strax.save_file, fn, **kwargs)\n            return dict(filename=filename, filesize=fut.nbytes), fut"),
    W("already-stored frontends not excluded", "C16.R4", CONTEXT,
      "not self._is_stored_in_sf(run_id, target, t_sf)\n                and t_sf._we_take(target)", "t_sf._we_take(target)"),
    W("readonly frontends are copy targets", "C16.R4", CONTEXT,
      "and t_sf._we_take(target)\n                and t_sf.readonly is False", "and t_sf._we_take(target)"),
    W("rechunker ignores the saver thread's failure (the original defect)", "C16.R5", RECH,
      "if saver.got_exception:\n        raise saver.got_exception", "pass"),
    W("processor ignores saver failures", "C16.R5", THREADED,
      "if s.got_exception:\n                    self.log.fatal(f\"Caught error while saving {k}!\")\n                    raise s.got_exception", "pass"),
    W("move without checking the destination", "C16.R6", RECH,
      "if not os.path.exists(dest_directory):  # type: ignore\n        raise FileNotFoundError(f\"{dest_directory} not found, did one of the savers die?\")", "pass"),
    W("move before remove", "C16.R6", RECH,
      "shutil.rmtree(source_directory)\n        shutil.move(dest_directory, source_directory)", "shutil.move(dest_directory, source_directory)\n        shutil.rmtree(source_directory)"),
]
