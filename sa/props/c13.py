"""C13 - production is limited by demand and buffer capacity (backpressure).

Decided statically: the capacity gate dominates every insert (eager bound); in lazy mode every
advance of a source is dominated by the fetch gate; the fetch predicate's decision table equals its
specification; lazy mode is only enabled without worker pools, savers of computed types never drive,
and the flow-freely outputs are exactly produced minus required; readers publish their demand
before they wait and withdraw it afterwards.  Not decided: the numeric bound per plugin graph.
"""

import ast

from ..cfg import cfg_of, literals
from ..dataflow import Defs, calls_in, stmt_of
from ..dtable import run as drun
from ..index import AnalysisError, call_name, dotted, enclosing, head, norm, walk_body
from ..monitor import Monitor
from ..pattern import find as pfind, has_fact, local_defined_as, pmatch
from ..rules import COMPOUND, kw, node_calls, own_calls, prov_at
from ..witness import W
from . import c05

MAILBOX = "strax/mailbox.py"
THREADED = "strax/processors/threaded_mailbox.py"

EXPLANATION = (
    "R1 capacity gate (shared with C05.R4): the only heappush is dominated by can_write() true or a "
    "successful wait on it, with can_write = len(_mailbox) < max_messages. R2 lazy fetch gate: in "
    "_send_from and divide_outputs every path to next(source) passes, per gated output, `not lazy`, a "
    "true _can_fetch() or a successful wait_for(_can_fetch), or the flow-freely exemption. R3 "
    "processor wiring: lazy only when max_workers is None/1, MailboxDict and divide_outputs receive "
    "that same flag, savers of computed data subscribe with can_drive = not lazy, flow-freely = "
    "produced - required. R4 exhaustive decision table of _can_fetch. R5 a reader stores its demand "
    "before waiting and clears it before extracting."
)
RULE_TEXT = "one obligation per (rule, site): insert, source advance, wiring argument, table row, demand store"
ASSUMPTIONS = ["max_messages is infinite in lazy mode by construction (Mailbox.__init__), so only the fetch gate limits lazy production"]


def run(chk):
    repo = chk.repo
    mon = Monitor(repo, "Mailbox", config_phase=c05.CONFIG_PHASE)
    mod, cls, funcs = c05._mailbox_funcs(repo)
    c05.r4_capacity(chk, repo, mon, funcs, rule="C13.R1")
    r2_fetch_gate(chk, repo)
    r3_wiring(chk, repo)
    r4_can_fetch_table(chk, repo)
    r5_demand(chk, repo)


def _gate(n, lazy_names=("self.lazy", "lazy")):
    if n.kind != "guard" or n.test is None:
        return False
    for t, pol in literals(n.test, n.polarity):
        if t in lazy_names and pol is False:
            return True
        if t.endswith("._can_fetch()") and pol is True:
            return True
        if ".wait_for(" in t and "_can_fetch" in t and pol is True:
            return True
    return False


def r2_fetch_gate(chk, repo):
    chk.describe("C13.R2", "in lazy mode a source is advanced only after the fetch predicate held (directly or after a successful wait)")
    sf = repo.func("Mailbox._send_from", MAILBOX)
    cfg = cfg_of(sf)
    nx = [n for n in cfg.stmt_nodes() if not isinstance(n.stmt, COMPOUND) and node_calls(n, lambda c, nm: nm == "next")]
    chk.floor("C13.R2", "source advances in _send_from", len(nx), 1)
    loops = [n for n in cfg.stmt_nodes() if isinstance(n.stmt, ast.While)]
    for n in nx:
        lp = enclosing(n.stmt, (ast.While,))
        starts = cfg.guards_of(lp, True) if lp is not None else [cfg.entry]
        ok, path = cfg.every_path(starts, [n], _gate, "n")
        chk.check(ok, "C13.R2", sf, n.stmt, "the sender advances its source in lazy mode without a driving reader having asked for the next message: production is not limited by demand",
                  site_text="_send_from: next(iterable) gated by not lazy / _can_fetch() / wait_for(_can_fetch)", site={"function": sf.qualname, "construct": "fetch gate"})
    # the wait is bounded and its failure raises (C05.R2 judges the form); here: gate is under the lock
    do = repo.func("divide_outputs", MAILBOX)
    dcfg = cfg_of(do)
    nx = [n for n in dcfg.stmt_nodes() if not isinstance(n.stmt, COMPOUND) and node_calls(n, lambda c, nm: nm == "next")]
    chk.floor("C13.R2", "source advances in divide_outputs", len(nx), 1)
    gl = [n for n in dcfg.stmt_nodes() if isinstance(n.stmt, ast.For) and norm(n.stmt.iter) == "outputs" and any("_can_fetch" in norm(s) for s in n.stmt.body)]
    chk.check(len(gl) == 1, "C13.R2", do, None, "gating loop over the outputs not found in divide_outputs", site_text="divide_outputs: one gating loop over outputs")
    for g in gl:
        hdr = g
        gt = dcfg.guards_of(g.stmt, True)

        def gate_or_free(n):
            if _gate(n):
                return True
            if n.kind == "guard" and n.test is not None and n.polarity and pmatch(f"{norm(g.stmt.target)} in flow_freely", n.test) is not None:
                return True
            return False

        ok, path = dcfg.every_path(gt, [hdr], gate_or_free, "n")
        chk.check(ok, "C13.R2", do, g.stmt, "an output that is required downstream is not gated before the multi-output plugin is advanced", site_text="divide_outputs: every output gated (or flow-freely) in each round", site={"function": do.qualname, "construct": "per-output gate"})
        gf = dcfg.guards_of(g.stmt, False)
        for n in nx:
            chk.check(any(x in dcfg.dominators("n")[n] for x in gf), "C13.R2", do, n.stmt, "the multi-output source is advanced before all outputs were gated", site_text="divide_outputs: next(source) after the gating loop")
    # gates are evaluated under the mailbox lock
    mon = Monitor(repo, "Mailbox", config_phase=c05.CONFIG_PHASE)
    for f in (sf, do):
        for c in calls_in(f.node):
            if isinstance(c.func, ast.Attribute) and c.func.attr == "_can_fetch" and not isinstance(getattr(c, "_parent", None), ast.Call):
                chk.check(mon.lexically_held(c), "C13.R2", f, stmt_of(c), "fetch predicate evaluated without the lock", site_text=f"{f.qualname}: _can_fetch() under the lock", nontrivial=False)



DTN_DICTS = {"plugins", "loaders", "savers", "loader_plugins"}
DTN_SEQS = {"provides", "depends_on", "targets"}


def _name_lists(func):
    """Locals of `func` bound to a single data-type *name* (a str): keys of the component dicts and
    elements of provides / depends_on / targets.  Returns {name: binding loop / comprehension}."""
    out = {}

    def bind(target, it, where):
        if isinstance(it, ast.Call) and isinstance(it.func, ast.Attribute) and it.func.attr == "items" and isinstance(it.func.value, ast.Attribute) and it.func.value.attr in DTN_DICTS:
            if isinstance(target, ast.Tuple) and target.elts and isinstance(target.elts[0], ast.Name):
                out[target.elts[0].id] = where
        elif isinstance(it, ast.Attribute) and it.attr in (DTN_DICTS | DTN_SEQS) and isinstance(target, ast.Name):
            out[target.id] = where

    for n in walk_body(func.node):
        if isinstance(n, ast.For):
            bind(n.target, n.iter, n)
        elif isinstance(n, ast.comprehension):
            bind(n.target, n.iter, n)
    return out


def str_as_collection(func):
    """[(node, name)] where a data-type name is iterated character by character."""
    names = _name_lists(func)
    bad = []
    for n in walk_body(func.node):
        if isinstance(n, ast.Call) and isinstance(n.func, ast.Name) and n.func.id in ("set", "list", "tuple", "frozenset", "sorted") and len(n.args) == 1 and isinstance(n.args[0], ast.Name) and n.args[0].id in names:
            bad.append((n, n.args[0].id))
        elif isinstance(n, (ast.For, ast.comprehension)) and isinstance(n.iter, ast.Name) and n.iter.id in names:
            bad.append((n, n.iter.id))
    return names, bad


def plugin_capacity(chk, repo, rule):
    """A plugin that declares max_messages (to cover the chunk lag it introduces) gets exactly that
    capacity on its output mailbox."""
    f = repo.func("ThreadedMailboxProcessor.__init__", THREADED)
    loops = [n for n in walk_body(f.node) if isinstance(n, ast.For) and norm(n.iter) == "self.mailboxes.items()" and isinstance(n.target, ast.Tuple) and len(n.target.elts) == 2]
    ok = False
    why = "no loop over self.mailboxes.items() sets the capacities"
    for lp in loops:
        K, M = norm(lp.target.elts[0]), norm(lp.target.elts[1])
        sets = [st for st in walk_body(lp) if isinstance(st, ast.Assign) and norm(st.targets[0]) == f"{M}.max_messages"]
        own = [st for st in sets if norm(st.value) != "max_messages"]
        if not own:
            continue
        cfg = cfg_of(f)
        for st in own:
            v = st.value
            src = None
            if isinstance(v, ast.Name):
                d = [x for x in walk_body(lp) if isinstance(x, ast.Assign) and norm(x.targets[0]) == v.id]
                src = norm(d[0].value) if len(d) == 1 else None
            else:
                src = norm(v)
            facts = cfg.guard_facts(cfg.node_of(st))
            want = f"components.plugins[{K}].max_messages"
            if src != want:
                why = f"`{norm(st)}` does not give the mailbox the plugin's own max_messages unchanged (value: {src or norm(v)}; expected {want})"
            elif (f"{K} in components.plugins", True) not in facts:
                why = f"the plugin is not looked up under the mailbox's data type `{K}`"
            elif not any(t.endswith(" is not None") and p is True for t, p in facts):
                why = "an undeclared (None) max_messages is not skipped"
            else:
                ok = True
    chk.check(ok, rule, f, None, f"a plugin's declared max_messages does not become the capacity of its output mailbox: {why} - a failure-free graph whose plugin lags more chunks than the default capacity deadlocks",
              site_text="ThreadedMailboxProcessor.__init__: m.max_messages = components.plugins[d].max_messages when declared", site={"function": f.qualname, "rule": "plugin-declared capacity"})


def r3_wiring(chk, repo):
    chk.describe("C13.R3", "lazy mode only without worker pools; the same flag reaches mailboxes and dividers; savers of computed data never drive; flow-freely outputs = produced - required")
    f = repo.func("ThreadedMailboxProcessor.__init__", THREADED)
    cfg = cfg_of(f)
    md0 = [c for c in calls_in(f.node) if call_name(c) == "MailboxDict"]
    LAZY = norm(kw(md0[0], "lazy")) if md0 and isinstance(kw(md0[0], "lazy"), ast.Name) else None
    chk.need(LAZY is not None, "C13.R3: the lazy flag given to MailboxDict is not a local")
    lz = [n for n in cfg.stmt_nodes() if isinstance(n.stmt, ast.Assign) and norm(n.stmt.targets[0]) == LAZY]
    chk.floor("C13.R3", "assignments of the lazy flag", len(lz), 2)
    for n in lz:
        facts = cfg.guard_facts(n)
        v = norm(n.stmt.value)
        if ("max_workers in [None, 1]", True) in facts:
            chk.check(v == "allow_lazy", "C13.R3", f, n.stmt, "without worker pools the lazy flag does not follow allow_lazy", site_text="lazy = allow_lazy when max_workers in [None, 1]")
        else:
            chk.check(v == "False" and ("max_workers in [None, 1]", False) in facts, "C13.R3", f, n.stmt, "lazy mode enabled together with worker pools (futures would be created without demand)", site_text="lazy = False with worker pools", site={"function": f.qualname, "construct": "lazy with executors"})
    md = [c for c in calls_in(f.node) if call_name(c) == "MailboxDict"]
    chk.check(len(md) == 1 and kw(md[0], "lazy") is not None and norm(kw(md[0], "lazy")) == LAZY, "C13.R3", f, None, "mailboxes are not created with the processor's lazy flag", site_text="MailboxDict(lazy=lazy)")
    dv = [c for c in calls_in(f.node) if call_name(c) == "partial" and c.args and (dotted(c.args[0]) or "").endswith("divide_outputs")]
    chk.check(bool(dv) and all(kw(c, "lazy") is not None and norm(kw(c, "lazy")) == LAZY for c in dv), "C13.R3", f, None, "output dividers do not get the processor's lazy flag", site_text="divide_outputs(lazy=lazy)")
    FF = norm(kw(dv[0], "flow_freely")) if dv and isinstance(kw(dv[0], "flow_freely"), ast.Name) else None
    chk.check(bool(dv) and FF is not None and all(norm(kw(c, "flow_freely")) == FF for c in dv), "C13.R3", f, None, "dividers do not get the flow-freely set", site_text="divide_outputs(flow_freely=<flow-freely set>)")
    ff = [n for n in walk_body(f.node) if isinstance(n, ast.Assign) and FF and norm(n.targets[0]) == FF]
    okff = False
    if ff:
        b = pmatch("L_p - L_r", ff[0].value)
        if b and pfind(f.node, f"{b['L_p']} = set(components.loaders)") and pfind(f.node, f"{b['L_r']} = set(components.targets)") and pfind(f.node, f"{b['L_p']}.update(L_pl.provides)") and pfind(f.node, f"{b['L_r']}.update(L_pl.depends_on)"):
            okff = True
    chk.check(okff, "C13.R3", f, ff[0] if ff else None, "flow-freely outputs are not exactly the produced-but-not-required ones", site_text="to_flow_freely = produced - required")
    disc = [n for n in walk_body(f.node) if isinstance(n, ast.For) and isinstance(n.iter, ast.Name) and any(isinstance(c.func, ast.Attribute) and c.func.attr == "add_reader" and any("discarder" in norm(a) for a in c.args) for c in calls_in(n))]
    DISC = disc[0].iter.id if disc else None
    td = [n for n in walk_body(f.node) if isinstance(n, ast.Assign) and DISC and norm(n.targets[0]) == DISC]
    oktd = False
    if td and FF:
        b = pmatch(f"{FF} - L_saved", td[0].value)
        if b and pfind(f.node, f"{b['L_saved']} = set([L_k for L_k, L_v in components.savers.items() if L_v])"):
            oktd = True
    chk.check(oktd, "C13.R3", f, None, "outputs nobody reads are not exactly flow-freely minus saved", site_text="to_discard = to_flow_freely - saved")
    ar0 = [c for c in calls_in(f.node) if isinstance(c.func, ast.Attribute) and c.func.attr == "add_reader" and any("save_from" in norm(a) for a in c.args)]
    CD = norm(kw(ar0[0], "can_drive")) if ar0 and isinstance(kw(ar0[0], "can_drive"), ast.Name) else None
    cd = [n for n in cfg.stmt_nodes() if isinstance(n.stmt, ast.Assign) and CD and norm(n.stmt.targets[0]) == CD]
    chk.floor("C13.R3", "can_drive assignments", len(cd), 2)
    for n in cd:
        facts = cfg.guard_facts(n)
        built = any(p and pmatch("L_d in L_built", ast.parse(t, mode="eval").body) is not None for t, p in facts)
        if built:
            chk.check(norm(n.stmt.value) == f"not {LAZY}", "C13.R3", f, n.stmt, "a saver of computed data may drive production in lazy mode (production is then not limited by the consumer)", site_text="savers of built types: can_drive = not lazy", site={"function": f.qualname, "construct": "saver can_drive"})
    ar = [c for c in calls_in(f.node) if isinstance(c.func, ast.Attribute) and c.func.attr == "add_reader" and any("save_from" in norm(a) for a in c.args)]
    chk.check(bool(ar) and CD is not None and all(kw(c, "can_drive") is not None and norm(kw(c, "can_drive")) == CD for c in ar), "C13.R3", f, None, "savers subscribe without the can_drive decision", site_text="add_reader(save_from, can_drive=can_drive)")
    # the multi-output correction: other outputs than the one the plugin is listed under
    names, bad = str_as_collection(f)
    chk.check(len(names) >= 3, "C13.R3", f, None, "data-type name variables of the wiring code were not recognised (anchor moved)", site_text="wiring: data-type names recognised", nontrivial=False)
    for node, nm in bad:
        chk.fail("C13.R3", f, stmt_of(node), f"the data-type name `{nm}` (a string) is iterated as a collection: `{norm(node)[:60]}` yields its characters, so set arithmetic on data types goes wrong (every output of a multi-output plugin would flow freely and production would no longer be limited by demand)", site={"function": f.qualname, "construct": "str iterated as collection", "name": nm})
    if not bad:
        chk.ok("C13.R3", "wiring: no data-type name is iterated as a collection")
    mm = [n for n, b in pfind(f.node, "L_m.max_messages = max_messages")]
    chk.check(bool(mm), "C13.R3", f, None, "mailbox capacity is not set from the requested max_messages", site_text="m.max_messages = max_messages")
    plugin_capacity(chk, repo, "C13.R3")
    init = repo.func("Mailbox.__init__", MAILBOX)
    icfg = cfg_of(init)
    inf = [n for n in icfg.stmt_nodes() if isinstance(n.stmt, ast.Assign) and norm(n.stmt.targets[0]) == "self.max_messages" and "inf" in norm(n.stmt.value)]
    chk.check(bool(inf) and all(("self.lazy", True) in icfg.guard_facts(n) for n in inf), "C13.R3", init, None, "unbounded capacity outside lazy mode", site_text="Mailbox.__init__: infinite capacity only in lazy mode", nontrivial=False)
    ar_f = repo.func("Mailbox.add_reader", MAILBOX)
    subs = [c for c in calls_in(ar_f.node) if call_name(c) == "self.subscribe"]
    chk.check(len(subs) == 1 and "can_drive" in ar_f.params and kw(subs[0], "can_drive") is not None and norm(kw(subs[0], "can_drive")) == "can_drive", "C13.R3", ar_f, stmt_of(subs[0]) if subs else None, "add_reader does not hand its can_drive argument on to subscribe(): every reader thread (savers included) registers as a driver, so a lazy pipeline keeps producing after the consumer stopped", site_text="Mailbox.add_reader: subscribe(can_drive=can_drive)", site={"function": ar_f.qualname, "rule": "can_drive relayed"})
    rd = repo.func("Mailbox.subscribe", MAILBOX)
    ap = [c for c in calls_in(rd.node) if norm(c.func) == "self._subscriber_can_drive.append"]
    chk.check(len(ap) == 1 and norm(ap[0].args[0]) == "can_drive", "C13.R3", rd, None, "subscriber's drive flag is not recorded", site_text="subscribe: _subscriber_can_drive.append(can_drive)")


def r4_can_fetch_table(chk, repo):
    chk.describe("C13.R4", "decision table of _can_fetch: killed -> True; someone still waits for a message already present -> False; a driver waits -> True; otherwise False")
    f = repo.func("Mailbox._can_fetch", MAILBOX)
    anys = [n for n in walk_body(f.node) if isinstance(n, ast.Call) and call_name(n) == "any"]
    any_text = norm(anys[0]) if len(anys) == 1 else "<missing>"
    chk.check(len(anys) == 1 and pmatch("any([L_x is not None and L_x <= self._lowest_msg_number for L_x in self._subscriber_waiting_for])", anys[0]) is not None, "C13.R4", f, stmt_of(anys[0]) if anys else None, "the 'still waiting for a message we have' test changed", site_text="_can_fetch: any(x is not None and x <= lowest for x in waiting_for)")
    lp = [n for n in walk_body(f.node) if isinstance(n, ast.For)]
    chk.check(len(lp) == 1 and "self._subscriber_can_drive" in norm(lp[0].iter) and "self._subscriber_waiting_for" in norm(lp[0].iter), "C13.R4", f, None, "driver scan does not pair can_drive with waiting_for", site_text="_can_fetch: zip(can_drive, waiting_for)")
    CDV, WFV = "can_drive", "waiting_for"
    if len(lp) == 1 and isinstance(lp[0].target, ast.Tuple) and len(lp[0].target.elts) == 2:
        CDV, WFV = norm(lp[0].target.elts[0]), norm(lp[0].target.elts[1])
    rows = 0
    for killed in (False, True):
        for has_msgs in (False, True):
            for stale in (False, True):
                for drv in (False, True):
                    for wait in (False, True):
                        def oracle(text, node, killed=killed, has_msgs=has_msgs, stale=stale, drv=drv, wait=wait):
                            if text == "self.lazy":
                                return True
                            if text == "self.killed":
                                return killed
                            if text == "len(self._mailbox)":
                                return has_msgs
                            if text == any_text:
                                return stale
                            if text.startswith("for:"):
                                return True
                            if text == CDV:
                                return drv
                            if text == f"{WFV} is not None":
                                return wait
                            return None
                        out = drun(f.node, oracle)
                        want = True if killed else (False if (has_msgs and stale) else bool(drv and wait))
                        rows += 1
                        chk.check(out == ("return", want), "C13.R4", f, None, f"_can_fetch(killed={killed}, messages present={has_msgs}, someone waits for a present message={stale}, driver={drv}, waiting={wait}) gives {out}, specification {want}",
                                  site_text=f"_can_fetch[{killed},{has_msgs},{stale},{drv},{wait}] = {want}", site={"function": f.qualname, "row": f"{killed}/{has_msgs}/{stale}/{drv}/{wait}"})
    chk.exhaustive = True


def r5_demand(chk, repo):
    chk.describe("C13.R5", "a reader records which message it is waiting for before it waits and withdraws the demand before it extracts messages")
    f = repo.func("Mailbox._read", MAILBOX)
    cfg = cfg_of(f)
    sub = f.params[1]
    want = [n for n in cfg.stmt_nodes() if isinstance(n.stmt, ast.Assign) and norm(n.stmt.targets[0]) == f"self._subscriber_waiting_for[{sub}]" and isinstance(n.stmt.value, ast.Name)]
    none = [n for n in cfg.stmt_nodes() if isinstance(n.stmt, ast.Assign) and norm(n.stmt.targets[0]) == f"self._subscriber_waiting_for[{sub}]" and norm(n.stmt.value) == "None"]
    waits = [n for n in cfg.stmt_nodes() if any((call_name(c) or "").endswith("_read_condition.wait_for") for c in own_calls(n.stmt))]
    ext = [n for n in cfg.stmt_nodes() if any(call_name(c) == "self._get_msg" for c in own_calls(n.stmt))]
    # the published number is the one that is extracted next
    counters = {norm(c.args[0]) for n in ext for c in own_calls(n.stmt) if call_name(c) == "self._get_msg" and c.args}
    okw = bool(want) and all(norm(w.stmt.value) in counters for w in want)
    chk.check(okw and bool(waits) and all(any(w in cfg.dominators("n")[x] for w in want) for x in waits), "C13.R5", f, None, "a reader waits without having published which message it needs: the lazy sender never learns about the demand", site_text="_read: demand (the next message number) stored before waiting", site={"function": f.qualname, "construct": "demand before wait"})
    chk.check(bool(none) and bool(ext) and all(any(x in cfg.dominators("n")[e] for x in none) for e in ext), "C13.R5", f, None, "demand is still published while the reader processes messages: the sender keeps fetching for a reader that is not waiting", site_text="_read: demand withdrawn before extraction", site={"function": f.qualname, "construct": "demand withdrawn"})
    for w in want:
        chk.check(any(p is False and t.endswith("()") for t, p in cfg.guard_facts(w)), "C13.R5", f, w.stmt, "demand published although the message is already there", site_text="_read: demand only when the message is not ready", nontrivial=False)


WITNESSES = [
    W("add_reader drops can_drive", "C13.R3", MAILBOX,
      "args=(self.subscribe(can_drive=can_drive),)", "args=(self.subscribe(),)"),
    W("plugin capacity looked up under the mailbox name", "C13.R3", THREADED,
      "if d in components.plugins:\n                max_m = components.plugins[d].max_messages", "if m.name in components.plugins:\n                max_m = components.plugins[m.name].max_messages"),
    W("plugin capacity clamped to the context default", "C13.R3", THREADED,
      "if max_m is not None:\n                    m.max_messages = max_m", "if max_m is not None:\n                    m.max_messages = min(max_m, max_messages)"),
    W("data-type name iterated as characters", "C13.R3", THREADED,
      "reader_data_types = set(strax.to_str_tuple(d))", "reader_data_types = set(d)"),
    W("capacity comparison <=", "C13.R1", MAILBOX,
      "return len(self._mailbox) < self.max_messages or self.killed", "return len(self._mailbox) <= self.max_messages or self.killed"),
    W("source advanced before the fetch gate", "C13.R2", MAILBOX,
      "if self.lazy:\n                    with self._lock:\n                        if not self._can_fetch():", "if self.lazy and i == 0:\n                    with self._lock:\n                        if not self._can_fetch():"),
    W("fetch wait result ignored", "C13.R2", MAILBOX,
      "if not self._fetch_new_condition.wait_for(\n                                self._can_fetch, timeout=self.timeout\n                            ):\n                                raise MailboxReadTimeout(\n                                    f\"{self} could not progress beyond {i}, \"\n                                    \"no driving subscriber requested it.\"\n                                )",
      "self._fetch_new_condition.wait_for(self._can_fetch, timeout=self.timeout)"),
    W("divider gates only the first output", "C13.R2", MAILBOX,
      "if lazy:\n                    with m._lock:\n                        if not m._can_fetch():", "if lazy and d == outputs[0]:\n                    with m._lock:\n                        if not m._can_fetch():"),
    W("lazy with worker pools", "C13.R3", THREADED,
      "else:\n            lazy = False\n            # Use executors for parallelization of computations.", "else:\n            lazy = allow_lazy\n            # Use executors for parallelization of computations."),
    W("savers drive in lazy mode", "C13.R3", THREADED,
      "can_drive = not lazy\n                    rechunk = dtypes_built[d].can_rechunk(d) and allow_rechunk", "can_drive = True\n                    rechunk = dtypes_built[d].can_rechunk(d) and allow_rechunk"),
    W("everything flows freely", "C13.R3", THREADED,
      "to_flow_freely = produced - required", "to_flow_freely = produced"),
    W("fetch when nobody drives", "C13.R4", MAILBOX,
      "if can_drive and waiting_for is not None:\n                return True\n        return False", "if can_drive and waiting_for is not None:\n                return True\n        return True"),
    W("non-drivers trigger fetches", "C13.R4", MAILBOX,
      "if can_drive and waiting_for is not None:", "if waiting_for is not None:"),
    W("stale-waiter test dropped", "C13.R4", MAILBOX,
      "if len(self._mailbox) and any(\n            [x is not None and x <= self._lowest_msg_number for x in self._subscriber_waiting_for]\n        ):\n            return False", "pass"),
    W("demand not published", "C13.R5", MAILBOX,
      "self._subscriber_waiting_for[subscriber_i] = next_number\n                    if self.lazy and self._can_fetch():\n                        self._fetch_new_condition.notify_all()", "pass"),
    W("demand never withdrawn", "C13.R5", MAILBOX,
      "self._subscriber_waiting_for[subscriber_i] = None\n\n                if self.killed:", "if self.killed:"),
]
