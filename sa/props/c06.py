"""C06 - failures reach the caller and never hang the pipeline.

Decided statically: every pipeline thread entry converts exceptions into kills; kill wakes every
waiter; both processors' failure paths kill / close / join / re-raise the *original* exception;
no statement on those paths fails by construction; no broad handler swallows an exception.
Not decided: schedule-dependent liveness beyond this structure (e.g. capacity vs. plugin lag).
"""

import ast

from ..cfg import cfg_of, handler_names, is_catch_all, literals
from ..dataflow import Defs, calls_in, provenance, stmt_of
from ..index import AnalysisError, call_name, dotted, enclosing, head, norm, walk_body
from ..monitor import Monitor
from ..resolve import resolve_callable
from ..rules import (
    COMPOUND,
    catch_all_handlers,
    handler_body_nodes,
    handler_paths_pass,
    kw,
    loop_body_calls,
    node_calls,
    own_calls,
)
from ..witness import W
from . import c05

MAILBOX = "strax/mailbox.py"
THREADED = "strax/processors/threaded_mailbox.py"
SINGLE = "strax/processors/single_thread.py"
COMMON = "strax/storage/common.py"
CONTEXT = "strax/context.py"

EXPLANATION = (
    "Rule-based static analysis of the failure paths: thread entries resolved from "
    "threading.Thread targets through the processor wiring (R1), Mailbox.kill broadcasting to all "
    "condition variables and force-kill semantics (R2), structure of both processors' and "
    "get_iter's exception handlers - what is caught, that the relay variable is assigned on every "
    "handler path, kill loop, join loop, re-raise, saver exception inspection (R4), a path-sensitive "
    "abstract interpretation finding statements that raise TypeError by construction on those paths "
    "(R5), an audit of every catch-all handler in the pipeline modules (R6), and provenance of the "
    "re-raised object back to the caught exception (R7)."
)
RULE_TEXT = (
    "one obligation per (rule, site): thread entry, catch-all handler, kill/cleanup/re-raise "
    "construct, subscript store on a tracked local, raise of MailboxKilled"
)
ASSUMPTIONS = [
    "a generator's .throw(e) re-raises e at its current yield (PEP 342)",
    "Mailbox.cleanup joins all threads of a mailbox",
]


def is_kill_call(c, name):
    last = name.split(".")[-1]
    return last in ("kill", "kill_from_exception", "throw", "kill_spies")


def is_reaction(n):
    """CFG node that reacts to a caught exception: kill / throw / re-raise / record."""
    if n.kind != "stmt":
        return False
    if isinstance(n.stmt, ast.Raise):
        return True
    if loop_body_calls(n, is_kill_call):
        return True
    if isinstance(n.stmt, COMPOUND):
        return False
    if node_calls(n, is_kill_call):
        return True
    # store of the exception where the processor looks for it
    if isinstance(n.stmt, ast.Assign):
        for t in n.stmt.targets:
            if isinstance(t, ast.Attribute) and t.attr == "got_exception":
                return True
    return False


def thread_entries(repo):
    """(FuncInfo, how) for every function that runs as a pipeline thread."""
    out = []
    mb = repo.module(MAILBOX)
    seen = set()
    for f in mb.functions.values():
        for n in walk_body(f.node):
            if isinstance(n, ast.Call) and (call_name(n) or "").endswith("Thread"):
                tgt = kw(n, "target")
                if tgt is None:
                    continue
                if isinstance(tgt, ast.Name) and tgt.id in f.params:
                    # the target is a parameter: resolve it at the call sites of this method
                    for m in repo.modules.values():
                        for g in m.functions.values():
                            for c in walk_body(g.node):
                                if (
                                    isinstance(c, ast.Call)
                                    and isinstance(c.func, ast.Attribute)
                                    and c.func.attr == f.name
                                    and c.args
                                ):
                                    for r in resolve_callable(repo, g, c.args[0]):
                                        if r not in seen:
                                            seen.add(r)
                                            out.append((r, f"{g.qualname}: {f.name}({norm(c.args[0])[:50]})"))
                                    if not resolve_callable(repo, g, c.args[0]):
                                        out.append((None, f"{g.qualname}: {f.name}({norm(c.args[0])[:50]})"))
                else:
                    for r in resolve_callable(repo, f, tgt):
                        if r not in seen:
                            seen.add(r)
                            out.append((r, f"{f.qualname}: Thread(target={norm(tgt)})"))
    return out


def run(chk):
    repo = chk.repo
    r1_thread_entries(chk, repo)
    r2_kill(chk, repo)
    r4_processors(chk, repo)
    r5_definite_failures(chk, repo)
    r6_swallow_audit(chk, repo)
    r7_relay(chk, repo)
    r8_idempotent_close(chk, repo)


# ------------------------------------------------------------------------------------ R1
def r1_thread_entries(chk, repo):
    chk.describe("C06.R1", "every pipeline thread entry turns an exception in its steady-state loop into a kill of the mailboxes it feeds or a throw into its source")
    entries = thread_entries(repo)
    chk.floor("C06.R1", "thread entries", len([e for e in entries if e[0] is not None]), 4)
    for f, how in entries:
        if f is None:
            chk.fail("C06.R1", how.split(":")[0], how, "cannot resolve the callable started as a pipeline thread")
            continue
        cfg = cfg_of(f)
        # steady state = statements inside the loop(s) that advance the source
        main_loops = []
        for n in walk_body(f.node):
            if isinstance(n, (ast.For, ast.AsyncFor)) and isinstance(n.iter, ast.Name) and n.iter.id in f.params:
                main_loops.append(n)
            elif isinstance(n, (ast.While, ast.For)):
                for c in calls_in(n):
                    if call_name(c) == "next" and c.args and isinstance(c.args[0], ast.Name) and c.args[0].id in f.params:
                        main_loops.append(n)
                        break
        loop_nodes = []
        for n in cfg.stmt_nodes():
            if isinstance(n.stmt, (ast.Pass, ast.Break, ast.Continue)):
                continue
            if any(_inside(n.stmt, lp) for lp in main_loops) and _within_func(n.stmt, f.node):
                loop_nodes.append(n)
        if not loop_nodes:
            chk.ok("C06.R1", f"{f.qualname} [{how}]: trivial entry (loop body is empty), nothing downstream to kill", nontrivial=False)
            continue
        handlers = catch_all_handlers(f.node)
        hnodes = {h: cfg.nodes_of(h)[0] for h in handlers if cfg.nodes_of(h)}
        in_handler = set()
        for h in handlers:
            in_handler |= handler_body_nodes(cfg, h)
        bad = None
        for n in loop_nodes:
            if n in in_handler:
                continue
            xs = [m for m, k in cfg.succ[n] if k in "xr"]
            if not xs:
                continue
            if any(m.kind == "raise" for m in xs) and not isinstance(n.stmt, ast.Raise):
                bad = n
                break
            if isinstance(n.stmt, ast.Raise) and any(m.kind == "raise" for m in xs):
                bad = n
                break
        chk.check(
            bad is None,
            "C06.R1",
            f,
            bad.stmt if bad is not None else None,
            "statement in the thread's main loop is not covered by an `except Exception` handler: "
            "an exception here ends the thread silently and the pipeline waits for a timeout",
            site_text=f"{f.qualname} [{how}]: main loop covered by a catch-all handler",
            site={"function": f.qualname, "construct": head(bad.stmt, 160) if bad is not None else ""},
        )
        # outermost catch-all handlers must react on every path
        outer = [h for h in handlers if not any(h is not g and _inside(h, g) for g in handlers)]
        for h in handlers:
            ok, path = handler_paths_pass(cfg, h, is_reaction, "n")
            chk.check(
                ok,
                "C06.R1",
                f,
                h,
                "catch-all handler of a thread entry can complete without killing the mailboxes it "
                "feeds, throwing into its source, or re-raising",
                site_text=f"{f.qualname}: `{head(h, 40)}` kills / throws / re-raises on every path",
                site={"function": f.qualname, "construct": head(h, 80), "what": "handler reaction"},
            )


def _within_func(stmt, fnode):
    return enclosing(stmt, (ast.FunctionDef, ast.AsyncFunctionDef, ast.Lambda)) is fnode


def _inside(a, b):
    n = getattr(a, "_parent", None)
    while n is not None:
        if n is b:
            return True
        n = getattr(n, "_parent", None)
    return False


# ------------------------------------------------------------------------------------ R2
def r2_kill(chk, repo):
    chk.describe("C06.R2", "kill sets the killed flag and wakes all three condition variables in one lock region; an upstream kill is not lost on an already-killed mailbox; senders observe force_killed")
    mon = Monitor(repo, "Mailbox", config_phase=c05.CONFIG_PHASE)
    kill = repo.func("Mailbox.kill", MAILBOX)
    cfg = cfg_of(kill)
    init_attrs, _ = c05.shared_fields(repo)
    conds = sorted(a for a in init_attrs if a.endswith("_condition"))
    stores = [n for n in cfg.stmt_nodes() if isinstance(n.stmt, ast.Assign) and any(norm(t) == "self.killed" for t in n.stmt.targets)]
    chk.need(stores, "C06.R2: Mailbox.kill no longer sets self.killed")
    for s in stores:
        chk.check(mon.held(s.stmt, kill), "C06.R2", kill, s.stmt, "killed flag set outside the lock", site_text="Mailbox.kill: killed set under the lock")
        for c in conds:
            ok, why = c05.notify_follows(mon, kill, s.stmt, c, set())
            chk.check(ok, "C06.R2", kill, s.stmt, f"kill does not wake waiters on {c} ({why}): a blocked thread only ends by timeout",
                      site_text=f"Mailbox.kill: `self.killed = True` -> {c}.notify_all()",
                      site={"function": "Mailbox.kill", "construct": "self.killed = True", "condition": c})
    # reason recorded before waking
    rs = [n for n in cfg.stmt_nodes() if isinstance(n.stmt, ast.Assign) and any(norm(t) == "self.killed_because" for t in n.stmt.targets)]
    chk.check(bool(rs) and all(norm(r.stmt.value) in kill.params for r in rs), "C06.R2", kill, rs[0].stmt if rs else None,
              "kill does not record the reason it was given", site_text="Mailbox.kill: killed_because = reason")
    # upstream kill must take effect even when already killed
    fk = [n for n in cfg.stmt_nodes() if isinstance(n.stmt, ast.Assign) and any(norm(t) == "self.force_killed" for t in n.stmt.targets)]
    chk.need(fk, "C06.R2: Mailbox.kill no longer sets force_killed")
    for n in fk:
        facts = cfg.guard_facts(n)
        blocked = [t for t, pol in facts if t.endswith(".killed")]
        chk.check(not blocked and ("upstream", True) in facts, "C06.R2", kill, n.stmt,
                  "force_killed is only set when the mailbox was not killed before: an upstream kill after a downstream kill would not stop the senders",
                  site_text="Mailbox.kill: force_killed set under `upstream` only, before the double-kill return")
    # sender stops on force kill: raise MailboxKilled dominated by force_killed, before any wait
    send = repo.func("Mailbox.send", MAILBOX)
    scfg = cfg_of(send)
    waits = [n for n in scfg.stmt_nodes() if any((call_name(c) or "").endswith(".wait_for") for c in own_calls(n.stmt))]
    raises = []
    for n in scfg.stmt_nodes():
        if isinstance(n.stmt, ast.Raise) and "MailboxKilled" in norm(n.stmt):
            if ("self.force_killed", True) in scfg.guard_facts(n):
                raises.append(n)
    before = [r for r in raises if not any(r in scfg.reachable([w], "n") for w in waits)]
    after = [r for r in raises if any(r in scfg.reachable([w], "n") for w in waits)]
    chk.check(bool(before), "C06.R2", send, None, "send no longer raises MailboxKilled for a force-killed mailbox before waiting: producers keep producing after an upstream kill",
              site_text="Mailbox.send: raise MailboxKilled under force_killed before the capacity wait")
    chk.check(bool(after), "C06.R2", send, None, "send no longer raises MailboxKilled when force-killed while waiting for room",
              site_text="Mailbox.send: raise MailboxKilled under force_killed after the capacity wait")
    # reader raises when killed
    rd = repo.func("Mailbox._read", MAILBOX)
    rcfg = cfg_of(rd)
    rr = [n for n in rcfg.stmt_nodes() if isinstance(n.stmt, ast.Raise) and "MailboxKilled" in norm(n.stmt) and ("self.killed", True) in rcfg.guard_facts(n)]
    chk.check(bool(rr), "C06.R2", rd, None, "reader no longer raises MailboxKilled when it finds the mailbox killed (downstream would see truncated data)",
              site_text="Mailbox._read: raise MailboxKilled under killed")


# ------------------------------------------------------------------------------------ R4
def _relay_var(f):
    """Name re-raised after the try statement (outside any handler)."""
    for n in walk_body(f.node):
        if isinstance(n, ast.Raise) and n.exc is not None and enclosing(n, (ast.ExceptHandler,)) is None:
            e = n.exc
            while isinstance(e, (ast.Call, ast.Attribute)):
                e = e.func if isinstance(e, ast.Call) else e.value
            if isinstance(e, ast.Name):
                # must be assigned inside a handler
                for h in walk_body(f.node):
                    if isinstance(h, ast.ExceptHandler):
                        for s in ast.walk(h):
                            if isinstance(s, ast.Name) and isinstance(s.ctx, ast.Store) and s.id == e.id:
                                return e.id, n
    return None, None


def r4_processors(chk, repo):
    chk.describe("C06.R4", "processor and get_iter failure paths: broad catch incl. GeneratorExit, relay variable assigned on every handler path, kill loop, join loop, re-raise, saver exception inspection")
    f = repo.func("ThreadedMailboxProcessor.iter", THREADED)
    cfg = cfg_of(f)
    # the try around `yield from`
    tries = [n for n in walk_body(f.node) if isinstance(n, ast.Try) and any(isinstance(x, ast.YieldFrom) for s in n.body for x in ast.walk(s))]
    chk.need(len(tries) == 1, "C06.R4: cannot find the try around `yield from` in ThreadedMailboxProcessor.iter")
    t = tries[0]
    caught = set()
    for h in t.handlers:
        caught |= set(handler_names(h) or ["BaseException"])
    chk.check(("Exception" in caught or "BaseException" in caught), "C06.R4", f, t.handlers[0], "processor does not catch Exception around the final generator", site_text="ThreadedMailboxProcessor.iter: catches Exception")
    chk.check(("GeneratorExit" in caught or "BaseException" in caught), "C06.R4", f, t.handlers[0],
              "processor does not catch GeneratorExit: closing the iterator leaves all pipeline threads running",
              site_text="ThreadedMailboxProcessor.iter: catches GeneratorExit")
    relay, reraise = _relay_var(f)
    chk.check(relay is not None, "C06.R4", f, None, "no re-raise of a variable assigned in the handler after the clean-up: the caller never sees the failure",
              site_text="ThreadedMailboxProcessor.iter: relay variable re-raised after clean-up")
    if relay is None:
        return

    def assigns_relay(n):
        if n.kind != "stmt" or not isinstance(n.stmt, ast.Assign):
            return False
        return any(isinstance(x, ast.Name) and x.id == relay and isinstance(x.ctx, ast.Store) for tg in n.stmt.targets for x in ast.walk(tg))

    for h in t.handlers:
        ok, path = handler_paths_pass(cfg, h, assigns_relay, "n")
        chk.check(ok, "C06.R4", f, h, f"a path through the handler does not assign the relay variable `{relay}`: that failure is neither killed nor re-raised",
                  site_text=f"ThreadedMailboxProcessor.iter: `{relay}` assigned on every handler path")

    def relay_only(facts_nodes):
        for g in facts_nodes:
            if g.test is None:
                continue
            names = {x.id for x in ast.walk(g.test) if isinstance(x, ast.Name)}
            if names - {relay, "isinstance", "GeneratorExit"} or "isinstance" in names and g.polarity is not None and _mentions_type_test_blocking(g, relay):
                return False, g
        return True, None

    # kill loop
    kill_loops = [n for n in cfg.stmt_nodes() if loop_body_calls(n, lambda c, name: name.split(".")[-1] == "kill")]
    chk.check(bool(kill_loops), "C06.R4", f, None, "no loop killing all mailboxes on failure", site_text="ThreadedMailboxProcessor.iter: kill loop over all mailboxes")
    for kl in kill_loops:
        it = norm(kl.stmt.iter)
        chk.check("self.mailboxes" in it, "C06.R4", f, kl.stmt, "kill loop does not range over all mailboxes", site_text="kill loop ranges over self.mailboxes")
        gs = [g for g in cfg.dominating_guards(kl) if g.test is not None]
        good = [g for g in gs if norm(g.test) == f"{relay} is not None" and g.polarity is True]
        others = [g for g in gs if g not in good]
        chk.check(bool(good) and not others, "C06.R4", f, kl.stmt,
                  "kill loop is not executed for every caught failure (it must depend only on the relay variable being set)"
                  + (f"; extra condition: {norm(others[0].test)}" if others else ""),
                  site_text=f"kill loop guarded only by `{relay} is not None`")
        for s in kl.stmt.body:
            for c in calls_in(s):
                if (call_name(c) or "").split(".")[-1] == "kill":
                    up = kw(c, "upstream")
                    chk.check(up is None or (isinstance(up, ast.Constant) and up.value is True), "C06.R4", f, stmt_of(c),
                              "mailboxes are killed without upstream=True: sender threads keep running", site_text="kill(upstream=True)")
                    rs = kw(c, "reason")
                    chk.check(rs is not None, "C06.R4", f, stmt_of(c), "kill without the reason: readers raise MailboxKilled(None) and the processor cannot unpack it", site_text="kill(reason=...)")
                    # guards inside the loop must not depend on the exception
                    inner = [g for g in cfg.dominating_guards(cfg.node_of(stmt_of(c))) if g.test is not None and g not in gs]
                    badg = [g for g in inner if {x.id for x in ast.walk(g.test) if isinstance(x, ast.Name)} & {relay, "isinstance", "reason"}]
                    chk.check(not badg, "C06.R4", f, stmt_of(c), "kill call inside the loop is conditional on the exception", site_text="kill call unconditional w.r.t. the exception")
    # cleanup loop: on every path from the try statement to any exit
    cleanup = lambda n: loop_body_calls(n, lambda c, name: name.split(".")[-1] == "cleanup")
    cl = [n for n in cfg.stmt_nodes() if cleanup(n)]
    chk.check(bool(cl), "C06.R4", f, None, "threads are never joined", site_text="cleanup loop exists")
    starts = [cfg.nodes_of(h)[0] for h in t.handlers if cfg.nodes_of(h)]
    ok, path = cfg.every_path(starts, [cfg.exit_return, cfg.exit_raise], cleanup, "nr")
    chk.check(ok, "C06.R4", f, None, "after a failure the function can exit without joining the pipeline threads", site_text="every exit after a caught failure passes the cleanup loop")
    if reraise is not None and cl:
        rn = cfg.node_of(reraise)
        dom = cfg.dominators("n")
        chk.check(any(c in dom[rn] for c in cl), "C06.R4", f, reraise, "re-raise happens before the threads are joined", site_text="cleanup dominates the re-raise")
        gs = [g for g in cfg.dominating_guards(rn) if g.test is not None]
        good = [g for g in gs if norm(g.test) == f"{relay} is not None" and g.polarity is True]
        others = [g for g in gs if g not in good]
        chk.check(bool(good) and not others, "C06.R4", f, reraise, "re-raise is conditional on something other than the relay variable being set"
                  + (f" ({norm(others[0].test)})" if others else ""), site_text=f"re-raise guarded only by `{relay} is not None`")
    # normal exit inspects savers
    def saver_check(n):
        if n.kind != "stmt" or not isinstance(n.stmt, ast.For):
            return False
        src = norm(n.stmt)
        return "got_exception" in src and any(isinstance(x, ast.Raise) for x in ast.walk(n.stmt))

    ok, path = cfg.every_path([cfg.entry], [cfg.exit_return], saver_check, "n")
    chk.check(ok, "C06.R4", f, None, "normal completion does not inspect the savers for exceptions: a failed save is reported as success",
              site_text="ThreadedMailboxProcessor.iter: every normal exit passes the got_exception inspection")
    # ... and what it inspects was recorded by the saver thread on every way out of its handler
    from .c04 import failure_recorded
    failure_recorded(chk, repo, "C06.R4")
    # termination without failures: the capacity a plugin asks for (to cover its chunk lag) is honoured
    from .c13 import plugin_capacity
    plugin_capacity(chk, repo, "C06.R4")

    # ---- single thread processor
    s = repo.func("SingleThreadProcessor.iter", SINGLE)
    scfg = cfg_of(s)
    stries = [n for n in walk_body(s.node) if isinstance(n, ast.Try) and any(isinstance(x, ast.YieldFrom) for st in n.body for x in ast.walk(st))]
    chk.need(len(stries) == 1, "C06.R4: cannot find the try around `yield from` in SingleThreadProcessor.iter")
    st = stries[0]
    names = set()
    for h in st.handlers:
        names |= set(handler_names(h) or ["BaseException"])
    chk.check("Exception" in names or "BaseException" in names, "C06.R4", s, st, "single-thread processor does not catch Exception", site_text="SingleThreadProcessor.iter: catches Exception")
    chk.check("GeneratorExit" in names or "BaseException" in names, "C06.R4", s, st, "single-thread processor does not handle GeneratorExit: savers stay open when the iterator is closed", site_text="SingleThreadProcessor.iter: catches GeneratorExit")
    kills = lambda n: node_calls(n, lambda c, name: name.split(".")[-1] == "kill_spies") and not isinstance(n.stmt, COMPOUND)
    for h in st.handlers:
        ok, _ = handler_paths_pass(scfg, h, kills, "nrx")
        # paths ending in raise conform in handler_paths_pass; require kill before the raise too
        body = handler_body_nodes(scfg, h)
        raises = [n for n in body if n.kind == "stmt" and isinstance(n.stmt, ast.Raise) and enclosing(n.stmt, (ast.Try,)) is st]
        dom = scfg.dominators("nrx")
        kn = [n for n in body if kills(n)]
        ok2 = all(any(k in dom.get(r, ()) for k in kn) for r in raises)
        chk.check(ok and ok2 and bool(kn), "C06.R4", s, h, "handler does not close the savers (kill_spies) on every path before re-raising / returning",
                  site_text=f"SingleThreadProcessor.iter: `{head(h, 40)}` closes savers")
        if is_catch_all(h):
            chk.check(any(r.stmt.exc is None for r in raises), "C06.R4", s, h, "exception is not re-raised to the caller (bare raise expected)", site_text="SingleThreadProcessor.iter: bare re-raise")

    # ---- Context.get_iter
    g = repo.func("Context.get_iter", CONTEXT)
    gcfg = cfg_of(g)
    gtries = [n for n in walk_body(g.node) if isinstance(n, ast.Try) and any(isinstance(x, ast.Yield) for st2 in n.body for x in ast.walk(st2))]
    chk.need(len(gtries) == 1, "C06.R4: cannot find the try around the yield loop of Context.get_iter")
    gt = gtries[0]
    gn = set()
    for h in gt.handlers:
        gn |= set(handler_names(h) or ["BaseException"])
    chk.check(("Exception" in gn or "BaseException" in gn) and ("GeneratorExit" in gn or "BaseException" in gn), "C06.R4", g, gt,
              "get_iter does not relay both consumer exceptions and GeneratorExit to the processor", site_text="Context.get_iter: handles Exception and GeneratorExit")
    throws = lambda n: node_calls(n, lambda c, name: name.split(".")[-1] == "throw") and not isinstance(n.stmt, COMPOUND)
    for h in gt.handlers:
        ok, _ = handler_paths_pass(gcfg, h, throws, "n")
        body = handler_body_nodes(gcfg, h)
        has = any(throws(n) for n in body)
        chk.check(ok and has, "C06.R4", g, h, "handler does not throw the exception into the processor generator: pipeline threads are not stopped",
                  site_text=f"Context.get_iter: `{head(h, 40)}` throws into the processor")
        if is_catch_all(h):
            ok3, _ = handler_paths_pass(gcfg, h, lambda n: False, "n")
            chk.check(ok3, "C06.R4", g, h, "a consumer-side exception can be swallowed: the handler may complete normally", site_text="Context.get_iter: Exception handler always raises")


def _mentions_type_test_blocking(g, relay):
    return False


# ------------------------------------------------------------------------------------ R5
R5_SCOPE = [
    ("ThreadedMailboxProcessor.iter", THREADED),
    ("SingleThreadProcessor.iter", SINGLE),
    ("Context.get_iter", CONTEXT),
    ("Saver.save_from", COMMON),
    ("Saver.close", COMMON),
    ("Mailbox.kill_from_exception", MAILBOX),
    ("Mailbox.kill", MAILBOX),
    ("Mailbox._send_from", MAILBOX),
    ("divide_outputs", MAILBOX),
    ("SaverSpy.close", SINGLE),
    ("PostOffice.kill_spies", "strax/processors/post_office.py"),
]


def _absval(e):
    if isinstance(e, ast.Tuple):
        return "tuple"
    if isinstance(e, ast.Constant) and e.value is None:
        return "none"
    if isinstance(e, ast.Constant) and isinstance(e.value, (str, int, float, bytes)):
        return "scalar"
    if isinstance(e, (ast.List, ast.Dict, ast.ListComp, ast.DictComp)):
        return "mutable"
    return "unknown"


def definite_failures(func):
    """Path-sensitive abstract interpretation over {none, tuple, scalar, mutable, unknown} for
    local names; reports subscript stores into a value that is none/tuple/scalar on that path."""
    cfg = cfg_of(func)
    findings = []
    seen = set()
    start = (cfg.entry, frozenset())
    stack = [start]
    seen.add(start)
    reported = set()
    while stack:
        node, st = stack.pop()
        env = dict(st)
        if node.kind == "stmt":
            s = node.stmt
            # subscript stores
            tgts = []
            if isinstance(s, ast.Assign):
                tgts = s.targets
            elif isinstance(s, ast.AugAssign):
                tgts = [s.target]
            for t in tgts:
                for sub in ast.walk(t):
                    if isinstance(sub, ast.Subscript) and isinstance(sub.ctx, ast.Store) and isinstance(sub.value, ast.Name):
                        v = env.get(sub.value.id)
                        if v in ("tuple", "none", "scalar") and id(s) not in reported:
                            reported.add(id(s))
                            findings.append((s, sub.value.id, v))
            # transfer
            if isinstance(s, ast.Assign):
                for t in s.targets:
                    _bind(env, t, s.value)
            elif isinstance(s, ast.AnnAssign) and s.value is not None:
                _bind(env, s.target, s.value)
            elif isinstance(s, (ast.For, ast.AsyncFor)):
                for x in ast.walk(s.target):
                    if isinstance(x, ast.Name):
                        env[x.id] = "unknown"
            elif isinstance(s, ast.AugAssign) and isinstance(s.target, ast.Name):
                env[s.target.id] = "unknown"
        elif node.kind == "handler" and node.owner is not None and getattr(node.owner, "name", None):
            env[node.owner.name] = "unknown"
        elif node.kind == "guard" and node.test is not None:
            feasible = True
            for text, pol in literals(node.test, node.polarity):
                for name, v in list(env.items()):
                    if text == f"{name} is None":
                        if pol and v not in ("none", "unknown"):
                            feasible = False
                        if not pol and v == "none":
                            feasible = False
                    if text == f"{name} is not None":
                        if pol and v == "none":
                            feasible = False
                        if not pol and v not in ("none", "unknown"):
                            feasible = False
            if not feasible:
                continue
        nst = frozenset(env.items())
        for m, k in cfg.succ[node]:
            if k not in "nr":
                # implicit exceptions: only into handlers (they are failure paths we care about)
                if m.kind != "handler":
                    continue
            key = (m, nst)
            if key not in seen:
                seen.add(key)
                stack.append(key)
    return findings


def _bind(env, target, value):
    if isinstance(target, ast.Name):
        env[target.id] = _absval(value)
    elif isinstance(target, (ast.Tuple, ast.List)):
        if isinstance(value, (ast.Tuple, ast.List)) and len(value.elts) == len(target.elts):
            for t, v in zip(target.elts, value.elts):
                _bind(env, t, v)
        else:
            for x in ast.walk(target):
                if isinstance(x, ast.Name):
                    env[x.id] = "unknown"


def r5_definite_failures(chk, repo):
    chk.describe("C06.R5", "no statement on a failure path raises TypeError by construction (subscript store into a tuple / None on that path)")
    n_stores = 0
    for qn, path in R5_SCOPE:
        if not repo.has_func(qn, path):
            raise AnalysisError(f"C06.R5: anchor function {qn} not found in {path}")
        f = repo.func(qn, path)
        stores = [n for n in walk_body(f.node) if isinstance(n, ast.Subscript) and isinstance(n.ctx, ast.Store) and isinstance(n.value, ast.Name)]
        n_stores += len(stores)
        fs = definite_failures(f)
        for s, name, v in fs:
            chk.fail("C06.R5", f, s, f"`{name}` is a {v} on a path reaching this statement: the store raises TypeError and the clean-up after it never runs",
                     site={"function": f.qualname, "construct": head(s, 160)})
        if not fs:
            chk.ok("C06.R5", f"{qn}: {len(stores)} subscript store(s) on locals, none into a tuple/None", nontrivial=bool(stores))


def fixtures():
    """Positive example that must fire on every run (the rule's expected count on the tree is 0)."""
    src = (
        "def f(e):\n"
        "    reason = None\n"
        "    if isinstance(e, KeyError):\n"
        "        reason = e.args[0]\n"
        "    else:\n"
        "        reason = (e.__class__, e, None)\n"
        "    if e is not None:\n"
        "        reason[2] = 'x'\n"
    )
    tree = ast.parse(src)
    from ..index import set_parents

    set_parents(tree)

    class F:
        node = tree.body[0]
        qualname = "fixture.f"

    fs = definite_failures(F)
    return [{"fixture": "tuple item assignment on the else-path", "rule": "C06.R5", "fired": len(fs) == 1}]


# ------------------------------------------------------------------------------------ R6
R6_MODULES = [MAILBOX, THREADED, SINGLE, "strax/processors/post_office.py", COMMON, "strax/io.py", "strax/storage/files.py", "strax/plugins/parrallel_source_plugin.py"]


def r6_swallow_audit(chk, repo):
    chk.describe("C06.R6", "every handler catching Exception/BaseException/everything in the pipeline modules re-raises, kills, throws into its source or records the exception, on every path")
    n = 0
    funcs = []
    for p in R6_MODULES:
        funcs += list(repo.module(p).functions.values())
    funcs.append(repo.func("Context.get_iter", CONTEXT))
    for f in funcs:
        hs = catch_all_handlers(f.node)
        if not hs:
            continue
        cfg = cfg_of(f)
        relay, _rr = _relay_var(f)

        def reacts(node, relay=relay):
            if is_reaction(node):
                return True
            # the processor's idiom: store the exception in a local that is re-raised after clean-up
            if relay and node.kind == "stmt" and isinstance(node.stmt, ast.Assign):
                return any(isinstance(x, ast.Name) and x.id == relay for tg in node.stmt.targets for x in ast.walk(tg))
            return False

        for h in hs:
            if not cfg.nodes_of(h):
                continue
            n += 1
            ok, path = handler_paths_pass(cfg, h, reacts, "n")
            chk.check(ok, "C06.R6", f, h, "broad exception handler can complete normally without re-raising, killing, throwing or recording: the failure is swallowed",
                      site_text=f"{f.qualname}: `{head(h, 50)}` reacts on every path",
                      site={"function": f.qualname, "construct": head(h, 80), "what": "swallow"})
    chk.floor("C06.R6", "catch-all handlers", n, 8)
    # a loop that kills several mailboxes must reach all of them: kill_from_exception re-raises by
    # default, which would end the loop after the first mailbox
    nk = 0
    for f in funcs:
        for lp in [x for x in walk_body(f.node) if isinstance(x, ast.For)]:
            if enclosing(lp, (ast.ExceptHandler,)) is None:
                continue
            for c in [c for st in lp.body for c in calls_in(st) if isinstance(c.func, ast.Attribute) and c.func.attr == "kill_from_exception"]:
                nk += 1
                rr = kw(c, "reraise")
                chk.check(rr is not None and isinstance(rr, ast.Constant) and rr.value is False, "C06.R6", f, stmt_of(c), "kill_from_exception re-raises (reraise defaults to True) inside the loop over the mailboxes to kill: only the first mailbox is killed, readers of the other outputs wait for the timeout instead of receiving the failure",
                          site_text=f"{f.qualname}: kill loop uses reraise=False and re-raises after the loop", site={"function": f.qualname, "rule": "kill loop reaches every mailbox"})
    chk.floor("C06.R6", "kill loops in failure handlers", nk, 1)


# ------------------------------------------------------------------------------------ R7
def r7_relay(chk, repo):
    chk.describe("C06.R7", "the object re-raised to the caller is the originally caught exception: kill_from_exception -> killed_because -> MailboxKilled(reason) -> processor unpack -> raise")
    kfe = repo.func("Mailbox.kill_from_exception", MAILBOX)
    exc_param = kfe.params[1] if len(kfe.params) > 1 else "e"
    kills = [c for c in (n for n in walk_body(kfe.node) if isinstance(n, ast.Call)) if call_name(c) == "self.kill"]
    chk.floor("C06.R7", "kill calls in kill_from_exception", len(kills), 2)
    cfg = cfg_of(kfe)
    for c in kills:
        r = kw(c, "reason")
        st = stmt_of(c)
        facts = cfg.guard_facts(cfg.node_of(st))
        if (f"isinstance({exc_param}, MailboxKilled)", True) in facts:
            chk.check(r is not None and norm(r) == f"{exc_param}.args[0]", "C06.R7", kfe, st, "a propagated MailboxKilled does not pass on the original reason", site_text="kill_from_exception: MailboxKilled -> reason=e.args[0]")
        else:
            ok = isinstance(r, ast.Tuple) and len(r.elts) == 3 and norm(r.elts[1]) == exc_param
            chk.check(ok, "C06.R7", kfe, st, "reason does not carry the caught exception object as its second element", site_text="kill_from_exception: reason=(class, e, traceback)")
    # reraise of the same object for non-MailboxKilled
    rr = [n for n in walk_body(kfe.node) if isinstance(n, ast.Raise)]
    chk.check(any(n.exc is None or norm(n.exc) == exc_param for n in rr), "C06.R7", kfe, None, "kill_from_exception no longer re-raises the caught exception in the failing thread", site_text="kill_from_exception: raise e")
    # every raise MailboxKilled in mailbox.py carries killed_because
    n_r = 0
    for f in repo.module(MAILBOX).functions.values():
        for n in walk_body(f.node):
            if isinstance(n, ast.Raise) and isinstance(n.exc, ast.Call) and (call_name(n.exc) or "").endswith("MailboxKilled"):
                n_r += 1
                a = n.exc.args
                chk.check(len(a) == 1 and norm(a[0]).endswith(".killed_because"), "C06.R7", f, n, "MailboxKilled raised without the recorded reason: the original exception is lost", site_text=f"{f.qualname}: raise MailboxKilled(self.killed_because)")
    chk.floor("C06.R7", "raise MailboxKilled sites", n_r, 2)
    # processor: unpack + raise relay var
    f = repo.func("ThreadedMailboxProcessor.iter", THREADED)
    relay, reraise = _relay_var(f)
    if relay is None:
        chk.fail("C06.R7", f, None, "no relay variable")
        return
    defs = Defs(f.node)
    vals = [v for v, s, how in defs.defs.get(relay, []) if v is not None]
    handler_vars = {h.name for h in walk_body(f.node) if isinstance(h, ast.ExceptHandler) and h.name}
    srcs = []
    for v in vals:
        if isinstance(v, ast.Constant) and v.value is None:
            continue
        names = {x.id for x in ast.walk(v) if isinstance(x, ast.Name)}
        srcs.append((v, bool(names & handler_vars) and not any(isinstance(x, ast.Call) and norm(x.func) not in ("isinstance",) and not norm(x.func).endswith("exc_info") for x in ast.walk(v))))
    chk.check(bool(srcs) and all(ok for _v, ok in srcs), "C06.R7", f, reraise, f"relay variable `{relay}` is not derived from the caught exception (a newly constructed exception would replace the original)",
              site_text=f"ThreadedMailboxProcessor.iter: `{relay}` comes from the caught exception / its MailboxKilled payload")
    e = reraise.exc
    root = e
    while isinstance(root, (ast.Call, ast.Attribute)):
        root = root.func if isinstance(root, ast.Call) else root.value
    okr = isinstance(root, ast.Name) and root.id == relay and (not isinstance(e, ast.Call) or norm(e.func) == f"{relay}.with_traceback")
    chk.check(okr, "C06.R7", f, reraise, "the re-raised object is not the relayed exception itself", site_text="raise exc.with_traceback(traceback)")

# ------------------------------------------------------------------------------------ R8
def r8_idempotent_close(chk, repo):
    chk.describe("C06.R8", "closing savers on a failure path cannot itself fail on savers that are already closed (a second close raises RuntimeError and would replace the original exception on its way to the caller)")
    R = "C06.R8"
    po = repo.func("PostOffice.kill_spies", "strax/processors/post_office.py")
    calls = [c for c in calls_in(po.node) if isinstance(c.func, ast.Attribute) and c.func.attr == "kill"]
    chk.check(len(calls) == 1, R, po, None, "kill_spies does not kill every spy", site_text="PostOffice.kill_spies: spy.kill(reason) for every spy")
    spy = repo.cls("SaverSpy")
    kill = None
    for c in repo.mro(spy):
        if "kill" in c.methods:
            kill = c.methods["kill"]
            break
    chk.need(kill is not None, "C06.R8: no kill method on SaverSpy or its bases")
    # does the kill path reach self.saver.close() unguarded?
    def reaches_close(f, guarded, depth=3):
        cfg = cfg_of(f)
        bad = []
        for n in cfg.stmt_nodes():
            if isinstance(n.stmt, COMPOUND):
                continue
            for c in own_calls(n.stmt):
                nm = call_name(c) or ""
                g = guarded or ("self.saver.closed", False) in cfg.guard_facts(n)
                if nm == "self.saver.close":
                    if not g:
                        bad.append((f, n.stmt))
                elif nm.startswith("self.") and nm.count(".") == 1 and depth > 0:
                    m = None
                    for cl in repo.mro(spy):
                        if nm.split(".")[1] in cl.methods:
                            m = cl.methods[nm.split(".")[1]]
                            break
                    if m is not None and m is not f:
                        bad += reaches_close(m, g, depth - 1)
        return bad
    bad = reaches_close(kill, False)
    chk.check(not bad, R, kill, bad[0][1] if bad else None, "SaverSpy.kill closes its saver without checking whether it is already closed: when a failure happens after some saved data type is complete, kill_spies() raises RuntimeError('... saver already closed') inside the except block and the caller never sees the original exception",
              site_text="SaverSpy.kill: saver.close() only if not already closed", site={"function": kill.qualname, "rule": "idempotent close on failure paths"})
    sv = repo.func("Saver.save_from", "strax/storage/common.py")
    scfg = cfg_of(sv)
    fin = [n for n in scfg.stmt_nodes() if not isinstance(n.stmt, COMPOUND) and enclosing(n.stmt, (ast.Try,)) is not None and any(call_name(c) == "self.close" for c in own_calls(n.stmt)) and any(n.stmt is x or any(n.stmt is y for y in ast.walk(x)) for t in walk_body(sv.node) if isinstance(t, ast.Try) for x in t.finalbody)]
    chk.check(bool(fin) and all(("self.closed", False) in scfg.guard_facts(n) for n in fin), R, sv, None, "the saver thread's final close is not guarded by `not self.closed`", site_text="Saver.save_from: finally closes only if not closed")


WITNESSES = [
    W("kill loop aborted by its first re-raise", "C06.R6", MAILBOX,
      "for m in mbs_to_kill:\n            m.kill_from_exception(e, reraise=False)\n        if not isinstance(e, MailboxKilled):\n            raise", "for m in mbs_to_kill:\n            m.kill_from_exception(e)"),
    W("saver thread closes twice", "C06.R8", "strax/storage/common.py",
      "finally:\n            if not self.closed:\n                try:", "finally:\n            if True:\n                try:"),
    W("narrow _send_from's handler", "C06.R1", MAILBOX,
      "except Exception as e:\n            self.kill_from_exception(e)\n        else:",
      "except ValueError as e:\n            self.kill_from_exception(e)\n        else:"),
    W("drop source.throw and re-raise from save_from", ("C06.R1", "C06.R6"), COMMON,
      "self.got_exception = e\n            # Throw the exception back into the mailbox\n            # (hoping that it is still listening...)\n            source.throw(e)\n            raise e",
      "self.log_exception = e"),
    W("divide_outputs handler only logs", ("C06.R1", "C06.R6"), MAILBOX,
      "for m in mbs_to_kill:\n            m.kill_from_exception(e, reraise=False)\n        if not isinstance(e, MailboxKilled):\n            raise",
      "print(e)"),
    W("drop one notify_all from kill", "C06.R2", MAILBOX,
      "self._read_condition.notify_all()\n            self._write_condition.notify_all()\n            self._fetch_new_condition.notify_all()",
      "self._write_condition.notify_all()\n            self._fetch_new_condition.notify_all()"),
    W("force_killed only on first kill", "C06.R2", MAILBOX,
      "if upstream:\n                self.force_killed = True\n            if self.killed:\n                self.log.debug(f\"Double kill on {self.name} = NOP\")\n                return",
      "if self.killed:\n                self.log.debug(f\"Double kill on {self.name} = NOP\")\n                return\n            if upstream:\n                self.force_killed = True"),
    W("send ignores force_killed before waiting", "C06.R2", MAILBOX,
      "if self.force_killed:\n                self.log.debug(f\"Sender found {self.name} force-killed\")\n                raise MailboxKilled(self.killed_because)",
      "pass"),
    W("processor catches only Exception", "C06.R4", THREADED,
      "except (Exception, GeneratorExit) as e:", "except Exception as e:"),
    W("kill loop only for MailboxKilled", "C06.R4", THREADED,
      "# Kill the mailboxes\n            for m in self.mailboxes.values():\n                if m != target:\n                    self.log.debug(f\"Killing {m}\")\n                    m.kill(upstream=True, reason=reason)",
      "if isinstance(exc, strax.MailboxKilled):\n                for m in self.mailboxes.values():\n                    m.kill(upstream=True, reason=reason)"),
    W("kill without upstream", "C06.R4", THREADED,
      "m.kill(upstream=True, reason=reason)", "m.kill(upstream=False, reason=reason)"),
    W("drop the re-raise", "C06.R4", THREADED,
      "self.log.debug(\"Reraising exception\")\n            raise exc.with_traceback(traceback)",
      "self.log.debug(\"Reraising exception\")"),
    W("relay variable not set for plain exceptions", "C06.R4", THREADED,
      "else:\n                exc = e\n                reason = (e.__class__, e, sys.exc_info()[2])",
      "else:\n                reason = (e.__class__, e, sys.exc_info()[2])"),
    W("re-raise before joining threads", "C06.R4", THREADED,
      "self.log.debug(\"Closing threads\")\n        for m in self.mailboxes.values():\n            m.cleanup()",
      "if exc is not None:\n            raise exc.with_traceback(traceback)\n        for m in self.mailboxes.values():\n            m.cleanup()"),
    W("drop the got_exception inspection", "C06.R4", THREADED,
      "for k, saver_list in self.components.savers.items():\n            for s in saver_list:\n                if s.got_exception:\n                    self.log.fatal(f\"Caught error while saving {k}!\")\n                    raise s.got_exception",
      "pass"),
    W("single-thread: no kill_spies on exception", "C06.R4", SINGLE,
      "self.post_office.kill_spies()\n            raise", "raise"),
    W("single-thread: swallow exception", ("C06.R4", "C06.R6"), SINGLE,
      "self.post_office.kill_spies()\n            raise\n", "self.post_office.kill_spies()\n"),
    W("get_iter does not throw into the processor", "C06.R4", CONTEXT,
      "except Exception as e:\n            generator.throw(e)\n            raise ValueError",
      "except Exception as e:\n            raise ValueError"),
    W("re-introduce item assignment on the reason tuple", "C06.R5", THREADED,
      "reason = (\n                    reason[0],\n                    reason[1],",
      "reason[2] = (\n                    reason[0],\n                    reason[1],"),
    W("swallow exceptions around send", "C06.R6", MAILBOX,
      "except Exception as e:\n                    # Inform the source we're going down\n                    iterable.throw(e)\n                    raise",
      "except Exception as e:\n                    pass"),
    W("raise a new exception instead of the original", "C06.R7", THREADED,
      "raise exc.with_traceback(traceback)", "raise RuntimeError(str(exc)).with_traceback(traceback)"),
    W("MailboxKilled without reason in the reader", "C06.R7", MAILBOX,
      "self.log.debug(f\"Reader finds {self.name} killed\")\n                    raise MailboxKilled(self.killed_because)",
      "self.log.debug(f\"Reader finds {self.name} killed\")\n                    raise MailboxKilled()"),
    W("reason carries a copy of the message only", "C06.R7", MAILBOX,
      "self.kill(reason=(e.__class__, e, sys.exc_info()[2]))",
      "self.kill(reason=(e.__class__, RuntimeError(str(e)), sys.exc_info()[2]))"),
]
