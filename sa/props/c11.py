"""C11 - only what is missing is computed, and only what policy allows is saved.

Decided statically: the save-policy decision table equals the specification (exhaustive), every
saver creation in get_components is dominated by the no-save guards and the positive policy test,
computation is scheduled only on the not-stored branch and after the availability errors, frontend
accept/readonly/superrun filters come first, and each data type has one producer in both
processors.  Not decided: the number of compute calls at run time.
"""

import ast

from ..cfg import cfg_of, literal_nodes, literals
from ..dataflow import Defs, atoms, calls_in, provenance, stmt_of
from ..dtable import run as drun
from ..index import AnalysisError, call_name, dotted, enclosing, head, norm, walk_body
from ..rules import COMPOUND, kw, node_calls, own_calls, prov_at
from ..witness import W

CONTEXT = "strax/context.py"
PLUGIN = "strax/plugins/plugin.py"
COMMON = "strax/storage/common.py"
THREADED = "strax/processors/threaded_mailbox.py"
SINGLE = "strax/processors/single_thread.py"
POST = "strax/processors/post_office.py"
MAILBOX = "strax/mailbox.py"

EXPLANATION = (
    "R1: abstract execution of Context._target_should_be_saved for every SaveWhen member x "
    "membership of the target in targets / save (exhaustive decision table) compared with the "
    "specification. R2: guard dominance - the only saver-creating call in get_components.check_cache "
    "is dominated by the negative edges of the temp-prefix, already-loadable, superrun-without-"
    "write_superruns, time_range, selection, column projection, fuzzy and allow_incomplete guards "
    "and by a positive policy test. R3/R4: the to_compute store and the dependency recursion are "
    "dominated by `not loader` and by the forbid_creation_of / time-range availability raises. "
    "R5: StorageFrontend.find tests _we_take, _support_superruns and readonly first; _add_saver "
    "skips readonly frontends; _we_take's table equals its specification. R6: loader-fed outputs of "
    "a multi-output plugin are excluded from the plugin's fan-out in both processors."
)
RULE_TEXT = "one obligation per (rule, site): table row, required guard of the saver call, scheduling store, frontend filter, fan-out argument"
ASSUMPTIONS = ["SaveWhen members keep their relative order NEVER < EXPLICIT < TARGET < ALWAYS (checked)"]

SAVEWHEN = ["NEVER", "EXPLICIT", "TARGET", "ALWAYS"]


def run(chk):
    repo = chk.repo
    r1_policy_table(chk, repo)
    saver_guards(chk, repo, rule="C11.R2")
    r3_r4_scheduling(chk, repo)
    r5_frontend_filters(chk, repo)
    single_producer(chk, repo, rule="C11.R6")


# ------------------------------------------------------------------------------------ R1
def _savewhen_values(repo):
    c = repo.cls("SaveWhen")
    vals = {}
    for k, v in c.attrs.items():
        if isinstance(v, ast.Constant) and isinstance(v.value, int):
            vals[k] = v.value
    return vals


def _eval_savewhen_compare(e, member, vals):
    """Evaluate `<subject> <op> strax.SaveWhen.X` for subject == member; None if not of that form."""
    if not (isinstance(e, ast.Compare) and len(e.ops) == 1):
        return None
    l, r = e.left, e.comparators[0]
    def mem(x):
        d = dotted(x) or ""
        parts = d.split(".")
        if len(parts) >= 2 and parts[-2] == "SaveWhen" and parts[-1] in vals:
            return parts[-1]
        return None
    a, b = mem(l), mem(r)
    if (a is None) == (b is None):
        return None
    subj_val = vals[member]
    if b is not None:
        x, y = subj_val, vals[b]
    else:
        x, y = vals[a], subj_val
    op = e.ops[0]
    return {ast.Eq: x == y, ast.NotEq: x != y, ast.Lt: x < y, ast.LtE: x <= y, ast.Gt: x > y, ast.GtE: x >= y}.get(type(op))


def r1_policy_table(chk, repo):
    chk.describe("C11.R1", "decision table of _target_should_be_saved over SaveWhen x (target in targets) x (target in save) equals the specification")
    vals = _savewhen_values(repo)
    chk.check(sorted(vals, key=vals.get) == SAVEWHEN and len(vals) == 4, "C11.R1", "SaveWhen", None, f"SaveWhen members/order changed: {vals}", site_text="SaveWhen: NEVER < EXPLICIT < TARGET < ALWAYS")
    if sorted(vals) != sorted(SAVEWHEN):
        return
    f = repo.func("Context._target_should_be_saved", CONTEXT)
    params = f.params
    tgt, tgts, sv = params[1], params[2], params[3]
    for member in SAVEWHEN:
        for in_targets in (False, True):
            for in_save in (False, True):
                def oracle(text, node, member=member, in_targets=in_targets, in_save=in_save):
                    r = _eval_savewhen_compare(node, member, vals)
                    if r is not None:
                        return r
                    if text == f"{tgt} in {sv}":
                        return in_save
                    if text == f"{tgt} not in {sv}":
                        return not in_save
                    if text == f"{tgt} in {tgts}":
                        return in_targets
                    if text == f"{tgt} not in {tgts}":
                        return not in_targets
                    return None
                out = drun(f.node, oracle)
                if member == "NEVER":
                    want = ("raise", "ValueError") if in_save else ("return", False)
                elif member == "EXPLICIT":
                    want = ("return", in_save)
                elif member == "TARGET":
                    want = ("return", in_targets)
                else:
                    want = ("return", True)
                chk.check(out == want, "C11.R1", f, None,
                          f"save policy {member} with target in targets={in_targets}, in save={in_save}: code gives {out}, specification {want}",
                          site_text=f"_target_should_be_saved[{member}, targets={in_targets}, save={in_save}] = {want}",
                          site={"function": f.qualname, "row": f"{member}/{in_targets}/{in_save}"})
    chk.exhaustive = True
    # comparisons against SaveWhen elsewhere (evidence)
    uses = []
    for m in repo.modules.values():
        for fn in m.functions.values():
            for n in walk_body(fn.node):
                if isinstance(n, ast.Compare) and "SaveWhen." in norm(n):
                    uses.append(f"{fn.qualname}: {norm(n)}")
    chk.note("savewhen_comparisons", uses)


# ------------------------------------------------------------------------------------ R2
# requirement name -> (polarity, atoms that one dominating literal must mention, reason)
GUARD_REQS = {
    "temp": (False, {"call:startswith", "TEMP_DATA_TYPE_PREFIX"}, "temporary merge data types are never saved"),
    "loader": (False, {"loader"}, "data that can be loaded is not saved again"),
    "superrun": (False, {"is_superrun", "str:write_superruns"}, "superruns are only written when write_superruns is set"),
    "time_range": (False, "param:time_range", "partial request (time range)"),
    "selection": (False, "param:selection", "partial request (row selection)"),
    "keep_columns": (False, "param:keep_columns", "partial request (column projection)"),
    "drop_columns": (False, "param:drop_columns", "partial request (column projection)"),
    "fuzzy": (False, {"self._find_options", "str:fuzzy"}, "nothing computed under fuzzy matching is written"),
    "allow_incomplete": (False, {"str:allow_incomplete"}, "nothing is written while incomplete data may be loaded"),
    "policy": (True, {"call:self._target_should_be_saved"}, "the save policy allows it"),
}


def planning_roles(repo):
    """Names of the request-planning locals, found by what they are assigned from / used for."""
    from ..pattern import find as pfind, local_defined_as
    gc = repo.func("Context.get_components", CONTEXT)
    cc = repo.func("Context.get_components.check_cache", CONTEXT)
    r = {}
    ld = [(n, b) for n, b in pfind(cc.node, "L_ld = self._get_partial_loader_for(L_key, time_range=time_range, **___)")]
    r["LOADER"] = ld[0][1]["L_ld"] if ld else None
    isr, _a, _b = local_defined_as(gc.node, "run_id.startswith('_')")
    r["IS_SUPERRUN"] = isr
    pc = [c for c in calls_in(gc.node) if (call_name(c) or "").endswith("ProcessorComponents")]
    if pc:
        r["LOADERS"] = norm(kw(pc[0], "loaders")) if kw(pc[0], "loaders") is not None else None
        r["SAVERS"] = norm(kw(pc[0], "savers")) if kw(pc[0], "savers") is not None else None
        plug = kw(pc[0], "plugins")
        if isinstance(plug, ast.Name):
            r["PLUGINS"] = plug.id
            tc = [b for n, b in pfind(gc.node, f"{plug.id} = L_tc")]
            # the last rebinding before the return: plugins = to_compute
            r["TO_COMPUTE"] = tc[-1]["L_tc"] if tc else None
    seen = [b for n, b in pfind(cc.node, "L_seen.add(target_i)")]
    r["SEEN"] = seen[0]["L_seen"] if seen else None
    return r


def saver_guards(chk, repo, rule="C11.R2", only=None):
    chk.describe(rule, "every saver created while assembling a request is dominated by the no-save guards (negative edge) and by the positive save-policy test")
    f = repo.func("Context.get_components.check_cache", CONTEXT)
    cfg = cfg_of(f)
    defs = Defs(f.node)
    sites = [n for n in cfg.stmt_nodes() if not isinstance(n.stmt, COMPOUND) and node_calls(n, lambda c, nm: nm.split(".")[-1] in ("_add_saver", "saver", "_saver"))]
    chk.floor(rule, "saver-creating calls in check_cache", len(sites), 1)
    R = planning_roles(repo)
    chk.need(R.get("LOADER") and R.get("IS_SUPERRUN"), f"{rule}: cannot identify the loader / superrun locals of get_components ({R})")
    reqs = dict(GUARD_REQS)
    reqs["loader"] = (False, {R["LOADER"]}, GUARD_REQS["loader"][2])
    reqs["superrun"] = (False, {R["IS_SUPERRUN"], "str:write_superruns"}, GUARD_REQS["superrun"][2])
    for s in sites:
        lits = cfg.guard_literals(s)
        for name, (pol, need, why) in reqs.items():
            if only is not None and name not in only:
                continue
            hit = False
            for e, p, g in lits:
                if isinstance(need, str):
                    # the request parameter itself is tested for being set
                    name_ = need.split(":")[1]
                    t = norm(e)
                    if (t == f"{name_} is not None" and p is False) or (t == f"{name_} is None" and p is True) or (t == name_ and p is False):
                        hit = True
                        break
                    continue
                if p is not pol:
                    continue
                if need <= atoms(e):
                    hit = True
                    break
            chk.check(hit, rule, f, s.stmt,
                      f"saver can be created although it must not be ({why}): no dominating {'negative' if not pol else 'positive'} guard on {need if isinstance(need, str) else sorted(need)}",
                      site_text=f"check_cache: _add_saver dominated by {'not ' if not pol else ''}[{name}] ({why})",
                      site={"function": f.qualname, "guard": name})
    # who may create savers inside Context.get_components
    gc = repo.func("Context.get_components", CONTEXT)
    outer = [c for c in (n for n in walk_body(gc.node) if isinstance(n, ast.Call)) if (call_name(c) or "").split(".")[-1] in ("_add_saver", "saver", "_saver")]
    chk.check(not outer, rule, gc, stmt_of(outer[0]) if outer else None, "saver created in get_components outside check_cache's guards", site_text="get_components: savers only created in check_cache", nontrivial=False)


# ------------------------------------------------------------------------------------ R3 / R4
def r3_r4_scheduling(chk, repo):
    chk.describe("C11.R3", "a plugin is scheduled for computation (and its dependencies visited) only when its output cannot be loaded; loadable targets are removed from the plugins to run")
    chk.describe("C11.R4", "forbid_creation_of and the time-range availability error are raised before anything is scheduled")
    f = repo.func("Context.get_components.check_cache", CONTEXT)
    cfg = cfg_of(f)
    R = planning_roles(repo)
    chk.need(all(R.get(k) for k in ("LOADER", "TO_COMPUTE", "LOADERS", "PLUGINS", "SEEN")), f"C11.R3: cannot identify the planning locals of get_components ({R})")
    LD, TC, LDS, PL, SEEN = R["LOADER"], R["TO_COMPUTE"], R["LOADERS"], R["PLUGINS"], R["SEEN"]
    stores = [n for n in cfg.stmt_nodes() if isinstance(n.stmt, ast.Assign) and any(isinstance(t, ast.Subscript) and norm(t.value) == TC for t in n.stmt.targets)]
    rec = [n for n in cfg.stmt_nodes() if not isinstance(n.stmt, COMPOUND) and node_calls(n, lambda c, nm: nm == "check_cache")]
    chk.floor("C11.R3", "to_compute stores", len(stores), 1)
    chk.floor("C11.R3", "dependency recursion sites", len(rec), 1)
    for n in stores + rec:
        facts = cfg.guard_facts(n)
        chk.check((LD, False) in facts, "C11.R3", f, n.stmt, "plugin scheduled / dependencies visited although the data can be loaded: stored data would be recomputed", site_text=f"check_cache: `{head(n.stmt, 50)}` only if not loader")
    # recursion over depends_on
    for n in rec:
        lp = enclosing(n.stmt, (ast.For,))
        chk.check(lp is not None and "depends_on" in norm(lp.iter), "C11.R3", f, n.stmt, "dependencies are not all visited", site_text="check_cache: recursion over target_plugin.depends_on")
    # loader branch
    lb = [n for n in cfg.stmt_nodes() if isinstance(n.stmt, ast.Delete) and any(norm(t).startswith(f"{PL}[") for t in n.stmt.targets)]
    chk.check(bool(lb) and all((LD, True) in cfg.guard_facts(n) for n in lb), "C11.R3", f, None, "loadable targets are not removed from the plugins to compute", site_text="check_cache: `del plugins[target_i]` on the loader branch")
    ls = [n for n in cfg.stmt_nodes() if isinstance(n.stmt, ast.Assign) and any(isinstance(t, ast.Subscript) and norm(t.value) == LDS for t in n.stmt.targets)]
    chk.check(bool(ls) and all((LD, True) in cfg.guard_facts(n) for n in ls), "C11.R3", f, None, "loader not registered on the loader branch", site_text="check_cache: loaders[target_i] = loader on the loader branch")
    # seen-set: each target handled once
    first = [n for n in cfg.stmt_nodes() if isinstance(n.stmt, ast.Return) and (f"target_i in {SEEN}", True) in cfg.guard_facts(n)]
    chk.check(bool(first), "C11.R3", f, None, "targets can be processed twice (no seen-set early return): duplicate savers / loaders", site_text="check_cache: early return for targets already seen")
    gc = repo.func("Context.get_components", CONTEXT)
    gcfg = cfg_of(gc)
    from ..pattern import facts_matching as _fm, find as _pf
    inter = []
    for n in gcfg.stmt_nodes():
        if isinstance(n.stmt, ast.Raise):
            for e, pol, g, b in _fm(gcfg, n, "len(L_x)", True):
                if _pf(gc.node, f"{b['L_x']} = list({PL}.keys() & {LDS}.keys())"):
                    inter.append(n)
    chk.check(bool(inter), "C11.R3", gc, None, "no error when a data type is both computed and loaded", site_text="get_components: raise if a type is both computed and loaded")
    # R4
    need = [
        ("forbid-all", lambda e: "str:*" in atoms(e) and "str:forbid_creation_of" in atoms(e)),
        ("forbid-named", lambda e: "target_i" in atoms(e) and "str:forbid_creation_of" in atoms(e)),
        ("time-range", lambda e: "time_range" in atoms(e)),
    ]
    for s in stores:
        lits = cfg.guard_literals(s)
        for name, pred in need:
            hits = [(e, p, g) for e, p, g in lits if p is False and pred(e)]
            ok = False
            for e, p, g in hits:
                # the positive branch of that guard must raise DataNotAvailable
                tg = cfg.guards_of(g.owner, True)
                reach = cfg.reachable(tg, "n")
                rs = [x for x in reach if x.kind == "stmt" and isinstance(x.stmt, ast.Raise) and "DataNotAvailable" in norm(x.stmt.exc)]
                if rs and cfg.exit_return not in cfg.reachable(tg, "n", avoid=lambda x: x.kind == "guard" and x.owner is g.owner and x.polarity is False):
                    ok = True
            if name == "time-range":
                # the test is `time_range is not None and save_when > EXPLICIT`: as a whole, negative
                ok = any(g.polarity is False and {"time_range", ".save_when"} <= atoms(g.test) and "EXPLICIT" in norm(g.test)
                         and any(isinstance(x.stmt, ast.Raise) and "DataNotAvailable" in norm(x.stmt.exc) for x in cfg.reachable(cfg.guards_of(g.owner, True), "n") if x.kind == "stmt")
                         for g in cfg.dominating_guards(s) if g.test is not None)
            chk.check(ok, "C11.R4", f, s.stmt, f"plugin can be scheduled without the {name} availability error having been ruled out", site_text=f"check_cache: to_compute store dominated by not [{name}] whose positive branch raises DataNotAvailable",
                      site={"function": f.qualname, "guard": name})


    # the forbid tests are membership tests on a *collection*: the option is normalised (a bare string
    # would turn `in` into a substring test) on every path before them, in the same function
    tests = [n for n in cfg.nodes if n.kind == "guard" and n.test is not None and n.polarity is True and any(isinstance(x, ast.Compare) and isinstance(x.ops[0], (ast.In, ast.NotIn)) and "forbid_creation_of" in norm(x.comparators[0]) for x in ast.walk(n.test))]
    chk.floor("C11.R4", "forbid_creation_of membership tests", len(tests), 2)
    normalise = lambda n: n.kind == "stmt" and not isinstance(n.stmt, COMPOUND) and (node_calls(n, lambda c, nm: nm == "self._check_forbidden") or (isinstance(n.stmt, ast.Assign) and "forbid_creation_of" in norm(n.stmt.targets[0]) and "to_str_tuple" in norm(n.stmt.value)))
    for t in tests:
        cmpn = [x for x in ast.walk(t.test) if isinstance(x, ast.Compare) and "forbid_creation_of" in norm(x.comparators[0])][0]
        wrapped = "to_str_tuple" in norm(cmpn.comparators[0])
        okp = wrapped or cfg.every_path([cfg.entry], [t], normalise, "n")[0]
        chk.check(okp, "C11.R4", f, t.owner, f"`{norm(cmpn)[:70]}` tests membership in an option that may still be a bare string (assigned directly into context_config): it becomes a substring test, and creating `records` is refused because `raw_records` is forbidden", site_text="check_cache: forbid_creation_of normalised to a tuple before the membership tests", site={"function": f.qualname, "rule": "normalised before membership test", "test": norm(cmpn)[:60]})


# ------------------------------------------------------------------------------------ R5
def r5_frontend_filters(chk, repo):
    chk.describe("C11.R5", "frontends refuse unwanted data types, unsupported superruns and writes when readonly before anything else; _add_saver skips readonly frontends")
    find = repo.func("StorageFrontend.find", COMMON)
    cfg = cfg_of(find)
    calls = [n for n in cfg.stmt_nodes() if not isinstance(n.stmt, COMPOUND) and node_calls(n, lambda c, nm: nm in ("self._find", "self.find"))]
    chk.floor("C11.R5", "lookups in StorageFrontend.find", len(calls), 2)
    for n in calls:
        facts = cfg.guard_facts(n)
        chk.check(any(t.startswith("self._we_take(") and p for t, p in facts), "C11.R5", find, n.stmt, "lookup without the take_only / exclude filter", site_text=f"find: `{head(n.stmt, 40)}` after _we_take")
        chk.check(any(t.startswith("self._support_superruns(") and p for t, p in facts), "C11.R5", find, n.stmt, "lookup without the superrun-support filter", site_text=f"find: `{head(n.stmt, 40)}` after _support_superruns")
        if ("write", True) in facts:
            chk.check(("self.readonly", False) in facts, "C11.R5", find, n.stmt, "write lookup on a readonly frontend", site_text="find(write=True): readonly frontends refuse")
    ro = [n for n in cfg.stmt_nodes() if isinstance(n.stmt, ast.Raise) and {("write", True), ("self.readonly", True)} <= cfg.guard_facts(n)]
    chk.check(bool(ro), "C11.R5", find, None, "find(write=True) does not raise on a readonly frontend", site_text="find: raise when write and readonly")
    # _we_take table
    wt = repo.func("StorageFrontend._we_take", COMMON)
    for in_ex in (False, True):
        for has_to in (False, True):
            for in_to in (False, True):
                def oracle(text, node, in_ex=in_ex, has_to=has_to, in_to=in_to):
                    return {"data_type in self.exclude": in_ex, "self.take_only": has_to, "data_type not in self.take_only": not in_to, "data_type in self.take_only": in_to, "data_type not in self.exclude": not in_ex}.get(text)
                out = drun(wt.node, oracle)
                want = not (in_ex or (has_to and not in_to))
                chk.check(out == ("return", want), "C11.R5", wt, None, f"_we_take(excluded={in_ex}, take_only set={has_to}, in take_only={in_to}) gives {out}, specification {want}",
                          site_text=f"_we_take[{in_ex},{has_to},{in_to}] = {want}", site={"function": wt.qualname, "row": f"{in_ex}/{has_to}/{in_to}"})
    # _add_saver
    ad = repo.func("Context._add_saver", CONTEXT)
    acfg = cfg_of(ad)
    sv = [n for n in acfg.stmt_nodes() if not isinstance(n.stmt, COMPOUND) and node_calls(n, lambda c, nm: nm.split(".")[-1] == "saver")]
    chk.floor("C11.R5", "saver creations in _add_saver", len(sv), 1)
    for n in sv:
        chk.check(any(t.endswith(".readonly") and p is False for t, p in acfg.guard_facts(n)), "C11.R5", ad, n.stmt, "saver requested from a readonly frontend", site_text="_add_saver: readonly frontends skipped")
    # frontend.saver goes through find(write=True)
    fs = repo.func("StorageFrontend.saver", COMMON)
    finds = [c for c in calls_in(fs.node) if call_name(c) == "self.find"]
    chk.check(len(finds) == 1 and kw(finds[0], "write") is not None and norm(kw(finds[0], "write")) == "True", "C11.R5", fs, None, "StorageFrontend.saver does not pass through find(write=True) (overwrite / readonly / filter decisions)", site_text="StorageFrontend.saver: find(key, write=True)")


# ------------------------------------------------------------------------------------ R6
def _has(cfg, node, pattern, pol):
    from ..pattern import has_fact

    return has_fact(cfg, node, pattern, pol)


def single_producer(chk, repo, rule="C11.R6"):
    chk.describe(rule, "each data type has exactly one producer: outputs of a multi-output plugin that are fed by a loader are excluded from the plugin's fan-out in both processors")
    # single thread
    st = repo.func("SingleThreadProcessor.__init__", SINGLE)
    regs = [c for c in calls_in(st.node) if (call_name(c) or "").endswith("register_producer")]
    plug = [c for c in regs if any("p.iter" in norm(a) or ".iter(" in norm(a) for a in c.args)]
    chk.floor(rule, "plugin producer registrations (single thread)", len(plug), 1)
    for c in plug:
        r = kw(c, "registered")
        chk.check(r is not None and "components.loaders" in norm(r), rule, st, stmt_of(c), "single-thread processor registers a multi-output plugin as producer of outputs that a loader already produces", site_text="SingleThreadProcessor: register_producer(..., registered=tuple(components.loaders))")
    rp = repo.func("PostOffice.register_producer", POST)
    rcfg = cfg_of(rp)
    rec = [n for n in rcfg.stmt_nodes() if not isinstance(n.stmt, COMPOUND) and node_calls(n, lambda c, nm: nm == "self.register_producer")]
    chk.check(bool(rec) and all(_has(rcfg, n, "L_t not in registered", True) or _has(rcfg, n, "L_t in registered", False) for n in rec), rule, rp, None, "PostOffice registers a producer for sub-topics that are already fed by a loader", site_text="PostOffice.register_producer: skips sub-topics in `registered`")
    dup = [n for n in rcfg.stmt_nodes() if isinstance(n.stmt, ast.Raise) and ("topic in self._producers", True) in rcfg.guard_facts(n)]
    chk.check(bool(dup), rule, rp, None, "a second producer for one topic is silently accepted", site_text="PostOffice.register_producer: raises on a second producer")
    fn = repo.func("PostOffice._fetch_new", POST)
    fcfg = cfg_of(fn)
    acks = [n for n in fcfg.stmt_nodes() if not isinstance(n.stmt, COMPOUND) and node_calls(n, lambda c, nm: nm == "self._ack_msg_produced") and enclosing(n.stmt, (ast.For,)) is not None]
    chk.check(bool(acks) and all(_has(fcfg, n, "L_t in self._multi_output_topics", True) for n in acks), rule, fn, None, "sub-messages are delivered for topics that the multi-output producer does not own", site_text="PostOffice._fetch_new: sub-message acknowledged only for owned sub-topics")
    # threaded
    tm = repo.func("ThreadedMailboxProcessor.__init__", THREADED)
    tdefs = Defs(tm.node)
    divs = [c for c in calls_in(tm.node) if (call_name(c) or "") == "partial" and c.args and (dotted(c.args[0]) or "").endswith("divide_outputs")]
    chk.floor(rule, "divide_outputs fan-outs (threaded)", len(divs), 1)
    for c in divs:
        for argname in ("mailboxes", "outputs"):
            a = kw(c, argname)
            prov = prov_at(tm, a) if a is not None else set()
            chk.check(a is not None and "components.loaders" in prov, rule, tm, stmt_of(c), f"threaded processor fans a multi-output plugin out to `{argname}` without excluding outputs that a loader already produces (two senders for one mailbox)",
                      site_text=f"ThreadedMailboxProcessor: divide_outputs {argname}= excludes components.loaders",
                      site={"function": tm.qualname, "argument": argname})
    do = repo.func("divide_outputs", MAILBOX)
    sends = [c for c in calls_in(do.node) if isinstance(c.func, ast.Attribute) and c.func.attr == "send"]
    chk.floor(rule, "send sites in divide_outputs", len(sends), 1)
    for c in sends:
        lp = enclosing(c, (ast.For,))
        chk.check(lp is not None and norm(lp.iter) == "outputs", rule, do, stmt_of(c), "divide_outputs sends every key of the plugin's result instead of the outputs it was asked to feed", site_text="divide_outputs: sends only `outputs`")
    for f, path in ((st, SINGLE), (tm, THREADED)):
        asserts = [n for n in walk_body(f.node) if isinstance(n, ast.Assert) and "not in components.plugins" in norm(n.test)]
        chk.check(bool(asserts), rule, f, None, "no check that a loaded data type is not also computed", site_text=f"{f.qualname}: assert loader types are not in components.plugins", nontrivial=False)


WITNESSES = [
    W("forbid list normalised only when the config is set", "C11.R4", CONTEXT,
      "# Data not found anywhere. We will be computing it.\n                self._check_forbidden()", "# Data not found anywhere. We will be computing it."),
    W("TARGET falls through to True", "C11.R1", CONTEXT,
      "elif target_plugin.save_when[target] == strax.SaveWhen.TARGET:\n            if target not in targets:\n                return False",
      "elif target_plugin.save_when[target] == strax.SaveWhen.TARGET:\n            pass"),
    W("EXPLICIT and TARGET membership tests swapped", "C11.R1", CONTEXT,
      "if target not in save:\n                return False\n        return True", "if target not in targets:\n                return False\n        return True"),
    W("NEVER with save= no longer raises", "C11.R1", CONTEXT,
      "if target in save:\n                raise ValueError(f\"Plugin forbids saving of {target}\")\n            return False", "return False"),
    W("delete the time_range no-save guard", "C11.R2", CONTEXT,
      "if time_range is not None:\n                self.log.warning(f\"Not saving {target_i} while selecting a time range in the run\")\n                return", "pass"),
    W("delete the selection no-save guard", "C11.R2", CONTEXT,
      "if selection is not None:\n                self.log.warning(f\"Not saving {target_i} while applying selections in the run\")\n                return", "pass"),
    W("column guard only tests keep_columns", "C11.R2", CONTEXT,
      "if keep_columns is not None or drop_columns is not None:", "if keep_columns is not None:"),
    W("delete the allow_incomplete guard", "C11.R2", CONTEXT,
      "if self.context_config[\"allow_incomplete\"]:\n                self.log.warning(f\"Not saving {target_i} while loading incomplete data is allowed.\")\n                return", "pass"),
    W("superruns always written", "C11.R2", CONTEXT,
      "if is_superrun and not self.context_config[\"write_superruns\"]:\n                return", "pass"),
    W("temp data types saved", "C11.R2", CONTEXT,
      "# We are in a temporary data type, we should not save it.\n            if target_i.startswith(TEMP_DATA_TYPE_PREFIX):\n                return", "pass"),
    W("policy not re-checked per output", "C11.R2", CONTEXT,
      "if not self._target_should_be_saved(\n                    target_plugin, d_to_save, targets, save\n                ) or savers.get(d_to_save):", "if savers.get(d_to_save):"),
    W("compute dependencies before testing loader", "C11.R3", CONTEXT,
      "if loader:\n                # Found it! No need to make it or look in other frontends",
      "for dep_d in target_plugin.depends_on:\n                check_cache(dep_d)\n            if loader:\n                # Found it! No need to make it or look in other frontends"),
    W("loaded target stays scheduled", "C11.R3", CONTEXT,
      "loader_plugins[target_i] = target_plugin\n                del plugins[target_i]", "loader_plugins[target_i] = target_plugin"),
    W("forbid_creation_of tested after scheduling", "C11.R4", CONTEXT,
      "if \"*\" in self.context_config[\"forbid_creation_of\"]:\n                    raise strax.DataNotAvailable(\n                        f\"{target_i} for {run_id} not found in any storage, and \"\n                        \"your context specifies no new data can be created.\"\n                    )",
      "pass"),
    W("named forbid only warns", "C11.R4", CONTEXT,
      "if target_i in self.context_config[\"forbid_creation_of\"]:\n                    raise strax.DataNotAvailable(", "if target_i in self.context_config[\"forbid_creation_of\"]:\n                    self.log.warning("),
    W("time-range availability error dropped", "C11.R4", CONTEXT,
      "if (\n                    time_range is not None\n                    and target_plugin.save_when[target_i] > strax.SaveWhen.EXPLICIT\n                ):", "if False:"),
    W("readonly test dropped in _add_saver", "C11.R5", CONTEXT,
      "if sf.readonly:\n                continue\n            # If we get here, we must try to save", "# If we get here, we must try to save"),
    W("_we_take ignores exclude", "C11.R5", COMMON,
      "data_type in self.exclude or (self.take_only and data_type not in self.take_only)", "(self.take_only and data_type not in self.take_only)"),
    W("readonly frontends accept writes", "C11.R5", COMMON,
      "if self.readonly:\n                raise DataNotAvailable(f\"{self} cannot write any-data, it's readonly\")", "pass"),
    W("threaded fan-out includes loader-fed outputs (the original defect)", "C11.R6", THREADED,
      "outputs = tuple(k for k in p.provides if k not in components.loaders)", "outputs = tuple(p.provides)"),
    W("divide_outputs sends every result key", "C11.R6", MAILBOX,
      "for d in outputs:\n                    mailboxes[d].send(result[d])", "for d, x in result.items():\n                    mailboxes[d].send(x)"),
    W("single-thread filter dropped", "C11.R6", SINGLE,
      "registered=tuple(components.loaders),", ""),
]
