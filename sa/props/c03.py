"""C03 - saving then loading returns the same rows, ranges and consistent metadata.

Decided statically: writer/reader agreement - the compressor table pairs each name with functions
of that codec family; every metadata key the loader needs is written by the saver; per-chunk
metadata derives from the chunk being written; empty chunks are skipped consistently on both
sides; a rechunker is flushed (and its output saved) before its saver is closed; chunk numbers
advance once per saved chunk.  Not decided: bit-identity of round trips.
"""

import ast
import keyword

from ..cfg import cfg_of, literals
from ..dataflow import Defs, atoms, calls_in, provenance, stmt_of
from ..index import AnalysisError, call_name, dotted, enclosing, head, norm, walk_body
from ..pattern import find as pfind, has_fact, local_defined_as, pmatch
from ..rules import COMPOUND, kw, node_calls, own_calls, prov_at, reaching
from ..witness import W

IO = "strax/io.py"
COMMON = "strax/storage/common.py"
FILES = "strax/storage/files.py"
PLUGIN = "strax/plugins/plugin.py"
UTILS = "strax/utils.py"
SINGLE = "strax/processors/single_thread.py"
CHUNK = "strax/chunk.py"

EXPLANATION = (
    "R1 codec table agreement: each entry of strax.io.COMPRESSORS has exactly compress / "
    "decompress / _decompress, and each value resolves (through module-level lambdas / defs) to code "
    "that calls only the codec library named by the entry; save and load index the table with the "
    "same key and the matching direction. R2 key agreement: every constant metadata / chunk-info "
    "key read on a non-failing path of the loader functions is written by the saver side. R3 the "
    "per-chunk metadata values have provenance in the chunk being written, and the overall range "
    "comes from the first / last chunk. R4 typestate of the rechunker: flushed and saved before "
    "close on every normal path; chunk numbers advance once per saved chunk. R5 writer and reader "
    "agree on skipping files for empty chunks and the loader rebuilds chunks from the stored fields."
)
RULE_TEXT = "one obligation per (rule, site): table entry x role, reader key, metadata field, rechunker owner, empty-chunk branch"
ASSUMPTIONS = ["bz2 / zstd+zstandard / blosc / lz4.frame implement inverse compress / decompress pairs within one library"]

FAMILY_ALIAS = {"zstandard": "zstd", "zstd": "zstd", "bz2": "bz2", "blosc": "blosc", "lz4": "lz4"}


def run(chk):
    repo = chk.repo
    r1_codec_table(chk, repo)
    r2_key_agreement(chk, repo)
    r3_metadata_from_chunk(chk, repo)
    r3_chunk_order_of_forked_metadata(chk, repo)
    r4_rechunker_typestate(chk, repo)
    r5_empty_and_rebuild(chk, repo)
    r6_rechunker_conservation(chk, repo)


# ------------------------------------------------------------------------------------ R1
def _families(mod, expr, depth=3):
    """Codec library roots that the callable `expr` uses."""
    out = set()
    if depth < 0:
        return out
    d = dotted(expr)
    if d is None:
        return out
    root = d.split(".")[0]
    if root in mod.imports:
        origin = mod.imports[root].split(".")[0]
        if origin in FAMILY_ALIAS:
            out.add(FAMILY_ALIAS[origin])
            return out
    # module-level lambda or function
    body = None
    if d in mod.assigns and isinstance(mod.assigns[d], ast.Lambda):
        body = mod.assigns[d].body
    elif d in mod.functions:
        body = mod.functions[d].node
    if body is not None:
        for n in ast.walk(body):
            if isinstance(n, ast.Call):
                dd = dotted(n.func)
                if dd:
                    r = dd.split(".")[0]
                    if r in mod.imports and mod.imports[r].split(".")[0] in FAMILY_ALIAS:
                        out.add(FAMILY_ALIAS[mod.imports[r].split(".")[0]])
    return out


def decompressors_drain(chk, repo, rule):
    mod = repo.module(IO)
    # streaming decompressors consume everything they are fed
    n_dec = 0
    for f in mod.functions.values():
        if not f.qualname.endswith("_decompress"):
            continue
        for c in calls_in(f.node):
            if isinstance(c.func, ast.Attribute) and c.func.attr == "decompress" and isinstance(c.func.value, ast.Name) and c.func.value.id not in mod.imports:
                n_dec += 1
                limited = len(c.args) >= 2 or any(k.arg in ("max_length", "max_output_size") for k in c.keywords)
                drains = any(isinstance(x, ast.Attribute) and x.attr in ("needs_input", "eof", "unused_data", "unconsumed_tail") for x in walk_body(f.node))
                chk.check(not limited or drains, rule, f, stmt_of(c), f"{f.qualname} limits the output of each decompress() call but never drains what the decompressor holds back: chunks that expand to more than one buffer are truncated on load",
                          site_text=f"{f.qualname}: decompress() output not truncated", site={"function": f.qualname, "rule": "decompressor drained"})
    chk.floor(rule, "streaming decompress calls", n_dec, 3)


def r1_codec_table(chk, repo):
    chk.describe("C03.R1", "each compressor name is paired with compress / decompress / streaming-decompress code of that same codec library; save and load use the same table key")
    mod = repo.module(IO)
    tab = mod.assigns.get("COMPRESSORS")
    chk.need(isinstance(tab, ast.Call) and call_name(tab) == "dict" or isinstance(tab, ast.Dict), "C03.R1: strax.io.COMPRESSORS is no longer a literal table")
    entries = {}
    if isinstance(tab, ast.Call):
        for k in tab.keywords:
            entries[k.arg] = k.value
    else:
        for k, v in zip(tab.keys, tab.values):
            entries[k.value] = v
    chk.floor("C03.R1", "compressors", len(entries), 4)
    for name, v in entries.items():
        roles = {}
        if isinstance(v, ast.Call) and call_name(v) == "dict":
            roles = {k.arg: k.value for k in v.keywords}
        elif isinstance(v, ast.Dict):
            roles = {k.value: vv for k, vv in zip(v.keys, v.values)}
        chk.check(set(roles) == {"compress", "decompress", "_decompress"}, "C03.R1", "strax/io.py", None, f"compressor {name} does not define exactly compress / decompress / _decompress (has {sorted(roles)})", site_text=f"COMPRESSORS[{name}]: three roles")
        for role, e in roles.items():
            fam = _families(mod, e)
            chk.check(fam == {FAMILY_ALIAS.get(name, name)}, "C03.R1", "strax/io.py", norm(e), f"COMPRESSORS[{name!r}][{role!r}] = {norm(e)} uses codec library {sorted(fam) or 'unknown'}: data written with {name} could not be read back",
                      site_text=f"COMPRESSORS[{name}][{role}] -> {norm(e)} is {name} code", site={"function": "COMPRESSORS", "entry": name, "role": role})
    sv = repo.func("_save_file", IO)
    ld = repo.func("_load_file", IO)
    s_sub = [n for n in walk_body(sv.node) if isinstance(n, ast.Subscript) and isinstance(n.value, ast.Subscript) and norm(n.value.value) == "COMPRESSORS"]
    l_sub = [n for n in walk_body(ld.node) if isinstance(n, ast.Subscript) and isinstance(n.value, ast.Subscript) and norm(n.value.value) == "COMPRESSORS"]
    chk.check(len(s_sub) == 1 and norm(s_sub[0].slice) == "'compress'" and norm(s_sub[0].value.slice) == "compressor", "C03.R1", sv, None, "_save_file does not use COMPRESSORS[compressor]['compress']", site_text="_save_file: COMPRESSORS[compressor]['compress']")
    chk.check(len(l_sub) == 1 and norm(l_sub[0].slice) in ("'_decompress'", "'decompress'") and norm(l_sub[0].value.slice) == "compressor", "C03.R1", ld, None, "_load_file does not use the decompressor of COMPRESSORS[compressor]", site_text="_load_file: COMPRESSORS[compressor]['_decompress']")
    decompressors_drain(chk, repo, "C03.R1")
    # compressor name travels through the metadata
    fsv = repo.func("FileSaver._save_chunk", FILES)
    chk.check(any(k.arg == "compressor" and norm(k.value) == "self.md['compressor']" for c in calls_in(fsv.node) for k in c.keywords), "C03.R1", fsv, None, "chunks are not compressed with the compressor recorded in the metadata", site_text="FileSaver._save_chunk: compressor=self.md['compressor']")
    fdefs = Defs(fsv.node)
    writes = [c for c in calls_in(fsv.node) if (call_name(c) or "").endswith("save_file") or ((call_name(c) or "").endswith(".submit") and c.args and (dotted(c.args[0]) or "").endswith("save_file"))]
    chk.floor("C03.R1", "write calls in FileSaver._save_chunk", len(writes), 2)
    for c in writes:
        okw = any(k.arg == "compressor" and norm(k.value) == "self.md['compressor']" for k in c.keywords)
        for k in c.keywords:
            if k.arg is None and isinstance(k.value, ast.Name):
                v = fdefs.single(k.value.id)
                okw = okw or (v is not None and isinstance(v, ast.Call) and any(kk.arg == "compressor" and norm(kk.value) == "self.md['compressor']" for kk in v.keywords))
        chk.check(okw, "C03.R1", fsv, stmt_of(c), f"`{norm(c)[:70]}` writes a chunk without the compressor recorded in the metadata (the default of save_file is used): the file cannot be read back with the recorded one", site_text=f"FileSaver._save_chunk: `{norm(c.func)}` carries compressor=self.md['compressor']", site={"function": fsv.qualname, "write": norm(c.func)})
    rfc = repo.func("StorageBackend._read_and_format_chunk", COMMON)
    chk.check(any(k.arg == "compressor" and norm(k.value) == "metadata['compressor']" for c in calls_in(rfc.node) for k in c.keywords), "C03.R1", rfc, None, "chunks are not decompressed with the compressor recorded in the metadata", site_text="_read_and_format_chunk: compressor=metadata['compressor']")


# ------------------------------------------------------------------------------------ R2
READERS = [("StorageBackend.loader", COMMON), ("StorageBackend._read_and_format_chunk", COMMON), ("StorageBackend._read_format_split_chunk", COMMON), ("FileSytemBackend._read_chunk", FILES), ("dry_load_files", IO), ("dry_load_files.load_chunk", IO), ("iter_chunk_meta", UTILS)]
WRITERS = [("Saver.save", COMMON), ("Saver.__init__", COMMON), ("Saver.close", COMMON), ("StorageBackend.saver", COMMON), ("Plugin.metadata", PLUGIN), ("FileSaver._save_chunk", FILES), ("FileSaver._save_chunk_metadata", FILES), ("FileSaver._close", FILES), ("iter_chunk_meta", UTILS)]
MD_NAMES = {"metadata", "md", "chunk_info", "c", "self.md", "meta", "target_md"}


def _is_md_base(base):
    """Metadata-like mapping: a plain name or self.md - not an array (`x.data[...]`, `data[...]`)."""
    d = dotted(base) or ""
    if not d or d.endswith(".data") or d.split(".")[-1] in ("data", "x", "records", "things"):
        return False
    return "." not in d or d == "self.md"


def _reader_keys(f):
    """Constant keys read from metadata-like objects on non-failing paths: {key: optional?}."""
    out = {}
    for n in walk_body(f.node):
        if enclosing(n, (ast.Raise,)) is not None:
            continue
        if isinstance(n, ast.Subscript) and isinstance(n.ctx, ast.Load) and isinstance(n.slice, ast.Constant) and isinstance(n.slice.value, str):
            base = n.value
            while isinstance(base, ast.Subscript):
                base = base.value
            if _is_md_base(base):
                out.setdefault(n.slice.value, False)
        if isinstance(n, ast.Call) and isinstance(n.func, ast.Attribute) and n.func.attr == "get" and n.args and isinstance(n.args[0], ast.Constant) and _is_md_base(n.func.value):
            out[n.args[0].value] = True
        # "a b c".split() lists of required fields
        if isinstance(n, ast.Assign) and isinstance(n.targets[0], ast.Name) and "required" in n.targets[0].id:
            v = n.value
            if isinstance(v, ast.Call) and isinstance(v.func, ast.Attribute) and v.func.attr == "split" and isinstance(v.func.value, ast.Constant):
                for k in v.func.value.value.split():
                    out.setdefault(k, False)
    return out


def _writer_keys(f):
    out = set()
    for n in walk_body(f.node):
        if isinstance(n, ast.Call) and call_name(n) == "dict":
            out |= {k.arg for k in n.keywords if k.arg}
        if isinstance(n, ast.Dict):
            out |= {k.value for k in n.keys if isinstance(k, ast.Constant) and isinstance(k.value, str)}
        if isinstance(n, (ast.Assign, ast.AugAssign)):
            tg = n.targets if isinstance(n, ast.Assign) else [n.target]
            for t in tg:
                if isinstance(t, ast.Subscript):
                    if isinstance(t.slice, ast.Constant) and isinstance(t.slice.value, str):
                        out.add(t.slice.value)
                    elif isinstance(t.slice, ast.JoinedStr):
                        # f"{desc}_time" with desc from a literal tuple of pairs
                        suffix = "".join(v.value for v in t.slice.values if isinstance(v, ast.Constant))
                        lp = enclosing(n, (ast.For,))
                        if lp is not None and isinstance(lp.iter, ast.Tuple):
                            for e in lp.iter.elts:
                                if isinstance(e, ast.Tuple) and isinstance(e.elts[0], ast.Constant):
                                    out.add(e.elts[0].value + suffix)
        if isinstance(n, ast.Call) and isinstance(n.func, ast.Attribute) and n.func.attr == "setdefault" and n.args and isinstance(n.args[0], ast.Constant):
            out.add(n.args[0].value)
    return out


def r2_key_agreement(chk, repo):
    chk.describe("C03.R2", "every metadata / chunk-info key the loader reads on a non-failing path is written by the saver side")
    written = set()
    for q, p in WRITERS:
        written |= _writer_keys(repo.func(q, p))
    chk.note("writer_keys", sorted(written))
    n = 0
    for q, p in READERS:
        f = repo.func(q, p)
        for key, optional in sorted(_reader_keys(f).items()):
            n += 1
            chk.check(key in written or optional, "C03.R2", f, f"key {key!r}", f"loader reads metadata key {key!r} that no saver code writes: every load fails with KeyError / data is reported unavailable",
                      site_text=f"{q}: reads {key!r}" + (" (optional)" if optional else "") + " - written by the saver side", site={"function": q, "key": key})
    chk.floor("C03.R2", "reader keys", n, 14)


# ------------------------------------------------------------------------------------ R3
def r3_metadata_from_chunk(chk, repo):
    chk.describe("C03.R3", "per-chunk metadata is taken from the chunk being written; overall start / end from the first / last chunk")
    sv = repo.func("Saver.save", COMMON)
    cparam = sv.params[1]
    dicts = [n for n in walk_body(sv.node) if isinstance(n, ast.Call) and call_name(n) == "dict" and any(k.arg == "chunk_i" for k in n.keywords)]
    chk.need(len(dicts) == 1, "C03.R3: chunk_info dict in Saver.save not found")
    kws = {k.arg: k.value for k in dicts[0].keywords}
    want = {"start": f"{cparam}.start", "end": f"{cparam}.end", "run_id": f"{cparam}.run_id", "subruns": f"{cparam}.subruns", "nbytes": f"{cparam}.nbytes", "n": f"len({cparam})", "chunk_i": sv.params[2]}
    for k, w in want.items():
        chk.check(k in kws and norm(kws[k]) == w, "C03.R3", sv, dicts[0], f"chunk metadata field {k!r} is {norm(kws[k]) if k in kws else 'missing'}, expected {w}: stored metadata would disagree with the stored rows",
                  site_text=f"Saver.save: chunk_info[{k}] = {w}", site={"function": sv.qualname, "field": k})
    ci_stmt = stmt_of(dicts[0])
    CI = ci_stmt.targets[0].id if isinstance(ci_stmt, ast.Assign) and isinstance(ci_stmt.targets[0], ast.Name) else None
    scs = [c for c in calls_in(sv.node) if call_name(c) == "self._save_chunk"]
    chk.check(len(scs) == 1 and CI is not None and norm(scs[0].args[0]) == f"{cparam}.data" and norm(scs[0].args[1]) == CI, "C03.R3", sv, None, "rows written are not the data of the chunk whose metadata is recorded", site_text="Saver.save: _save_chunk(chunk.data, chunk_info)")
    mds = [c for c in calls_in(sv.node) if call_name(c) == "self._save_chunk_metadata"]
    chk.check(len(mds) == 1 and norm(mds[0].args[0]) == CI, "C03.R3", sv, None, "chunk metadata is not recorded for every saved chunk", site_text="Saver.save: _save_chunk_metadata(chunk_info) for every chunk")
    if mds:
        cfg = cfg_of(sv)
        node = cfg.node_of(stmt_of(mds[0]))
        gs = [g for g in cfg.dominating_guards(node) if g.test is not None and "closed" not in norm(g.test)]
        chk.check(not gs, "C03.R3", sv, stmt_of(mds[0]), "chunk metadata only recorded conditionally (empty chunks must be recorded too, they carry time range)", site_text="Saver.save: metadata recorded unconditionally")
    # first / last times
    ft = [n for n in walk_body(sv.node) if isinstance(n, ast.For) and isinstance(n.iter, ast.Tuple)]
    ok = False
    for lp in ft:
        pairs = [(e.elts[0].value, norm(e.elts[1])) for e in lp.iter.elts if isinstance(e, ast.Tuple) and isinstance(e.elts[0], ast.Constant)]
        if sorted(pairs) == [("first", "0"), ("last", "-1")]:
            ok = True
    chk.check(ok, "C03.R3", sv, None, "first_/last_ time fields are not taken from the first and last row", site_text="Saver.save: (first, 0), (last, -1)")
    cl = repo.func("Saver.close", COMMON)
    st = {}
    for n in walk_body(cl.node):
        if isinstance(n, ast.Assign) and isinstance(n.targets[0], ast.Subscript) and norm(n.targets[0].value) == "self.md" and isinstance(n.targets[0].slice, ast.Constant):
            st[n.targets[0].slice.value] = norm(n.value)
    chk.check(st.get("start") == "self.md['chunks'][0]['start']", "C03.R3", cl, None, "overall start is not the start of the first chunk", site_text="Saver.close: md[start] = chunks[0][start]")
    chk.check(st.get("end") == "self.md['chunks'][-1]['end']", "C03.R3", cl, None, "overall end is not the end of the last chunk", site_text="Saver.close: md[end] = chunks[-1][end]")
    fm = repo.func("FileSaver._save_chunk_metadata", FILES)
    app = [c for c in calls_in(fm.node) if norm(c.func) == "self.md['chunks'].append"]
    chk.check(len(app) == 1 and norm(app[0].args[0]) == "chunk_info", "C03.R3", fm, None, "chunk info is not appended to the metadata's chunk list", site_text="FileSaver._save_chunk_metadata: md[chunks].append(chunk_info)")
    fsv = repo.func("FileSaver._save_chunk", FILES)
    names = [n for n in walk_body(fsv.node) if isinstance(n, ast.Call) and call_name(n) == "dict" and any(k.arg == "filename" for k in n.keywords)]
    FN_, _fa, _fb = local_defined_as(fsv.node, "self._chunk_filename(chunk_info)")
    chk.check(bool(names) and FN_ is not None and all(norm({k.arg: k.value for k in d.keywords}["filename"]) == FN_ for d in names), "C03.R3", fsv, None, "recorded file name is not the name the chunk was written under", site_text="FileSaver._save_chunk: filename recorded = filename written")
    fn = [n for n, b in pfind(fsv.node, f"L_p = os.path.join(self.tempdirname, {FN_})")] if FN_ else []
    chk.check(bool(fn), "C03.R3", fsv, None, "chunk is written under a name different from the recorded one", site_text="FileSaver._save_chunk: fn = join(tempdir, filename)")


def r3_chunk_order_of_forked_metadata(chk, repo):
    """Forked savers write one metadata file per chunk; _close collects them with sorted(glob): the
    file names must sort like the chunk numbers (zero-padded, same name as the chunk file)."""
    import re
    R = "C03.R3"
    cl = repo.func("FileSaver._close", FILES)
    coll = [n for n in walk_body(cl.node) if isinstance(n, ast.For) and "glob" in norm(n.iter) and "metadata_" in norm(n.iter)]
    chk.check(len(coll) == 1, R, cl, None, "FileSaver._close no longer collects the per-chunk metadata files", site_text="FileSaver._close: for fn in sorted(glob(metadata_*))")
    by_name = len(coll) == 1 and call_name(coll[0].iter) == "sorted" and not coll[0].iter.keywords
    sm = repo.func("FileSaver._save_chunk_metadata", FILES)
    d = Defs(sm.node)
    opens = [c for c in calls_in(sm.node) if call_name(c) == "open" and c.args]
    okn = False
    for c in opens:
        pv = provenance(d, c.args[0])
        if "str:metadata_" in pv or any("metadata_" in a for a in pv if a.startswith("str:")):
            okn = "call:self._chunk_filename" in pv or "call:_chunk_filename" in pv
    cf = repo.func("FileSaver._chunk_filename", FILES)
    consts = [x.value for x in ast.walk(cf.node) if isinstance(x, ast.Constant) and isinstance(x.value, str)]
    fmt = [x for x in ast.walk(cf.node) if isinstance(x, ast.FormattedValue) and x.format_spec is not None]
    padded = any(re.search(r"%0\d+d", c) for c in consts) or any(re.search(r"^0\d+d?$", norm(f.format_spec).strip("f'\"")) for f in fmt)
    if by_name:
        chk.check(okn and padded, R, sm, None, "per-chunk metadata files are collected in file-name order, but their names do not sort like the chunk numbers (not the zero-padded chunk file name): with more than ten chunks the stored chunk list comes out as 0, 1, 10, 11, 2, ... and the loader returns shuffled, non-contiguous data",
                  site_text="FileSaver: metadata_<zero-padded chunk name>.json collected with sorted(glob)", site={"function": sm.qualname, "rule": "per-chunk metadata sorts like chunk numbers"})
    else:
        chk.check(len(coll) == 1 and ("chunk_i" in norm(coll[0].iter) or "chunk_i" in norm(cl.node)), R, cl, None, "per-chunk metadata files are not collected in chunk order", site_text="FileSaver._close: collected in chunk order")


# ------------------------------------------------------------------------------------ R4
def r4_rechunker_typestate(chk, repo):
    chk.describe("C03.R4", "every owner of a Rechunker flushes it and saves the flushed chunks before closing its saver; chunk numbers advance once per saved chunk")
    sf = repo.func("Saver.save_from", COMMON)
    cfg = cfg_of(sf)
    fl = [n for n in cfg.stmt_nodes() if not isinstance(n.stmt, COMPOUND) and node_calls(n, lambda c, nm: nm.endswith(".flush"))]
    chk.check(len(fl) >= 1, "C03.R4", sf, None, "Saver.save_from never flushes its rechunker: the rows withheld for the last chunk are lost", site_text="Saver.save_from: rechunker.flush() present")
    for n in fl:
        h = enclosing(n.stmt, (ast.ExceptHandler,))
        chk.check(h is not None and "StopIteration" in norm(h.type or ast.Constant(None)), "C03.R4", sf, n.stmt, "rechunker is not flushed when the source is exhausted", site_text="Saver.save_from: flush on StopIteration")
        tgt = n.stmt.targets[0].id if isinstance(n.stmt, ast.Assign) and isinstance(n.stmt.targets[0], ast.Name) else None
        rec = [x for x in walk_body(sf.node) if isinstance(x, ast.Assign) and isinstance(x.targets[0], ast.Name) and x.targets[0].id == tgt and "receive" in norm(x.value)]
        loops = [x for x in walk_body(sf.node) if isinstance(x, ast.For) and norm(x.iter) == tgt and any(call_name(c) == "self.save" for c in calls_in(x))]
        chk.check(tgt is not None and bool(rec) and bool(loops), "C03.R4", sf, n.stmt, "flushed chunks are not saved like received ones", site_text="Saver.save_from: flushed chunks go through the same save loop")
    # every normal path from loop exit to close passes... the flush happens inside the loop on exhaustion:
    # the loop can only end after `exhausted = True`, which is set only next to the flush
    main = [n for n in walk_body(sf.node) if isinstance(n, ast.While) and any(call_name(c) == "next" for c in calls_in(n))]
    flag = pmatch("not L_ex", main[0].test) if main else None
    EX = flag["L_ex"] if flag else None
    ex = [n for n in cfg.stmt_nodes() if EX and isinstance(n.stmt, ast.Assign) and any(norm(t) == EX for t in n.stmt.targets) and isinstance(n.stmt.value, ast.Constant) and n.stmt.value.value is True]
    chk.check(bool(ex) and all(enclosing(e.stmt, (ast.ExceptHandler,)) is not None and any(enclosing(f_.stmt, (ast.ExceptHandler,)) is enclosing(e.stmt, (ast.ExceptHandler,)) for f_ in fl) for e in ex), "C03.R4", sf, None, "the save loop can end without the flush having happened", site_text="Saver.save_from: loop ends only after flush")
    saves = [c for c in calls_in(sf.node) if call_name(c) == "self.save"]
    CNT = norm(kw(saves[0], "chunk_i")) if saves and isinstance(kw(saves[0], "chunk_i"), ast.Name) else None
    inc = [n for n in walk_body(sf.node) if isinstance(n, ast.AugAssign) and CNT and norm(n.target) == CNT]
    ok = len(inc) == 1 and len(saves) == 1 and isinstance(inc[0].value, ast.Constant) and inc[0].value.value == 1 and enclosing(inc[0], (ast.For,)) is enclosing(saves[0], (ast.For,)) and enclosing(inc[0], (ast.If,)) is None
    chk.check(ok, "C03.R4", sf, None, "chunk number does not advance exactly once per saved chunk (files would be overwritten or numbered with gaps)", site_text="Saver.save_from: chunk_i += 1 once per save")
    chk.check(bool(saves) and CNT is not None and any(pmatch(f"{CNT} = 0", n) is not None for n in walk_body(sf.node) if isinstance(n, ast.Assign)), "C03.R4", sf, None, "save is not given the running chunk number", site_text="Saver.save_from: save(chunk_i=chunk_i)")
    # SaverSpy
    sc = repo.func("SaverSpy.close", SINGLE)
    scfg = cfg_of(sc)
    cl = [n for n in scfg.stmt_nodes() if not isinstance(n.stmt, COMPOUND) and node_calls(n, lambda c, nm: nm == "self.saver.close")]
    flush = lambda n: n.kind == "stmt" and not isinstance(n.stmt, COMPOUND) and any(call_name(c) == "self.rechunker.flush" for c in own_calls(n.stmt)) and any(call_name(c) == "self._save_chunk" for c in own_calls(n.stmt))
    ok, _ = scfg.every_path([scfg.entry], cl, flush, "n")
    chk.check(bool(cl) and ok, "C03.R4", sc, None, "single-thread saver is closed without saving the rows withheld by its rechunker", site_text="SaverSpy.close: _save_chunk(rechunker.flush()) before saver.close()")
    ss = repo.func("SaverSpy._save_chunk", SINGLE)
    inc = [n for n in walk_body(ss.node) if isinstance(n, ast.AugAssign) and norm(n.target) == "self.chunk_number"]
    sv = [c for c in calls_in(ss.node) if call_name(c) == "self.saver.save"]
    chk.check(len(inc) == 1 and len(sv) == 1 and enclosing(inc[0], (ast.For,)) is enclosing(sv[0], (ast.For,)) and norm(sv[0].args[1]) == "self.chunk_number", "C03.R4", ss, None, "single-thread chunk numbering does not advance once per saved chunk", site_text="SaverSpy._save_chunk: chunk_number += 1 once per save")
    rc = repo.func("SaverSpy.receive", SINGLE)
    chk.check(any(call_name(c) == "self._save_chunk" and c.args and "self.rechunker.receive" in norm(c.args[0]) for c in calls_in(rc.node)), "C03.R4", rc, None, "received chunks bypass the rechunker / are not saved", site_text="SaverSpy.receive: _save_chunk(rechunker.receive(chunk))")
    # Rechunker.flush hands out and clears the cache
    rf = repo.func("Rechunker.flush", CHUNK)
    rets = [n for n in walk_body(rf.node) if isinstance(n, ast.Return) and n.value is not None]
    def _is_cache(e):
        if norm(e) == "self.cache":
            return True
        return isinstance(e, ast.Name) and bool(pfind(rf.node, f"{e.id} = self.cache"))
    chk.check(any(isinstance(r.value, ast.List) and r.value.elts and _is_cache(r.value.elts[0]) for r in rets), "C03.R4", rf, None, "flush does not return the cached chunk", site_text="Rechunker.flush: returns the cache")
    rr = repo.func("Rechunker.receive", CHUNK)
    rcfg = cfg_of(rr)
    passthrough = [n for n in rcfg.stmt_nodes() if isinstance(n.stmt, ast.Return) and ("self.rechunk", False) in rcfg.guard_facts(n)]
    chk.check(bool(passthrough) and all(norm(n.stmt.value) == "[chunk]" for n in passthrough), "C03.R4", rr, None, "without rechunking the received chunk is not passed through unchanged", site_text="Rechunker.receive: [chunk] when not rechunking")


# ------------------------------------------------------------------------------------ R5
def r5_empty_and_rebuild(chk, repo):
    chk.describe("C03.R5", "writer and reader agree on empty chunks (no file written / none read) and the loader rebuilds each chunk from the stored start, end, run id, subruns and the metadata's dtype and kinds")
    sv = repo.func("Saver.save", COMMON)
    cfg = cfg_of(sv)
    cparam = sv.params[1]
    w = [n for n in cfg.stmt_nodes() if not isinstance(n.stmt, COMPOUND) and node_calls(n, lambda c, nm: nm == "self._save_chunk")]
    chk.check(bool(w) and all((f"len({cparam})", True) in cfg.guard_facts(n) for n in w), "C03.R5", sv, None, "writer no longer skips the file exactly for empty chunks", site_text="Saver.save: file written iff len(chunk)")
    rd = repo.func("StorageBackend._read_and_format_chunk", COMMON)
    rcfg = cfg_of(rd)
    r = [n for n in rcfg.stmt_nodes() if not isinstance(n.stmt, COMPOUND) and node_calls(n, lambda c, nm: nm == "self._read_chunk")]
    chk.check(bool(r) and all(("chunk_info['n'] == 0", False) in rcfg.guard_facts(n) for n in r), "C03.R5", rd, None, "reader tries to read a file for chunks recorded as empty (the writer never wrote one)", site_text="_read_and_format_chunk: file read iff n != 0")
    e = [n for n in rcfg.stmt_nodes() if isinstance(n.stmt, ast.Assign) and ("chunk_info['n'] == 0", True) in rcfg.guard_facts(n)]
    chk.check(bool(e) and all(pmatch("np.empty(0, dtype=dtype)", n.stmt.value) is not None for n in e), "C03.R5", rd, None, "empty chunk is not rebuilt as an empty array of the stored dtype", site_text="_read_and_format_chunk: np.empty(0, dtype) for n == 0")
    cons = [c for c in calls_in(rd.node) if (call_name(c) or "").endswith("Chunk")]
    chk.need(len(cons) == 1, "C03.R5: Chunk construction in _read_and_format_chunk not found")
    kws = {k.arg: norm(k.value) for k in cons[0].keywords if k.arg}
    DATA = kws.get("data")
    ddefs = [norm(n.value) for n in walk_body(rd.node) if isinstance(n, ast.Assign) and DATA and norm(n.targets[0]) == DATA]
    chk.check(bool(ddefs) and all(v.startswith("self._read_chunk(") or v.startswith("np.empty(0") for v in ddefs), "C03.R5", rd, stmt_of(cons[0]), "loaded chunk's data is not what was read from the chunk file", site_text="_read_and_format_chunk: Chunk(data=<rows read>)", site={"function": rd.qualname, "field": "data"})
    want = {"start": "chunk_info['start']", "end": "chunk_info['end']", "run_id": "chunk_info['run_id']"}
    for k, v in want.items():
        chk.check(kws.get(k) == v, "C03.R5", rd, stmt_of(cons[0]), f"loaded chunk's {k} is {kws.get(k)}, expected {v}", site_text=f"_read_and_format_chunk: Chunk({k}={v})", site={"function": rd.qualname, "field": k})
    SUB = kws.get("subruns")
    sr = [n for n, b in pfind(rd.node, f"{SUB} = chunk_info.get('subruns', None)")] if SUB and SUB.isidentifier() and not keyword.iskeyword(SUB) else []
    chk.check(bool(sr), "C03.R5", rd, None, "subruns are not restored from the chunk metadata", site_text="_read_and_format_chunk: subruns from chunk_info")
    ld = repo.func("StorageBackend.loader", COMMON)
    ck = [n for n in walk_body(ld.node) if isinstance(n, ast.Call) and call_name(n) == "dict" and any(k.arg == "data_kind" for k in n.keywords)]
    chk.need(len(ck) == 1, "C03.R5: chunk construction kwargs in StorageBackend.loader not found")
    kk = {k.arg: norm(k.value) for k in ck[0].keywords}
    DTN = kk.get("dtype")
    MDL, _x, _y = local_defined_as(ld.node, "self.get_metadata(backend_key)")
    chk.check(MDL is not None and kk.get("data_type") == f"{MDL}['data_type']" and kk.get("data_kind") == f"{MDL}['data_kind']" and DTN is not None, "C03.R5", ld, None, "data type / kind / dtype of loaded chunks do not come from the stored metadata", site_text="loader: data_type, data_kind, dtype from metadata")
    dt = [n for n, b in pfind(ld.node, f"{DTN} = literal_eval({MDL}['dtype'])")] if DTN and DTN.isidentifier() and not keyword.iskeyword(DTN) and MDL else []
    chk.check(bool(dt), "C03.R5", ld, None, "dtype is not parsed from the stored metadata", site_text="loader: dtype = literal_eval(metadata[dtype])")
    sb = repo.func("StorageBackend.saver", COMMON)
    chk.check(any(isinstance(n, ast.Assign) and norm(n.targets[0]) == "metadata['dtype']" and "descr" in norm(n.value) for n in walk_body(sb.node)), "C03.R5", sb, None, "dtype is not stored in the literal form the loader parses", site_text="StorageBackend.saver: metadata[dtype] = dtype.descr.__repr__()")
    # row count check on load (detects corruption): evidence
    nchk = [n for n in rcfg.stmt_nodes() if isinstance(n.stmt, ast.Raise) and ("len(data) != chunk_info['n']", True) in rcfg.guard_facts(n)]
    chk.note("row_count_check_on_load", bool(nchk))

# ------------------------------------------------------------------------------------ R6


def _flows_from(func, node, expr, sources, depth=8):
    """May `expr` at CFG `node` carry one of `sources` (a parameter name, or the normalised text
    of an attribute such as 'self.cache'), following the definitions that reach it?"""
    r = reaching(func)
    cfg = cfg_of(func)
    seen = set()

    def rec(e, at, d):
        for x in ast.walk(e):
            if isinstance(x, ast.Attribute) and norm(x) in sources:
                return True
            if isinstance(x, ast.Name):
                for name, val, st, how in r.defs_of(at, x.id):
                    if how == "param":
                        if name in sources:
                            return True
                        continue
                    key = (id(st), x.id)
                    if key in seen or val is None or d <= 0:
                        continue
                    seen.add(key)
                    v = val.value if how == "aug" else val
                    src = cfg.nodes_of(st) if isinstance(st, ast.stmt) else []
                    if rec(v, src[0] if src else at, d - 1):
                        return True
        return False

    return rec(expr, node, depth)


def r6_rechunker_conservation(chk, repo):
    chk.describe("C03.R6", "the rechunker conserves what it receives: on every path of receive the incoming chunk flows into the returned list or into the cache, the cached remainder is merged in front of the next chunk, every left part split off is emitted, and split points come from gaps measured against the running maximum of the end times")
    rr = repo.func("Rechunker.receive", CHUNK)
    cfg = cfg_of(rr)
    cparam = rr.node.args.args[1].arg
    dom = cfg.dominators("n")
    cache_sets = [n for n in cfg.stmt_nodes() if isinstance(n.stmt, ast.Assign) and any(norm(t) == "self.cache" for t in n.stmt.targets)]
    rets = [n for n in cfg.stmt_nodes() if isinstance(n.stmt, ast.Return)]
    chk.need(bool(rets), "C03.R6: Rechunker.receive has no return")
    for n in rets:
        direct = n.stmt.value is not None and _flows_from(rr, n, n.stmt.value, {cparam})
        cached = any(c in dom.get(n, ()) and _flows_from(rr, c, c.stmt.value, {cparam}) for c in cache_sets)
        chk.check(direct or cached, "C03.R6", rr, n.stmt, "a path of Rechunker.receive returns without the received chunk having gone into the returned list or the cache: its rows / time range are lost", site={"function": rr.qualname, "return": norm(n.stmt.value) if n.stmt.value is not None else "None", "guards": sorted(f"{t}={p}" for t, p in cfg.guard_facts(n))})
    # the cached remainder is merged in front of the new chunk
    cc = [c for c in calls_in(rr.node) if call_name(c).endswith("Chunk.concatenate") or call_name(c).endswith(".concatenate") and "Chunk" in call_name(c)]
    ok = False
    for c in cc:
        if c.args and isinstance(c.args[0], (ast.List, ast.Tuple)) and len(c.args[0].elts) == 2:
            a, b = c.args[0].elts
            n_ = cfg.node_of(stmt_of(c))
            if norm(a) == "self.cache" and _flows_from(rr, n_, b, {cparam}) and ("self.cache is not None", True) in cfg.guard_facts(n_):
                st = stmt_of(c)
                ok = isinstance(st, ast.Assign) and any(cs in cfg.reachable([n_], "n") and _flows_from(rr, cs, cs.stmt.value, {"self.cache"}) for cs in cache_sets) or any(_flows_from(rr, r_, r_.stmt.value, {"self.cache"}) for r_ in rets if r_.stmt.value is not None)
    chk.check(ok, "C03.R6", rr, None, "rows held back in the cache are not merged in front of the next chunk (they are lost or reordered)", site_text="Rechunker.receive: concatenate([self.cache, chunk]) when a remainder is cached")
    # every left part split off is emitted and the right part continues
    splits = [st for st in walk_body(rr.node) if isinstance(st, ast.Assign) and isinstance(st.value, ast.Call) and isinstance(st.value.func, ast.Attribute) and st.value.func.attr == "split" and isinstance(st.targets[0], ast.Tuple) and len(st.targets[0].elts) == 2]
    chk.check(len(splits) >= 1, "C03.R6", rr, None, "Rechunker.receive no longer splits the merged chunk", site_text="Rechunker.receive: left, rest = chunk.split(...)")
    for st in splits:
        left, rest = st.targets[0].elts
        appended = [c for c in calls_in(rr.node) if isinstance(c.func, ast.Attribute) and c.func.attr == "append" and c.args and norm(c.args[0]) == norm(left) and isinstance(c.func.value, ast.Name)]
        lists = {c.func.value.id for c in appended}
        emitted = any(r_.stmt.value is not None and (set(atoms(r_.stmt.value)) & lists) for r_ in rets)
        same_body = any(enclosing(stmt_of(c), (ast.For, ast.While)) is enclosing(st, (ast.For, ast.While)) and enclosing(stmt_of(c), (ast.If,)) is enclosing(st, (ast.If,)) for c in appended)
        chk.check(emitted and same_body, "C03.R6", rr, st, "the left part of a split is not appended (once per split) to the list receive returns", site={"function": rr.qualname, "split": "left part emitted"})
        chk.check(norm(rest) == norm(st.value.func.value), "C03.R6", rr, st, "the right part of a split is not what is split / cached next", site={"function": rr.qualname, "split": "right part continues"})
    # gaps are measured against the running maximum of endtimes
    gs = repo.func("Rechunker.get_splits", CHUNK)
    dcalls = [c for c in calls_in(gs.node) if call_name(c) in ("strax.diff", "diff")]
    chk.check(len(dcalls) >= 1 and all(isinstance(getattr(c, "_parent", None), ast.Compare) for c in dcalls), "C03.R6", gs, None, "split candidates are no longer the positions where strax.diff exceeds the minimum gap", site_text="Rechunker.get_splits: strax.diff(data) > min_gap")
    df = repo.func("diff", "strax/processing/general.py")
    ddefs = Defs(df.node)
    subs = []
    for n in walk_body(df.node):
        for x in ast.walk(n) if not isinstance(n, COMPOUND) else ():
            if isinstance(x, ast.BinOp) and isinstance(x.op, ast.Sub):
                pl, pr = provenance(ddefs, x.left), provenance(ddefs, x.right)
                if "str:time" in pl and "call:endtime" in pr:
                    subs.append((x, pr))
    chk.check(bool(subs), "C03.R6", df, None, "strax.diff no longer computes time minus end time", site_text="strax.diff: gap = time - end")
    for x, pr in subs:
        chk.check(bool({"call:max", "call:maximum", "call:accumulate"} & pr), "C03.R6", df, stmt_of(x), "strax.diff measures the gap to the previous row's end only, not to the running maximum of end times: with overlapping rows the rechunker would cut through a row", site={"function": df.qualname, "rule": "gap against running max endtime"})


WITNESSES = [
    W("threaded writes forget the compressor", "C03.R1", FILES,
      "return dict(filename=filename), executor.submit(strax.save_file, fn, **kwargs)", "return dict(filename=filename), executor.submit(strax.save_file, fn, data=data)"),
    W("per-chunk metadata named after the bare chunk number", "C03.R3", FILES,
      "fn = f\"{self.tempdirname}/metadata_{filename}.json\"", "fn = f\"{self.tempdirname}/metadata_{self.prefix}-{chunk_info['chunk_i']}.json\""),
    W("chunk files no longer zero-padded", "C03.R3", FILES,
      "ichunk = \"%06d\" % chunk_info[\"chunk_i\"]", "ichunk = \"%d\" % chunk_info[\"chunk_i\"]"),
    W("bz2 stream truncated at one buffer per read", "C03.R1", IO,
      "decompressor = bz2.BZ2Decompressor()\n    data = bytearray()  # Efficient mutable storage\n    for d in iter(lambda: f.read(buffer_size), b\"\"):\n        data.extend(decompressor.decompress(d))",
      "decompressor = bz2.BZ2Decompressor()\n    data = bytearray()  # Efficient mutable storage\n    for d in iter(lambda: f.read(buffer_size), b\"\"):\n        data.extend(decompressor.decompress(d, max_length=buffer_size))"),
    W("lz4 entry uses the bz2 streaming decompressor", "C03.R1", IO,
      "lz4=dict(compress=lz4.compress, decompress=lz4.decompress, _decompress=_lz4_decompress)", "lz4=dict(compress=lz4.compress, decompress=lz4.decompress, _decompress=_bz2_decompress)"),
    W("zstd entry compresses with blosc", "C03.R1", IO,
      "zstd=dict(compress=_zstd_compress,", "zstd=dict(compress=_blosc_compress,"),
    W("loader uses a fixed compressor", "C03.R1", COMMON,
      "backend_key, chunk_info=chunk_info, dtype=dtype, compressor=metadata[\"compressor\"]", "backend_key, chunk_info=chunk_info, dtype=dtype, compressor=\"blosc\""),
    W("rename the row-count key in Saver.save", "C03.R2", COMMON,
      "chunk_i=chunk_i,\n            n=len(chunk),", "chunk_i=chunk_i,\n            n_rows=len(chunk),"),
    W("plugin metadata drops data_kind", "C03.R2", PLUGIN,
      "data_kind=self.data_kind_for(data_type),\n            dtype=self.dtype_for(data_type),", "dtype=self.dtype_for(data_type),"),
    W("start taken from the chunk end", "C03.R3", COMMON,
      "start=chunk.start,\n            end=chunk.end,", "start=chunk.end,\n            end=chunk.end,"),
    W("overall end from the first chunk", "C03.R3", COMMON,
      "self.md[\"end\"] = self.md[\"chunks\"][-1][\"end\"]", "self.md[\"end\"] = self.md[\"chunks\"][0][\"end\"]"),
    W("nbytes of the previous buffer", "C03.R3", COMMON,
      "nbytes=chunk.nbytes,", "nbytes=0,"),
    W("SaverSpy.close forgets the flush", "C03.R4", SINGLE,
      "self._save_chunk(self.rechunker.flush())\n        self.saver.close()", "self.saver.close()"),
    W("save_from does not flush on exhaustion", "C03.R4", COMMON,
      "exhausted = True\n                    chunks = rechunker.flush()", "exhausted = True\n                    chunks = []"),
    W("chunk number advanced only for futures", "C03.R4", COMMON,
      "if new_f is not None:\n                        pending += [new_f]\n                    chunk_i += 1", "if new_f is not None:\n                        pending += [new_f]\n                        chunk_i += 1"),
    W("reader reads files for empty chunks", "C03.R5", COMMON,
      "if chunk_info[\"n\"] == 0:\n            # No data, no need to load\n            data = np.empty(0, dtype=dtype)\n        else:\n            data = self._read_chunk(",
      "if False:\n            # No data, no need to load\n            data = np.empty(0, dtype=dtype)\n        else:\n            data = self._read_chunk("),
    W("loaded chunk gets the run id of the request", "C03.R5", COMMON,
      "run_id=chunk_info[\"run_id\"],\n            subruns=subruns,", "run_id=metadata[\"run_id\"],\n            subruns=subruns,"),
    W("empty chunk dropped while a remainder is cached", "C03.R6", CHUNK,
      "if self.cache is not None:\n            # We have an old chunk",
      "if self.cache is not None:\n            if not len(chunk):\n                return []\n            # We have an old chunk"),
    W("cache overwritten instead of merged", "C03.R6", CHUNK,
      "chunk = strax.Chunk.concatenate([self.cache, chunk], allow_superrun=self.is_superrun)", "chunk = strax.Chunk.concatenate([chunk], allow_superrun=self.is_superrun)"),
    W("left part of a split not emitted", "C03.R6", CHUNK,
      "allow_early_split=False,\n            )\n            chunks.append(_chunk)", "allow_early_split=False,\n            )"),
    W("remainder not cached", "C03.R6", CHUNK,
      "chunks.append(_chunk)\n        self.cache = chunk\n        return chunks", "chunks.append(_chunk)\n        return chunks"),
    W("diff against the previous end only", "C03.R6", "strax/processing/general.py",
      "max_endtime = max(max_endtime, endtime)\n        results[i] = time - max_endtime", "max_endtime = endtime\n        results[i] = time - max_endtime"),
    W("subruns dropped on load", "C03.R5", COMMON,
      "run_id=chunk_info[\"run_id\"],\n            subruns=subruns,", "run_id=chunk_info[\"run_id\"],\n            subruns=None,"),
]
