"""C10 - time-range, row and column selections commute with chunking and storage.

Decided statically: the chunk-pruning test of the loader is exactly "no overlap" and is safe for
both row-selection modes (exhaustive over all weak orderings of the six bounds involved); both row
predicates equal their definitions; no saver is created for partial requests; the explicit error
when no chunk was seen; the selection is applied to every yielded chunk with the request's own
parameters; the in-chunk time-range trimming splits early on the left and strictly on the right.
Not decided: equality with filter(full result) on data.
"""

import ast

from ..cfg import cfg_of, literals
from ..dataflow import Defs, calls_in, stmt_of
from ..index import AnalysisError, call_name, dotted, enclosing, head, norm, walk_body
from ..ordering import describe, evaluate, parse_pred, weak_orderings
from ..pattern import find as pfind, has_fact, local_defined_as, pmatch
from ..rules import COMPOUND, kw, node_calls, own_calls
from ..witness import W
from . import c11

COMMON = "strax/storage/common.py"
UTILS = "strax/utils.py"
CONTEXT = "strax/context.py"

EXPLANATION = (
    "R1 ordering-domain enumeration: the skip condition of StorageBackend.loader over (chunk start, "
    "chunk end, range start, range end) and the two row predicates of apply_selection over (row "
    "start, row end, range start, range end) are evaluated on all 4683 weak orderings of the six "
    "symbols (restricted to chunk start <= row start < row end <= chunk end): skip must imply that no "
    "row of the chunk is selected in either mode, skip must equal `not (cs < hi and lo < ce)`, and "
    "each row predicate must equal its definition. R2 no-save guards for time_range / selection / "
    "keep_columns / drop_columns dominate saver creation (shared with C11.R2). R3 get_iter raises "
    "when no chunk was produced. R4 the yield in get_iter is dominated by apply_selection called "
    "with the request's parameters. R5 apply_time_range trims left with an early split and right "
    "with a strict split whose failure is tolerated. R6 argument validation of apply_selection."
)
RULE_TEXT = "one obligation per weak ordering class (reported as one obligation per predicate), per required guard, per argument binding"
ASSUMPTIONS = ["rows have positive duration (time < endtime) and lie inside their chunk (enforced by Chunk.__init__)"]


def run(chk):
    repo = chk.repo
    r1_pruning(chk, repo)
    c11.saver_guards(chk, repo, rule="C10.R2", only=("time_range", "selection", "keep_columns", "drop_columns"))
    r3_r4_get_iter(chk, repo)
    r5_apply_time_range(chk, repo)
    r6_arguments(chk, repo)


def _loader_skip(repo):
    f = repo.func("StorageBackend.loader", COMMON)
    cfg = cfg_of(f)
    for n in cfg.stmt_nodes():
        if isinstance(n.stmt, ast.If) and any(isinstance(x, ast.Continue) for x in n.stmt.body) and "time_range[" in norm(n.stmt.test):
            lp = enclosing(n.stmt, (ast.For,))
            ci = None
            if lp is not None and isinstance(lp.target, ast.Tuple) and "iter_chunk_meta" in norm(lp.iter):
                ci = norm(lp.target.elts[1])
            if ci and f"{ci}[" in norm(n.stmt.test):
                facts = cfg.guard_facts(n)
                return f, n.stmt, facts, ci
    raise AnalysisError("C10.R1: chunk-pruning test in StorageBackend.loader not found")


def _row_predicates(repo):
    f = repo.func("apply_selection", UTILS)
    cfg = cfg_of(f)
    out = {}
    for n in cfg.stmt_nodes():
        if isinstance(n.stmt, ast.Assign) and norm(n.stmt.targets[0]) == "x" and isinstance(n.stmt.value, ast.Subscript) and norm(n.stmt.value.value) == "x":
            for t, p in cfg.guard_facts(n):
                if t.startswith("time_selection == ") and p:
                    mode = t.split("== ")[1].strip("'\"")
                    out[mode] = (n.stmt.value.slice, n)
    return f, cfg, out


def r1_pruning(chk, repo):
    chk.describe("C10.R1", "chunk pruning equals `no overlap with the range`, never drops a chunk containing a selected row (both modes), and the row predicates equal their definitions - on every weak ordering")
    lf, skip_if, facts, CI = _loader_skip(repo)
    chk.check(("time_range", True) in facts, "C10.R1", lf, skip_if, "pruning is applied without a time range", site_text="loader: pruning only under `if time_range`", nontrivial=False)
    skip = skip_if.test
    sf, scfg, preds = _row_predicates(repo)
    chk.check(set(preds) >= {"fully_contained", "touching"}, "C10.R1", sf, None, f"row predicates for fully_contained / touching not found (found {sorted(preds)})", site_text="apply_selection: both time-selection modes present")
    sym_chunk = {f"{CI}['start']": "cs", f"{CI}['end']": "ce", "time_range[0]": "lo", "time_range[1]": "hi"}
    sym_row = {"x['time']": "t", "strax.endtime(x)": "e", "time_range[0]": "lo", "time_range[1]": "hi"}
    spec_skip = parse_pred("not (cs < hi and lo < ce)")
    spec = {"fully_contained": parse_pred("lo <= t and e <= hi"), "touching": parse_pred("lo < e and t < hi")}
    ident = {s: s for s in ["cs", "ce", "lo", "hi", "t", "e"]}
    n_ord = 0
    bad = {"skip-spec": None, "skip-safe": None, "fully_contained": None, "touching": None}
    try:
        for env in weak_orderings(["cs", "ce", "lo", "hi", "t", "e"]):
            if not (env["cs"] <= env["t"] < env["e"] <= env["ce"]):
                continue
            n_ord += 1
            s = evaluate(skip, env, sym_chunk)
            if s != evaluate(spec_skip, env, ident) and bad["skip-spec"] is None:
                bad["skip-spec"] = dict(env)
            for mode in ("fully_contained", "touching"):
                if mode not in preds:
                    continue
                sel = evaluate(preds[mode][0], env, sym_row)
                if sel != evaluate(spec[mode], env, ident) and bad[mode] is None:
                    bad[mode] = dict(env)
                if s and sel and bad["skip-safe"] is None:
                    bad["skip-safe"] = (dict(env), mode)
    except AnalysisError as ex:
        chk.fail("C10.R1", lf, skip_if, f"pruning test or row predicate is no longer comparison-only over the expected operands: {ex}")
        return
    chk.note("orderings_enumerated", n_ord)
    chk.exhaustive = True
    chk.check(bad["skip-spec"] is None, "C10.R1", lf, skip_if, "chunk pruning differs from `chunk does not overlap [lo, hi)`" + (f", e.g. for {describe(bad['skip-spec'])}" if bad["skip-spec"] else ""),
              site_text=f"loader: skip == not overlapping on {n_ord} orderings", site={"function": lf.qualname, "construct": "pruning == no overlap"})
    chk.check(bad["skip-safe"] is None, "C10.R1", lf, skip_if, "a chunk containing a selected row is pruned" + (f" (mode {bad['skip-safe'][1]}, ordering {describe(bad['skip-safe'][0])})" if bad["skip-safe"] else "") + ": rows at a chunk edge are silently missing from the result",
              site_text=f"loader: skip implies no selected row in either mode on {n_ord} orderings", site={"function": lf.qualname, "construct": "pruning safe"})
    for mode in ("fully_contained", "touching"):
        if mode in preds:
            chk.check(bad[mode] is None, "C10.R1", sf, preds[mode][1].stmt, f"row predicate of time_selection={mode!r} differs from its definition" + (f", e.g. for {describe(bad[mode])}" if bad[mode] else ""),
                      site_text=f"apply_selection[{mode}] equals its definition on {n_ord} orderings", site={"function": sf.qualname, "construct": mode})


def r3_r4_get_iter(chk, repo):
    chk.describe("C10.R3", "a request that produced no chunk raises an explicit error")
    chk.describe("C10.R4", "every yielded chunk went through apply_selection with the request's own selection, columns, time range and mode")
    gi = repo.func("Context.get_iter", CONTEXT)
    cfg = cfg_of(gi)
    # the flag: a local set to False before the loop, tested with `not <flag>` at the end
    SEEN = None
    for n_, b in pfind(gi.node, "L_s = False"):
        if any(isinstance(x, ast.If) and pmatch(f"not {b['L_s']}", x.test) is not None and any(isinstance(y, ast.Raise) for y in ast.walk(x)) for x in gi.node.body):
            SEEN = b["L_s"]
    chk.check(SEEN is not None, "C10.R3", gi, None, "no explicit error when the request returned no chunks", site_text="get_iter: `if not <seen a chunk>: raise` at the end")
    SEEN = SEEN or "seen_a_chunk"
    # alternative range arguments are converted to an absolute range before anything uses the range
    conv = [n for n in cfg.stmt_nodes() if isinstance(n.stmt, ast.Assign) and norm(n.stmt.targets[0]) == "time_range" and isinstance(n.stmt.value, ast.Call) and (call_name(n.stmt.value) or "").endswith("to_absolute_time_range")]
    chk.check(len(conv) == 1, "C10.R4", gi, None, "get_iter does not convert seconds_range / time_within into an absolute time_range at one place", site_text="get_iter: time_range = self.to_absolute_time_range(...)")
    if len(conv) == 1:
        dom = cfg.dominators("n")
        for n in cfg.nodes:
            if n is conv[0]:
                continue
            exprs = [n.test] if n.kind == "guard" and n.test is not None else ([n.stmt] if n.kind == "stmt" and not isinstance(n.stmt, COMPOUND) else [])
            uses = [x for e in exprs for x in ast.walk(e) if isinstance(x, ast.Name) and x.id == "time_range" and isinstance(x.ctx, ast.Load)]
            if uses and n in dom and conv[0] not in dom[n]:
                chk.fail("C10.R4", gi, n.stmt if n.kind == "stmt" else n.owner, "`time_range` is used before seconds_range / time_within have been converted into it: for those requests the planner (no saving, availability errors, chunk pruning) or the row filter sees no range at all",
                         site={"function": gi.qualname, "rule": "range normalised before use", "use": head(n.stmt if n.kind == "stmt" else n.owner, 60)})
        chk.ok("C10.R4", "get_iter: every use of time_range comes after the conversion")
    rs = [n for n in cfg.stmt_nodes() if isinstance(n.stmt, ast.Raise) and (SEEN, False) in cfg.guard_facts(n) and enclosing(n.stmt, (ast.ExceptHandler,)) is None]
    chk.check(len(rs) >= 2, "C10.R3", gi, None, "no explicit error when the request returned no chunks", site_text="get_iter: raise if not seen_a_chunk (with and without time range)")
    tests = [n for n in cfg.stmt_nodes() if isinstance(n.stmt, ast.If) and norm(n.stmt.test) == f"not {SEEN}"]
    ok = False
    for t in tests:
        okp, _ = cfg.every_path([cfg.entry], [cfg.exit_return], lambda n: n is t, "n")
        ok = ok or okp
    chk.check(ok, "C10.R3", gi, None, "a normal exit of get_iter bypasses the no-chunk test", site_text="get_iter: every normal exit passes the no-chunk test", site={"function": gi.qualname, "construct": "no-chunk test"})
    sets = [n for n in cfg.stmt_nodes() if isinstance(n.stmt, ast.Assign) and norm(n.stmt.targets[0]) == SEEN and norm(n.stmt.value) == "True"]
    chk.check(bool(sets) and all(enclosing(n.stmt, (ast.For,)) is not None for n in sets), "C10.R3", gi, None, "seen_a_chunk is set outside the chunk loop", site_text="get_iter: seen_a_chunk set only inside the loop")
    ys = [n for n in cfg.stmt_nodes() if not isinstance(n.stmt, COMPOUND) and any(isinstance(x, ast.Yield) for x in ast.walk(n.stmt))]
    chk.floor("C10.R4", "yields in get_iter", len(ys), 1)
    sel = [n for n in cfg.stmt_nodes() if not isinstance(n.stmt, COMPOUND) and node_calls(n, lambda c, nm: nm.endswith("apply_selection"))]
    dom = cfg.dominators("n")
    for y in ys:
        chk.check(any(s in dom[y] for s in sel), "C10.R4", gi, y.stmt, "a chunk is yielded without the row / column / time selection applied", site_text="get_iter: apply_selection dominates the yield", site={"function": gi.qualname, "construct": "selection before yield"})
    for s in sel:
        c = [c for c in own_calls(s.stmt) if (call_name(c) or "").endswith("apply_selection")][0]
        for name in ("selection", "keep_columns", "drop_columns", "time_range", "time_selection"):
            v = kw(c, name)
            chk.check(v is not None and norm(v) == name, "C10.R4", gi, s.stmt, f"apply_selection is not given the request's {name}", site_text=f"get_iter: apply_selection({name}={name})", site={"function": gi.qualname, "argument": name})
        chk.check(isinstance(s.stmt, ast.Assign) and norm(s.stmt.targets[0]).endswith(".data") and norm(c.args[0]) == norm(s.stmt.targets[0]), "C10.R4", gi, s.stmt, "selected rows are not what is yielded", site_text="get_iter: result.data = apply_selection(result.data, ...)")
    # the loaders get the same time range
    gc = repo.func("Context.get_components.check_cache", CONTEXT)
    ld = [c for c in calls_in(gc.node) if call_name(c) == "self._get_partial_loader_for"]
    first = [c for c in ld if kw(c, "rechunk") is not None and "sub_key" not in norm(c.args[0])]
    chk.check(bool(first) and all(norm(kw(c, "time_range")) == "time_range" for c in first), "C10.R4", gc, None, "stored data is not loaded with the requested time range", site_text="check_cache: loader(time_range=time_range)")


def r5_apply_time_range(chk, repo):
    chk.describe("C10.R5", "inside a chunk the range is cut on the left with an early split and on the right with a strict split whose failure keeps the straddling row for the row filter")
    f = repo.func("StorageBackend.apply_time_range", COMMON)
    cfg = cfg_of(f)
    sp = [n for n in cfg.stmt_nodes() if isinstance(n.stmt, ast.Assign) and isinstance(n.stmt.value, ast.Call) and isinstance(n.stmt.value.func, ast.Attribute) and n.stmt.value.func.attr == "split"]
    chk.check(len(sp) == 2, "C10.R5", f, None, f"expected a left and a right split, found {len(sp)}", site_text="apply_time_range: two splits")
    for n in sp:
        c = n.stmt.value
        t = norm(kw(c, "t")) if kw(c, "t") is not None else ""
        a = kw(c, "allow_early_split")
        tg = [norm(x) for x in n.stmt.targets[0].elts] if isinstance(n.stmt.targets[0], ast.Tuple) else []
        facts = cfg.guard_facts(n)
        if t == "time_range[0]":
            chk.check(("chunk.start < time_range[0]", True) in facts, "C10.R5", f, n.stmt, "left cut not limited to chunks starting before the range", site_text="left cut iff chunk.start < lo", nontrivial=False)
            chk.check(isinstance(a, ast.Constant) and a.value is True, "C10.R5", f, n.stmt, "left cut is strict: a row straddling the range start makes loading fail instead of being kept for the row filter", site_text="left cut: allow_early_split=True", site={"function": f.qualname, "construct": "left split"})
            chk.check(tg == ["_", "chunk"], "C10.R5", f, n.stmt, "left cut keeps the part before the range", site_text="left cut keeps the right part")
        elif t == "time_range[1]":
            chk.check(("chunk.end > time_range[1]", True) in facts, "C10.R5", f, n.stmt, "right cut not limited to chunks ending after the range", site_text="right cut iff chunk.end > hi", nontrivial=False)
            chk.check(isinstance(a, ast.Constant) and a.value is False, "C10.R5", f, n.stmt, "right cut may move earlier: rows before the requested end would be lost", site_text="right cut: allow_early_split=False", site={"function": f.qualname, "construct": "right split"})
            chk.check(tg == ["chunk", "_"], "C10.R5", f, n.stmt, "right cut keeps the part after the range", site_text="right cut keeps the left part")
            tr = enclosing(n.stmt, (ast.Try,))
            chk.check(tr is not None and any("CannotSplit" in norm(h.type or ast.Constant(None)) for h in tr.handlers), "C10.R5", f, n.stmt, "a row straddling the range end makes loading fail", site_text="right cut tolerates CannotSplit")
        else:
            chk.fail("C10.R5", f, n.stmt, f"split at `{t}` is neither range bound")
    rd = repo.func("StorageBackend._read_and_format_chunk", COMMON)
    rcfg = cfg_of(rd)
    ap = [n for n in rcfg.stmt_nodes() if isinstance(n.stmt, ast.Return) and "apply_time_range" in norm(n.stmt.value)]
    chk.check(bool(ap) and all(("time_range", True) in rcfg.guard_facts(n) and pmatch("self.apply_time_range(L_c, time_range)", n.stmt.value) is not None and bool(pfind(rd.node, f"{pmatch('self.apply_time_range(L_c, time_range)', n.stmt.value)['L_c']} = strax.Chunk(**___)")) for n in ap), "C10.R5", rd, None, "loaded chunks are not trimmed to the requested range", site_text="_read_and_format_chunk: apply_time_range(chunk, time_range) when a range is given")


def r6_arguments(chk, repo):
    chk.describe("C10.R6", "apply_selection rejects contradictory column arguments and unknown modes; time ranges are made integer")
    f = repo.func("apply_selection", UTILS)
    cfg = cfg_of(f)
    chk.check(any(isinstance(n.stmt, ast.Raise) and {("drop_columns", True), ("keep_columns", True)} <= cfg.guard_facts(n) for n in cfg.stmt_nodes()), "C10.R6", f, None, "keep_columns and drop_columns together are accepted", site_text="apply_selection: raise if both keep and drop")
    unk = [n for n in cfg.stmt_nodes() if isinstance(n.stmt, ast.Raise) and any(t.startswith("time_selection == ") and not p for t, p in cfg.guard_facts(n))]
    chk.check(bool(unk), "C10.R6", f, None, "unknown time_selection values are ignored silently", site_text="apply_selection: raise on unknown time_selection")
    sk = [g for g in cfg.nodes if g.kind == "guard" and g.test is not None and norm(g.test) == "time_range is None or time_selection == 'skip'"]
    chk.check(bool(sk), "C10.R6", f, None, "time selection is not skipped exactly when no range is given or mode is skip", site_text="apply_selection: no time filter iff time_range is None or mode == skip", nontrivial=False)
    sl = [n for n in cfg.stmt_nodes() if isinstance(n.stmt, ast.Assign) and "parse_selection(x, selection)" in norm(n.stmt.value)]
    chk.check(bool(sl) and all(("selection", True) in cfg.guard_facts(n) for n in sl), "C10.R6", f, None, "row selection is not applied when given", site_text="apply_selection: x = x[parse_selection(x, selection)]")
    rets = [n for n in walk_body(f.node) if isinstance(n, ast.Return)]
    chk.check(all(norm(r.value) == "x" for r in rets), "C10.R6", f, None, "apply_selection does not return the filtered array", site_text="apply_selection: returns x", nontrivial=False)
    ta = repo.func("Context.to_absolute_time_range", CONTEXT)
    ints = [n for n, b in pfind(ta.node, "time_range = tuple([int(L_x) for L_x in time_range])")]
    chk.check(bool(ints), "C10.R6", ta, None, "time ranges are not converted to integers (float ns lose precision)", site_text="to_absolute_time_range: int() on both bounds")
    tw = [n for n in walk_body(ta.node) if isinstance(n, ast.Assign) and norm(n.targets[0]) == "time_range" and "time_within" in norm(n.value)]
    chk.check(bool(tw) and all(norm(n.value) == "(time_within['time'], strax.endtime(time_within))" for n in tw), "C10.R6", ta, None, "time_within is not converted to (time, endtime) of the row", site_text="to_absolute_time_range: time_within -> (time, endtime)")
    sr = [n for n in walk_body(ta.node) if isinstance(n, ast.Assign) and norm(n.targets[0]) == "time_range" and "seconds_range" in norm(n.value)]
    chk.check(bool(sr) and all(pmatch("(L_t0 + int(1000000000.0 * seconds_range[0]), L_t0 + int(1000000000.0 * seconds_range[1]))", n.value) is not None for n in sr), "C10.R6", ta, None, "seconds_range is not converted relative to the run start on both bounds", site_text="to_absolute_time_range: t0 + 1e9 * seconds on both bounds")


WITNESSES = [
    W("range arguments converted after planning", "C10.R4", CONTEXT,
      "seen_a_chunk = False\n        generator = processor(", "time_range = self.to_absolute_time_range(run_id=run_id, targets=targets_list, time_range=time_range, seconds_range=seconds_range, time_within=time_within)\n        seen_a_chunk = False\n        generator = processor("),
    W("pruning with < on the left bound", "C10.R1", COMMON,
      "if chunk_info[\"end\"] <= time_range[0] or time_range[1] <= chunk_info[\"start\"]:", "if chunk_info[\"end\"] < time_range[0] or time_range[1] <= chunk_info[\"start\"]:"),
    W("pruning drops chunks ending inside the range", "C10.R1", COMMON,
      "if chunk_info[\"end\"] <= time_range[0] or time_range[1] <= chunk_info[\"start\"]:", "if chunk_info[\"end\"] <= time_range[1] or time_range[1] <= chunk_info[\"start\"]:"),
    W("pruning compares start with the range start", "C10.R1", COMMON,
      "or time_range[1] <= chunk_info[\"start\"]:", "or time_range[0] <= chunk_info[\"start\"]:"),
    W("touching uses >=", "C10.R1", UTILS,
      "x = x[(strax.endtime(x) > time_range[0]) & (x[\"time\"] < time_range[1])]", "x = x[(strax.endtime(x) >= time_range[0]) & (x[\"time\"] < time_range[1])]"),
    W("fully_contained exclusive on the right", "C10.R1", UTILS,
      "x = x[(time_range[0] <= x[\"time\"]) & (strax.endtime(x) <= time_range[1])]", "x = x[(time_range[0] <= x[\"time\"]) & (strax.endtime(x) < time_range[1])]"),
    W("selection no-save guard deleted", "C10.R2", CONTEXT,
      "if selection is not None:\n                self.log.warning(f\"Not saving {target_i} while applying selections in the run\")\n                return", "pass"),
    W("no-chunk error deleted", "C10.R3", CONTEXT,
      "if not seen_a_chunk:\n            if time_range is None:\n                raise strax.DataCorrupted(\"No data returned!\")\n            raise ValueError(f\"Invalid time range: {time_range}, returned no chunks!\")", "pass"),
    W("yield before apply_selection", "C10.R4", CONTEXT,
      "result.data = strax.apply_selection(\n                        result.data,", "yield result\n                    result.data = strax.apply_selection(\n                        result.data,"),
    W("time_selection not forwarded", "C10.R4", CONTEXT,
      "time_range=time_range,\n                        time_selection=time_selection,\n                    )", "time_range=time_range,\n                    )"),
    W("early split on the right", "C10.R5", COMMON,
      "chunk, _ = chunk.split(t=time_range[1], allow_early_split=False)", "chunk, _ = chunk.split(t=time_range[1], allow_early_split=True)"),
    W("strict split on the left", "C10.R5", COMMON,
      "_, chunk = chunk.split(t=time_range[0], allow_early_split=True)", "_, chunk = chunk.split(t=time_range[0], allow_early_split=False)"),
    W("unknown mode ignored", "C10.R6", UTILS,
      "else:\n        raise ValueError(f\"Unknown time_selection {time_selection}\")", "else:\n        pass"),
]
