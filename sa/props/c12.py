"""C12 - outputs that violate a plugin's declared contract are rejected, not stored.

Decided statically: no validation guard is dead (compares an expression with itself), every output
path of Plugin._fix_output and of every override passes a label check and a dtype check against the
plugin's declaration, the chunk constructor's type/range guards exist and equal their
specification, the continuity guard wraps the processor output, and the required time fields are
checked whenever a plugin is built.
"""

import ast

from ..cfg import cfg_of, literals
from ..dataflow import Defs, atoms, calls_in, inline, provenance, stmt_of
from ..dtable import run as drun
from ..index import AnalysisError, call_name, dotted, enclosing, head, norm, walk_body
from ..ordering import compare_predicates, describe, parse_pred
from ..resolve import resolve_callable
from ..rules import COMPOUND, kw, loop_body_calls, node_calls, own_calls, prov_at, reaching
from ..witness import W

CHUNK = "strax/chunk.py"
UTILS = "strax/utils.py"
PLUGIN = "strax/plugins/plugin.py"
DOWN = "strax/plugins/down_chunking_plugin.py"
CONTEXT = "strax/context.py"
COMMON = "strax/storage/common.py"

EXPLANATION = (
    "R1 dead-guard lint: in every comparison guard of the validation code the two operands, after "
    "inlining the definitions that reach the test, must be different expressions. R2 must-pass-"
    "through: every path of Plugin._fix_output to its chunk-returning exit calls a function that "
    "raises on a data_type label mismatch and one that compares the delivered array's dtype with "
    "dtype_for(...). R3 sibling agreement: every override of _fix_output / do_compute in "
    "strax/plugins either delegates to the base implementation on all paths or passes the same "
    "checkers before each value it emits. R4 Chunk.__init__ type and range guards, with the range "
    "rejection predicate compared to its specification on all weak orderings. R5 continuity_check "
    "wraps the processor generator in get_iter and raises on a start/end mismatch. R6 fix_dtype's "
    "time-field test equals its specification (decision table) and runs on every path of plugin "
    "construction."
)
RULE_TEXT = "one obligation per (rule, site): comparison guard, output path, override, constructor guard, ordering, table row"
ASSUMPTIONS = ["numpy dtype inequality is a faithful comparison of structured dtypes (after remove_titles_from_dtype)"]

R1_SCOPE = [CHUNK, PLUGIN, DOWN, "strax/plugins/overlap_window_plugin.py", "strax/plugins/loop_plugin.py", "strax/plugins/cut_plugin.py", "strax/plugins/merge_only_plugin.py", "strax/plugins/exhaust_plugin.py", "strax/plugins/parrallel_source_plugin.py", COMMON]


def run(chk):
    repo = chk.repo
    r1_dead_guards(chk, repo)
    r2_output_paths(chk, repo)
    r3_overrides(chk, repo)
    r4_chunk_guards(chk, repo)
    r5_continuity(chk, repo)
    r6_time_fields(chk, repo)
    r7_independent_expectation(chk, repo)
    r8_layout(chk, repo)
    r9_unconditional_dtype_checks(chk, repo)


# ------------------------------------------------------------------------------------ R1
def _inline_at(func, node, expr, depth=3):
    """Text of expr with names replaced by their unique reaching definition at node."""
    r = reaching(func)
    from ..dataflow import clone

    class T(ast.NodeTransformer):
        def __init__(self):
            self.d = 0

        def visit_Name(self, n):
            if isinstance(n.ctx, ast.Load) and self.d < depth:
                ds = [d for d in r.defs_of(node, n.id)]
                if len(ds) == 1 and ds[0][3] == "assign" and ds[0][1] is not None and _inlinable(ds[0][1]):
                    self.d += 1
                    src = r.cfg.nodes_of(ds[0][2])
                    res = T2(src[0] if src else node, self.d).visit(clone(ds[0][1]))
                    self.d -= 1
                    return res
            return n

    class T2(T):
        def __init__(self, at, d):
            self.at = at
            self.d = d

        def visit_Name(self, n):
            if isinstance(n.ctx, ast.Load) and self.d < depth:
                ds = [d for d in r.defs_of(self.at, n.id)]
                if len(ds) == 1 and ds[0][3] == "assign" and ds[0][1] is not None and _inlinable(ds[0][1]):
                    src = r.cfg.nodes_of(ds[0][2])
                    return T2(src[0] if src else self.at, self.d + 1).visit(clone(ds[0][1]))
            return n

    return norm(T().visit(clone(expr)))


def _inlinable(val):
    """Mutable containers built in place are not values to inline (they are filled later)."""
    if isinstance(val, (ast.Dict, ast.List, ast.Set, ast.ListComp, ast.DictComp, ast.SetComp)):
        return False
    if isinstance(val, ast.Call) and isinstance(val.func, ast.Name) and val.func.id in ("dict", "list", "set") and not val.args:
        return False
    return True


def dead_guards_in(func):
    """[(test node, left text, right text)] for ==/!= comparisons in if-tests whose operands are the
    same expression after inlining."""
    cfg = cfg_of(func)
    out = []
    n_cmp = 0
    for n in cfg.stmt_nodes():
        if not isinstance(n.stmt, (ast.If, ast.While, ast.Assert)):
            continue
        for c in ast.walk(n.stmt.test):
            if isinstance(c, ast.Compare) and len(c.ops) == 1 and isinstance(c.ops[0], (ast.Eq, ast.NotEq, ast.Lt, ast.Gt, ast.LtE, ast.GtE)):
                l, r = c.left, c.comparators[0]
                if isinstance(l, ast.Constant) or isinstance(r, ast.Constant):
                    continue
                n_cmp += 1
                lt, rt = _inline_at(func, n, l), _inline_at(func, n, r)
                if lt == rt:
                    out.append((n.stmt, lt, rt))
    return out, n_cmp


def r1_dead_guards(chk, repo):
    chk.describe("C12.R1", "no validation guard compares an expression with itself (after inlining reaching definitions)")
    total = 0
    for path in R1_SCOPE:
        for f in repo.module(path).functions.values():
            dead, n = dead_guards_in(f)
            total += n
            for st, lt, rt in dead:
                chk.fail("C12.R1", f, st, f"both sides of the comparison are `{lt[:80]}`: the guard can never fire, so what it was meant to reject is accepted",
                         site={"function": f.qualname, "construct": head(st, 160)})
            if n and not dead:
                chk.ok("C12.R1", f"{f.qualname}: {n} comparison guard(s), operands differ", nontrivial=True)
    chk.floor("C12.R1", "comparison guards inspected", total, 25)
    # the constructor's dtype guard specifically: declared dtype vs dtype of the data
    init = repo.func("Chunk.__init__", CHUNK)
    cfg = cfg_of(init)
    hits = []
    for n in cfg.stmt_nodes():
        if isinstance(n.stmt, ast.If) and any(isinstance(x, ast.Raise) for x in n.stmt.body):
            for c in ast.walk(n.stmt.test):
                if isinstance(c, ast.Compare) and isinstance(c.ops[0], ast.NotEq):
                    p1 = reaching(init).provenance(n, c.left) | reaching(init).provenance(n, c.comparators[0])
                    if "dtype" in p1 and ".dtype" in p1 and ("self.data.dtype" in p1 or "data.dtype" in p1):
                        hits.append(n)
    chk.check(bool(hits), "C12.R1", init, None, "Chunk.__init__ does not compare the declared dtype with the dtype of the data it is given", site_text="Chunk.__init__: declared dtype vs data.dtype guard")


# ------------------------------------------------------------------------------------ R2
def _label_checkers(repo):
    """Plugin methods that raise when <chunk>.data_type differs from the expected data type."""
    out = set()
    pl = repo.cls("Plugin")
    for f in pl.methods.values():
        cfg = cfg_of(f)
        for n in cfg.stmt_nodes():
            if isinstance(n.stmt, ast.Raise):
                for e, pol, g in cfg.guard_literals(n):
                    if pol is True and isinstance(e, ast.Compare) and len(e.ops) == 1 and isinstance(e.ops[0], ast.NotEq):
                        sides = [e.left, e.comparators[0]]
                        if any(isinstance(x, ast.Attribute) and x.attr == "data_type" for x in sides) and any(isinstance(x, ast.Name) and x.id in f.params for x in sides):
                            out.add(f)
    return out


def _is_dtype_expr(r, at, e, depth=3):
    """Is `e` (at CFG node `at`) a dtype object itself - X.dtype, dtype_for(..), np.dtype(..),
    remove_titles_from_dtype(..) of one - rather than a projection of it (names, fields, a dict or
    set built from it), whose comparison would forget order, offsets or titles?"""
    if isinstance(e, ast.Attribute) and e.attr == "dtype":
        return True
    if isinstance(e, ast.Call):
        nm = (call_name(e) or "").split(".")[-1]
        if nm in ("dtype_for", "dtype"):
            return True
        if nm in ("remove_titles_from_dtype",) and e.args:
            return _is_dtype_expr(r, at, e.args[0], depth)
        return False
    if isinstance(e, ast.Name) and depth > 0:
        ds = [d for d in r.defs_of(at, e.id) if d[1] is not None]
        if not ds:
            return False
        for name, val, st, how in ds:
            if how not in ("assign",) and how is not None and how != "assign":
                pass
            src = r.cfg.nodes_of(st) if isinstance(st, ast.stmt) else []
            if not _is_dtype_expr(r, src[0] if src else at, val, depth - 1):
                return False
        return True
    return False


def _dtype_checkers(repo):
    """Plugin methods that raise when the delivered array's dtype differs from dtype_for(d)."""
    out = set()
    pl = repo.cls("Plugin")
    for f in pl.methods.values():
        cfg = cfg_of(f)
        r = reaching(f)
        for n in cfg.stmt_nodes():
            if isinstance(n.stmt, ast.Raise) and "PluginGaveWrongOutput" in norm(n.stmt.exc):
                for g in cfg.dominating_guards(n):
                    if g.test is None:
                        continue
                    for c in ast.walk(g.test):
                        if isinstance(c, ast.Compare) and isinstance(c.ops[0], ast.NotEq) and g.polarity:
                            pl_, pr_ = r.provenance(g, c.left), r.provenance(g, c.comparators[0])
                            a, b = ("call:self.dtype_for" in pl_, "call:self.dtype_for" in pr_)
                            x, y = (".dtype" in pl_ and not a, ".dtype" in pr_ and not b)
                            if ((a and y) or (b and x)) and _is_dtype_expr(r, g, c.left) and _is_dtype_expr(r, g, c.comparators[0]):
                                out.add(f)
    return out


def _closure(repo, base, cls):
    """Methods of cls hierarchy that call a function in `base` on every normal path with the
    delivered object (one level: wrappers such as _check_chunk)."""
    out = set(base)
    changed = True
    while changed:
        changed = False
        for c in repo.mro(cls):
            for f in c.methods.values():
                if f in out:
                    continue
                cfg = cfg_of(f)
                names = {g.name for g in out}
                calls = lambda n: n.kind == "stmt" and not isinstance(n.stmt, COMPOUND) and node_calls(n, lambda cc, nm: nm.startswith("self.") and nm.split(".")[-1] in names)
                if not any(calls(n) for n in cfg.stmt_nodes()):
                    continue
                ok, _ = cfg.every_path([cfg.entry], [cfg.exit_return], calls, "n")
                if ok:
                    out.add(f)
                    changed = True
    return out


def r2_output_paths(chk, repo):
    chk.describe("C12.R2", "every path of Plugin._fix_output that delivers a chunk passes a data-type label check and a dtype check against the plugin's declaration; multi-output results must be dicts")
    pl = repo.cls("Plugin")
    label = _label_checkers(repo)
    dtyp = _dtype_checkers(repo)
    chk.check(bool(label), "C12.R2", "Plugin", None, "no Plugin method rejects a chunk labelled with another data type", site_text=f"label checkers: {sorted(f.name for f in label)}")
    chk.check(bool(dtyp), "C12.R2", "Plugin", None, "no Plugin method compares a delivered array's dtype with dtype_for(...)", site_text=f"dtype checkers: {sorted(f.name for f in dtyp)}")
    label_c = _closure(repo, label, pl)
    # a dtype checker applied to `<chunk>.data`
    fo = repo.func("Plugin._fix_output", PLUGIN)
    cfg = cfg_of(fo)
    rets = [n for n in cfg.stmt_nodes() if isinstance(n.stmt, ast.Return) and n.stmt.value is not None and not isinstance(n.stmt.value, (ast.Dict, ast.DictComp))]
    chk.floor("C12.R2", "chunk-returning exits of _fix_output", len(rets), 1)
    lnames = {f.name for f in label_c}

    def calls_label(n):
        return n.kind == "stmt" and not isinstance(n.stmt, COMPOUND) and node_calls(n, lambda c, nm: nm.startswith("self.") and nm.split(".")[-1] in lnames)

    def calls_dtype_on_chunk(n):
        # a call self.<checker>(X) where the checker reaches a dtype checker with X.data
        if n.kind != "stmt" or isinstance(n.stmt, COMPOUND):
            return False
        for c in own_calls(n.stmt):
            nm = call_name(c) or ""
            if nm.startswith("self."):
                for g in resolve_callable(repo, fo, c.func)[:1]:
                    if _checks_chunk_dtype(repo, g, dtyp):
                        return True
        return False

    for r_ in rets:
        ok1, p1 = cfg.every_path([cfg.entry], [r_], calls_label, "n")
        chk.check(ok1, "C12.R2", fo, r_.stmt, "a chunk can be returned without its data_type label having been compared with the expected data type", site_text="_fix_output: label check on every path to the chunk return",
                  site={"function": fo.qualname, "check": "label"})
        ok2, p2 = cfg.every_path([cfg.entry], [r_], calls_dtype_on_chunk, "n")
        chk.check(ok2, "C12.R2", fo, r_.stmt, "a chunk-wrapped result can be returned without its data's dtype having been compared with the declared dtype (only bare arrays are checked)",
                  site_text="_fix_output: dtype check of the chunk's data on every path to the chunk return", site={"function": fo.qualname, "check": "dtype"})
    # bare arrays: _check_dtype before wrapping
    wraps = [n for n in cfg.stmt_nodes() if not isinstance(n.stmt, COMPOUND) and node_calls(n, lambda c, nm: nm == "self.chunk")]
    dn = {f.name for f in dtyp}
    for w in wraps:
        ok, _ = cfg.every_path([cfg.entry], [w], lambda n: n.kind == "stmt" and not isinstance(n.stmt, COMPOUND) and node_calls(n, lambda c, nm: nm.startswith("self.") and nm.split(".")[-1] in dn), "n")
        chk.check(ok, "C12.R2", fo, w.stmt, "bare array wrapped into a chunk without a dtype check", site_text="_fix_output: _check_dtype before self.chunk(...)")
    # multi-output: dict required
    md = [n for n in cfg.stmt_nodes() if isinstance(n.stmt, ast.Raise) and ("isinstance(result, dict)", False) in cfg.guard_facts(n) and ("self.multi_output", True) in cfg.guard_facts(n)]
    chk.check(bool(md), "C12.R2", fo, None, "multi-output plugin may deliver a non-dict result without an error", site_text="_fix_output: multi-output requires a dict")
    dc = [n for n in walk_body(fo.node) if isinstance(n, ast.DictComp)]
    chk.check(bool(dc) and all("self.provides" in norm(g.iter) for c in dc for g in c.generators) and all("self._fix_output(" in norm(c.value) for c in dc), "C12.R2", fo, None, "multi-output results are not validated per provided data type", site_text="_fix_output: every provided data type validated recursively")
    # do_compute returns through _fix_output
    dcf = repo.func("Plugin.do_compute", PLUGIN)
    dcfg = cfg_of(dcf)
    for n in dcfg.stmt_nodes():
        if isinstance(n.stmt, ast.Return) and n.stmt.value is not None:
            chk.check(isinstance(n.stmt.value, ast.Call) and call_name(n.stmt.value) == "self._fix_output", "C12.R2", dcf, n.stmt, "do_compute returns a result that did not pass _fix_output", site_text="Plugin.do_compute: returns self._fix_output(...)")
    # _check_dtype isinstance ndarray
    cd = repo.func("Plugin._check_dtype", PLUGIN)
    ccfg = cfg_of(cd)
    nd = [n for n in ccfg.stmt_nodes() if isinstance(n.stmt, ast.Raise) and any("isinstance(" in t and "ndarray" in t and pol is False for t, pol in ccfg.guard_facts(n))]
    chk.check(bool(nd), "C12.R2", cd, None, "_check_dtype accepts non-array results", site_text="_check_dtype: non-ndarray rejected")


def _checks_chunk_dtype(repo, g, dtyp, depth=2):
    """g(chunk, d) calls a dtype checker with <param>.data on every normal path."""
    names = {f.name for f in dtyp}
    cfg = cfg_of(g)

    def hit(n):
        if n.kind != "stmt" or isinstance(n.stmt, COMPOUND):
            return False
        for c in own_calls(n.stmt):
            nm = call_name(c) or ""
            if nm.startswith("self.") and nm.split(".")[-1] in names and c.args:
                a = c.args[0]
                if isinstance(a, ast.Attribute) and a.attr == "data" and isinstance(a.value, ast.Name) and a.value.id in g.params:
                    return True
        return False

    if not any(hit(n) for n in cfg.stmt_nodes()):
        return False
    ok, _ = cfg.every_path([cfg.entry], [cfg.exit_return], hit, "n")
    return ok


# ------------------------------------------------------------------------------------ R3
def r3_overrides(chk, repo):
    chk.describe("C12.R3", "every override of _fix_output / do_compute in strax/plugins keeps the base checks: it delegates to the base implementation or checks label and dtype of everything it emits")
    pl = repo.cls("Plugin")
    label = _closure(repo, _label_checkers(repo), pl)
    dtyp = _dtype_checkers(repo)
    n_over = 0
    for c in repo.subclasses(pl, strict=True):
        if not c.module.relpath.startswith("strax/plugins/"):
            continue
        for mname in ("_fix_output", "do_compute"):
            if mname not in c.methods:
                continue
            f = c.methods[mname]
            n_over += 1
            cfg = cfg_of(f)
            is_gen = any(isinstance(x, (ast.Yield, ast.YieldFrom)) for x in walk_body(f.node))
            deleg = lambda n: n.kind == "stmt" and not isinstance(n.stmt, COMPOUND) and node_calls(n, lambda cc, nm: nm in (f"super().{mname}", "self._fix_output", "super()._fix_output", "super().do_compute"))
            emits = [n for n in cfg.stmt_nodes() if (isinstance(n.stmt, ast.Return) and n.stmt.value is not None) or any(isinstance(x, (ast.Yield, ast.YieldFrom)) for e in ([n.stmt] if not isinstance(n.stmt, COMPOUND) else []) for x in ast.walk(e))]
            if not emits:
                chk.ok("C12.R3", f"{f.qualname}: emits nothing", nontrivial=False)
                continue
            lnames = {g.name for g in label}

            def checked(n):
                if deleg(n):
                    return True
                if n.kind == "stmt" and isinstance(n.stmt, ast.For):
                    return False
                return False

            for e in emits:
                ok, _ = cfg.every_path([cfg.entry], [e], deleg, "n")
                if ok:
                    chk.ok("C12.R3", f"{f.qualname}: `{head(e.stmt, 50)}` after delegating to the base implementation")
                    continue
                # otherwise: label + dtype checker on every path from the start of the producing
                # iteration to the emission
                starts = [cfg.entry]
                lp = enclosing(e.stmt, (ast.For, ast.While))
                if lp is not None and enclosing(lp, (ast.FunctionDef,)) is f.node:
                    starts = cfg.guards_of(lp, True)

                def lab(n):
                    if n.kind != "stmt":
                        return False
                    if isinstance(n.stmt, ast.For):
                        return loop_body_calls(n, lambda cc, nm: nm.startswith("self.") and nm.split(".")[-1] in lnames)
                    return not isinstance(n.stmt, COMPOUND) and node_calls(n, lambda cc, nm: nm.startswith("self.") and nm.split(".")[-1] in lnames)

                def dty(n):
                    if n.kind != "stmt":
                        return False
                    cs = []
                    if isinstance(n.stmt, ast.For):
                        for s in n.stmt.body:
                            cs += calls_in(s)
                    elif not isinstance(n.stmt, COMPOUND):
                        cs = own_calls(n.stmt)
                    for cc in cs:
                        nm = call_name(cc) or ""
                        if nm.startswith("self."):
                            for g in resolve_callable(repo, f, cc.func)[:1]:
                                if _checks_chunk_dtype(repo, g, dtyp):
                                    return True
                    return False

                # an if/else where each branch checks: use path rule directly
                ok1, _ = cfg.every_path(starts, [e], lab, "n")
                ok2, _ = cfg.every_path(starts, [e], dty, "n")
                chk.check(ok1, "C12.R3", f, e.stmt, f"{c.name}.{mname} emits a chunk without the data_type label check of the base class", site_text=f"{f.qualname}: label checked before `{head(e.stmt, 40)}`", site={"function": f.qualname, "check": "label"})
                chk.check(ok2, "C12.R3", f, e.stmt, f"{c.name}.{mname} emits a chunk without the dtype check of the base class", site_text=f"{f.qualname}: dtype checked before `{head(e.stmt, 40)}`", site={"function": f.qualname, "check": "dtype"})
    chk.floor("C12.R3", "overrides of _fix_output / do_compute", n_over, 4)


# ------------------------------------------------------------------------------------ R4
def r4_chunk_guards(chk, repo):
    chk.describe("C12.R4", "Chunk.__init__ rejects non-integer bounds, non-array data, negative / inverted ranges and rows outside [start, end]; the range test equals its specification on every weak ordering")
    init = repo.func("Chunk.__init__", CHUNK)
    cfg = cfg_of(init)
    r = reaching(init)
    raises = [n for n in cfg.stmt_nodes() if isinstance(n.stmt, ast.Raise)]
    def has(pred, what, site):
        ok = any(pred(n, cfg.guard_facts(n)) for n in raises)
        chk.check(ok, "C12.R4", init, None, f"Chunk.__init__ no longer rejects {what}", site_text=f"Chunk.__init__: {site}", site={"function": init.qualname, "guard": site})
    has(lambda n, f: any("isinstance(self.start" in t and "isinstance(self.end" in t and p is False for t, p in f) or (any("isinstance(self.start" in t and p is False for t, p in f)), "non-integer start / end", "integer bounds")
    has(lambda n, f: ("isinstance(self.data, np.ndarray)", False) in f, "data that is not a numpy array", "ndarray data")
    has(lambda n, f: ("self.start < 0", True) in f, "a negative start", "start >= 0")
    has(lambda n, f: ("self.start > self.end", True) in f, "an inverted range", "start <= end")
    # range guards
    early = [n for n in raises if any(g.test is not None and g.polarity and isinstance(g.test, ast.Compare) and ".start" in r.provenance(g, g.test) and "str:time" in r.provenance(g, g.test) for g in cfg.dominating_guards(n))]
    late = [n for n in raises if any(g.test is not None and g.polarity and isinstance(g.test, ast.Compare) and ".end" in r.provenance(g, g.test) and "call:strax.endtime" in r.provenance(g, g.test) for g in cfg.dominating_guards(n))]
    chk.check(bool(early), "C12.R4", init, None, "no guard rejecting rows that start before the chunk start", site_text="Chunk.__init__: early-data guard", site={"function": init.qualname, "guard": "early"})
    chk.check(bool(late), "C12.R4", init, None, "no guard rejecting rows that end after the chunk end", site_text="Chunk.__init__: late-data guard", site={"function": init.qualname, "guard": "late"})
    for n in early + late:
        chk.check(("len(self.data)", True) in cfg.guard_facts(n), "C12.R4", init, n.stmt, "range guard not limited to non-empty data", site_text="range guards under len(self.data)", nontrivial=False)
    # ordering enumeration of the rejection predicate
    tests = []
    for n in early + late:
        for g in cfg.dominating_guards(n):
            if g.test is not None and g.polarity and isinstance(g.test, ast.Compare) and g.owner is enclosing(n.stmt, (ast.If,)):
                tests.append(g.test)
    if len(tests) == 2:
        from ..pattern import local_defined_as as _lda
        DS, _1, _2 = _lda(init.node, "self.data[0]['time']")
        DE, _1, _2 = _lda(init.node, "strax.endtime(self.data[-500:]).max()")
        if DE is None:
            DE = next((n.targets[0].id for n in walk_body(init.node) if isinstance(n, ast.Assign) and isinstance(n.targets[0], ast.Name) and "strax.endtime(self.data" in norm(n.value) and norm(n.value).endswith(".max()")), None)
        symmap = {DS or "data_starts_at": "ds", DE or "data_ends_at": "de", "self.start": "s", "self.end": "e"}
        code = ast.BoolOp(op=ast.Or(), values=tests)
        spec = parse_pred("ds < s or de > e")
        try:
            n_ord, bad = compare_predicates(["ds", "de", "s", "e"], parse_pred("s <= e and ds <= de"), code, spec, symmap, {k: k for k in ["ds", "de", "s", "e"]})
        except AnalysisError as ex:
            chk.fail("C12.R4", init, None, f"range guards are no longer comparison-only: {ex}")
            n_ord, bad = 0, []
        chk.check(not bad and n_ord > 0, "C12.R4", init, tests[0], "range rejection differs from `first row starts before start or last rows end after end`" + (f" e.g. for ordering {describe(bad[0][0])}: code rejects={bad[0][1]}, specification={bad[0][2]}" if bad else ""),
                  site_text=f"Chunk.__init__: rejection predicate equals specification on {n_ord} orderings", site={"function": init.qualname, "guard": "range-predicate"})
        chk.exhaustive = True
    # data_starts_at / data_ends_at definitions
    from ..pattern import local_defined_as as _lda2
    ds = _lda2(init.node, "self.data[0]['time']")[0]
    de = next((n.value for n in walk_body(init.node) if isinstance(n, ast.Assign) and isinstance(n.targets[0], ast.Name) and "strax.endtime(self.data" in norm(n.value) and norm(n.value).endswith(".max()")), None)
    chk.check(ds is not None, "C12.R4", init, None, "first row's start time is not what is compared with the chunk start", site_text="data_starts_at = self.data[0]['time']")
    chk.check(de is not None and "strax.endtime(self.data" in norm(de) and norm(de).endswith(".max()"), "C12.R4", init, None, "the maximum end time of the inspected rows is not what is compared with the chunk end", site_text="data_ends_at = endtime(last rows).max()")


# ------------------------------------------------------------------------------------ R5
def r5_continuity(chk, repo, rule="C12.R5"):
    chk.describe(rule, "chunks handed to the user pass continuity_check, which raises when a chunk does not start where the previous one ended")
    gi = repo.func("Context.get_iter", CONTEXT)
    loops = [n for n in walk_body(gi.node) if isinstance(n, ast.For) and any(isinstance(x, ast.Yield) for s in n.body for x in ast.walk(s))]
    chk.floor(rule, "yielding loops in get_iter", len(loops), 1)
    gen_defs = Defs(gi.node)
    for lp in loops:
        t = norm(lp.iter)
        ok = "continuity_check(" in t
        arg = None
        for c in calls_in(lp.iter):
            if (call_name(c) or "").endswith("continuity_check") and c.args:
                arg = c.args[0]
        prov = provenance(gen_defs, arg) if arg is not None else set()
        chk.check(ok and ("call:iter" in prov or ".iter" in prov), rule, gi, lp, "get_iter consumes the processor output without the continuity check (overlapping or gapped chunks would be returned as valid)", site_text="get_iter: iterates strax.continuity_check(<processor>.iter())")
    # the saver thread reads the mailbox independently of the consumer: it must check for itself
    sf = repo.func("Saver.save_from", "strax/storage/common.py")
    SRC = sf.params[1]
    takes = [c for c in calls_in(sf.node) if isinstance(c.func, ast.Name) and c.func.id == "next" and c.args]
    sdefs = Defs(sf.node)
    okc = bool(takes)
    for c in takes:
        a = c.args[0]
        v = sdefs.single(a.id) if isinstance(a, ast.Name) else a
        okc = okc and v is not None and isinstance(v, ast.Call) and (call_name(v) or "").endswith("continuity_check") and v.args and norm(v.args[0]) == SRC
    chk.check(okc, rule, sf, stmt_of(takes[0]) if takes else None, "the saver thread takes its chunks straight from the mailbox, without a continuity check of its own: it can have stored (and closed) gapped or overlapping data before the consumer's check fails the request - the data is then stored as valid although the request failed",
              site_text="Saver.save_from: chunks taken from strax.continuity_check(source)", site={"function": sf.qualname, "rule": "saver checks continuity itself"})
    cc = repo.func("continuity_check", CHUNK)
    cfg = cfg_of(cc)
    from ..pattern import facts_matching, find as _pf
    rs, LE, CH = [], None, None
    for n in cfg.stmt_nodes():
        if isinstance(n.stmt, ast.Raise):
            for e, pol, g, b in facts_matching(cfg, n, "L_c.start != L_le", True):
                rs.append(n)
                LE, CH = b["L_le"], b["L_c"]
    chk.check(bool(rs), rule, cc, None, "continuity_check no longer raises on start != previous end", site_text="continuity_check: raise on chunk.start != previous end")
    ys = [n for n in cfg.stmt_nodes() if not isinstance(n.stmt, COMPOUND) and any(isinstance(x, ast.Yield) for x in ast.walk(n.stmt))]
    for y in ys:
        dom = cfg.dominators("n")
        outer = []
        for r_ in rs:
            o = enclosing(r_.stmt, (ast.If,))
            while o is not None and enclosing(o, (ast.If,)) is not None and enclosing(enclosing(o, (ast.If,)), (ast.For,)) is enclosing(y.stmt, (ast.For,)) and LE in norm(enclosing(o, (ast.If,)).test):
                o = enclosing(o, (ast.If,))
            outer.append(cfg.node_of(o))
        yv = [x.value for x in ast.walk(y.stmt) if isinstance(x, ast.Yield)]
        chk.check(any(o in dom[y] for o in outer) and all(v is not None and norm(v) == CH for v in yv), rule, cc, y.stmt, "chunk is yielded before the continuity test", site_text="continuity_check: test dominates the yield of the tested chunk")
    upd = [n for n in cfg.stmt_nodes() if LE and isinstance(n.stmt, ast.Assign) and any(norm(t) == LE for t in n.stmt.targets) and norm(n.stmt.value) == f"{CH}.end"]
    chk.check(bool(upd), rule, cc, None, "previous end is not updated from the yielded chunk", site_text="continuity_check: previous end = chunk.end")


# ------------------------------------------------------------------------------------ R6
def r6_time_fields(chk, repo):
    chk.describe("C12.R6", "a plugin must declare time and (endtime or dt+length) for every provided type; checked on every path that builds a plugin")
    fd = repo.func("Plugin.fix_dtype", PLUGIN)
    cfg = cfg_of(fd)
    d = Defs(fd.node)
    from ..pattern import facts_matching as _fm, find as _pf
    OK = None
    rs = []
    for n in cfg.stmt_nodes():
        if isinstance(n.stmt, ast.Raise) and "Missing time" in norm(n.stmt):
            for e, pol, g, b in _fm(cfg, n, "L_ok", False):
                OK = b["L_ok"]
                rs.append(n)
    okdef = [v for v, s, how in d.defs.get(OK, []) if v is not None] if OK else []
    fnames = {x.id for v in okdef for x in ast.walk(v) if isinstance(x, ast.Name)}
    FN = next(iter(fnames)) if len(fnames) == 1 else "fieldnames"
    chk.check(len(okdef) == 1 and bool(rs), "C12.R6", fd, None, "fix_dtype no longer raises when the time-field test fails", site_text="fix_dtype: raise if not ok")
    if len(okdef) == 1:
        e = okdef[0]
        import itertools
        from ..dtable import eval_bool
        for t, dt, ln, et in itertools.product((False, True), repeat=4):
            val = {f"'time' in {FN}": t, f"'dt' in {FN}": dt, f"'length' in {FN}": ln, f"'endtime' in {FN}": et}
            try:
                got = eval_bool(e, lambda text, node: val.get(text), {})
            except AnalysisError as ex:
                chk.fail("C12.R6", fd, None, f"time-field test uses an unknown atom: {ex}")
                break
            want = t and (et or (dt and ln))
            chk.check(got == want, "C12.R6", fd, None, f"time-field test for time={t}, dt={dt}, length={ln}, endtime={et} gives {got}, specification {want}",
                      site_text=f"fix_dtype[time={t},dt={dt},length={ln},endtime={et}] = {want}", site={"function": fd.qualname, "row": f"{t}/{dt}/{ln}/{et}"})
    for n in rs:
        lp = enclosing(n.stmt, (ast.For,))
        chk.check(lp is not None and norm(lp.iter) == "self.provides", "C12.R6", fd, n.stmt, "time fields are not checked for every provided data type", site_text="fix_dtype: loop over self.provides")
    fdef = d.single(FN)
    chk.check(fdef is not None and "self.dtype_for(" in norm(fdef) and norm(fdef).endswith(".names"), "C12.R6", fd, None, "field names do not come from the declared dtype of the provided type", site_text="fix_dtype: fieldnames = self.dtype_for(d).names")
    # called on every path of plugin construction
    gp = repo.func("Context.__get_plugin", CONTEXT)
    gcfg = cfg_of(gp)
    rq = repo.func("Context.__get_requested_plugins_from_cache", CONTEXT)
    rq_ok = any((call_name(c) or "").endswith(".fix_dtype") for c in calls_in(rq.node))
    fixes = lambda n: n.kind == "stmt" and not isinstance(n.stmt, COMPOUND) and node_calls(n, lambda c, nm: nm.endswith(".fix_dtype") or (rq_ok and "get_requested_plugins_from_cache" in nm))
    ok, path = gcfg.every_path([gcfg.entry], [gcfg.exit_return], fixes, "n")
    chk.check(ok, "C12.R6", gp, None, "a plugin can be handed out without fix_dtype (and its time-field check) having run", site_text="__get_plugin: fix_dtype on every path")

# ------------------------------------------------------------------------------------ R7
def r7_independent_expectation(chk, repo):
    chk.describe("C12.R7", "a delivered object is checked against what the plugin declares, never against something read off the object itself (expected label / dtype argument independent of the checked argument)")
    pl = repo.cls("Plugin")
    names = {f.name for f in _closure(repo, _label_checkers(repo), pl)} | {f.name for f in _dtype_checkers(repo)} | {"_check_chunk", "_check_dtype"}
    n = 0
    for f in repo.functions:
        if not f.path.startswith("strax/plugins/"):
            continue
        for c in calls_in(f.node):
            nm = call_name(c) or ""
            if not (nm.startswith("self.") and nm.split(".")[-1] in names) or len(c.args) < 2:
                continue
            n += 1
            obj, exp = c.args[0], c.args[1]
            root = obj
            while isinstance(root, (ast.Attribute, ast.Subscript, ast.Call)):
                root = root.func if isinstance(root, ast.Call) else root.value
            rname = root.id if isinstance(root, ast.Name) else None
            prov = prov_at(f, stmt_of(c), exp)
            bad = rname is not None and rname != "self" and (rname in prov or f"{rname}.data_type" in prov or f"{rname}.dtype" in prov)
            chk.check(not bad, "C12.R7", f, stmt_of(c), f"`{norm(c)[:80]}`: the expectation is derived from the object being checked - the check can never fail",
                      site_text=f"{f.qualname}: `{norm(c)[:60]}` expectation independent of the object", site={"function": f.qualname, "call": nm, "object": norm(obj)[:60]})
    chk.floor("C12.R7", "label / dtype check call sites with an explicit expectation", n, 2)

# ------------------------------------------------------------------------------------ R8
def _sufficient(test):
    """Conditions each of which alone makes `test` true (disjuncts of a top-level `or`)."""
    if isinstance(test, ast.BoolOp) and isinstance(test.op, ast.Or):
        out = []
        for v in test.values:
            out += _sufficient(v)
        return out
    return [test]


def r9_unconditional_dtype_checks(chk, repo):
    chk.describe("C12.R9", "the dtype comparisons are made for every delivered array, with or without rows: an empty array of another dtype is still a contract violation (and is stored under the declared dtype)")
    R = "C12.R9"
    init = repo.func("Chunk.__init__", CHUNK)
    cfg = cfg_of(init)
    rs = [n for n in cfg.stmt_nodes() if isinstance(n.stmt, ast.Raise) and any("dtype" in norm(e) and isinstance(e, ast.Compare) for e, pol, g in cfg.guard_literals(n) if pol is True and g.owner is enclosing(n.stmt, (ast.If,)))]
    chk.check(len(rs) >= 1, R, init, None, "Chunk.__init__ has no dtype comparison", site_text="Chunk.__init__: dtype comparison present")
    for n in rs:
        lens = [t for t, p_ in cfg.guard_facts(n) if t.startswith("len(") and p_ is True]
        chk.check(not lens, R, init, n.stmt, f"the dtype check of the chunk constructor only runs under `{lens[0] if lens else ''}`: empty data of another dtype is accepted", site_text="Chunk.__init__: dtype checked regardless of the number of rows", site={"function": init.qualname, "rule": "unconditional", "raise": head(n.stmt, 40)})
    cd = repo.func("Plugin._check_dtype", PLUGIN)
    ccfg = cfg_of(cd)
    tests = [n for n in ccfg.stmt_nodes() if isinstance(n.stmt, ast.If) and any(isinstance(x, ast.Compare) and isinstance(x.ops[0], ast.NotEq) for x in ast.walk(n.stmt.test)) and any(isinstance(b, ast.Raise) and "PluginGaveWrongOutput" in norm(b.exc) for b in n.stmt.body)]
    chk.check(len(tests) >= 1, R, cd, None, "_check_dtype has no dtype comparison", site_text="_check_dtype: dtype comparison present")
    ok, path = ccfg.every_path([ccfg.entry], [ccfg.exit_return], lambda n: n in tests, "n")
    chk.check(ok, R, cd, None, "_check_dtype can return without having compared the dtypes (e.g. an early return for arrays without rows)", site_text="_check_dtype: every normal path passes the dtype comparison", site={"function": cd.qualname, "rule": "unconditional"})


def r8_layout(chk, repo):
    chk.describe("C12.R8", "wherever a delivered array's dtype is compared with the declared one after remove_titles_from_dtype (which rebuilds both as packed), the memory layout (field offsets, itemsize) is compared as well: padded data written under a packed dtype cannot be read back")
    R = "C12.R8"
    sites = 0
    for q, p in (("Chunk.__init__", CHUNK), ("Plugin._check_dtype", PLUGIN)):
        f = repo.func(q, p)
        cfg = cfg_of(f)
        r = reaching(f)
        canon = [c for c in calls_in(f.node) if (call_name(c) or "").split(".")[-1] == "remove_titles_from_dtype"]
        if not canon:
            # compares raw dtype objects: layout is part of numpy's dtype equality
            chk.ok(R, f"{q}: compares dtype objects directly")
            continue
        sites += 1
        found = False
        for n in cfg.stmt_nodes():
            if not isinstance(n.stmt, ast.Raise):
                continue
            for g in cfg.dominating_guards(n):
                if g.test is None or g.polarity is not True or g.owner is not enclosing(n.stmt, (ast.If,)):
                    continue
                for cond in _sufficient(g.test):
                    if not (isinstance(cond, ast.Compare) and len(cond.ops) == 1 and isinstance(cond.ops[0], ast.NotEq)):
                        continue
                    a, b = cond.left, cond.comparators[0]
                    if not all(isinstance(x, ast.Call) and (call_name(x) or "").split(".")[-1] == "dtype_layout" and x.args for x in (a, b)):
                        continue
                    pa, pb = r.provenance(g, a.args[0]), r.provenance(g, b.args[0])
                    delivered = lambda pv: ".dtype" in pv and ("self.data.dtype" in pv or any(t.endswith(".dtype") and not t.startswith("self.dtype") for t in pv))
                    declared = lambda pv: "dtype" in pv or "call:self.dtype_for" in pv
                    if (delivered(pa) and declared(pb) and not delivered(pb)) or (delivered(pb) and declared(pa) and not delivered(pa)):
                        found = True
        chk.check(found, R, f, stmt_of(canon[0]), f"{q} compares dtypes only after rebuilding both as packed: data with the declared fields but another memory layout (padding, explicit offsets) is accepted and stored under the declared dtype",
                  site_text=f"{q}: raises when dtype_layout(delivered) != dtype_layout(declared)", site={"function": q, "rule": "layout compared"})
    dl = repo.func("dtype_layout", UTILS) if repo.has_func("dtype_layout", UTILS) else None
    if sites:
        ok = dl is not None and any(isinstance(st, ast.Return) and "itemsize" in norm(st.value) and ("fields" in norm(st.value) or "offsets" in norm(st.value)) for st in walk_body(dl.node))
        chk.check(ok, R, dl or "strax/utils.py", None, "dtype_layout does not describe field offsets and itemsize", site_text="dtype_layout: (offsets, itemsize)")


WITNESSES = [
    W("empty arrays skip _check_dtype", "C12.R9", PLUGIN,
      "expect = strax.remove_titles_from_dtype(self.dtype_for(d))\n        if not isinstance(expect, np.dtype):", "if not len(x):\n            return\n        expect = strax.remove_titles_from_dtype(self.dtype_for(d))\n        if not isinstance(expect, np.dtype):"),
    W("chunk constructor checks the dtype only of non-empty data", "C12.R9", CHUNK,
      "expected_dtype = strax.remove_titles_from_dtype(dtype)\n        got_dtype = strax.remove_titles_from_dtype(self.data.dtype)\n        if expected_dtype != got_dtype:", "expected_dtype = strax.remove_titles_from_dtype(dtype)\n        got_dtype = strax.remove_titles_from_dtype(self.data.dtype)\n        if len(self.data) and expected_dtype != got_dtype:"),
    W("saver reads the mailbox unchecked (the original defect)", "C12.R5", "strax/storage/common.py",
      "chunks = rechunker.receive(next(checked_source))", "chunks = rechunker.receive(next(source))"),
    W("layout not compared in _check_dtype (the original defect)", "C12.R8", PLUGIN,
      "if got != expect or strax.dtype_layout(x.dtype) != strax.dtype_layout(self.dtype_for(d)):", "if got != expect:"),
    W("layout not compared in Chunk.__init__ (the original defect)", "C12.R8", CHUNK,
      "if strax.dtype_layout(dtype) != strax.dtype_layout(self.data.dtype):", "if False:"),
    W("layout of the declared dtype compared with itself", "C12.R8", CHUNK,
      "if strax.dtype_layout(dtype) != strax.dtype_layout(self.data.dtype):", "if strax.dtype_layout(dtype) != strax.dtype_layout(dtype):"),
    W("dtype_layout forgets the itemsize", "C12.R8", "strax/utils.py",
      "return tuple(dtype.fields[name][1] for name in dtype.names or ()), dtype.itemsize", "return tuple(dtype.fields[name][1] for name in dtype.names or ())"),
    W("dtype compared field-wise through a dict (order forgotten)", "C12.R2", PLUGIN,
      "if got != expect or strax.dtype_layout", "if dict(got.fields) != dict(expect.fields) or strax.dtype_layout"),
    W("dtype compared by names only", "C12.R2", PLUGIN,
      "if got != expect or strax.dtype_layout", "if got.names != expect.names or strax.dtype_layout"),
    W("chunk checked against its own label", "C12.R7", DOWN,
      "for d, v in _result.items():\n                    self._check_chunk(v, d)", "for d, v in _result.items():\n                    self._check_chunk(v, v.data_type)"),
    W("fix_output checks the chunk against its own label", "C12.R7", PLUGIN,
      "self._check_chunk(result, _dtype)\n        return self.superrun_transformation", "self._check_chunk(result, result.data_type)\n        return self.superrun_transformation"),
    W("restore the self-comparison in Chunk.__init__ (the original defect)", "C12.R1", CHUNK,
      "got_dtype = strax.remove_titles_from_dtype(self.data.dtype)", "got_dtype = strax.remove_titles_from_dtype(dtype)"),
    W("dead guard in _check_dtype", "C12.R1", PLUGIN,
      "got = strax.remove_titles_from_dtype(x.dtype)", "got = strax.remove_titles_from_dtype(self.dtype_for(d))"),
    W("label check deleted", "C12.R2", PLUGIN,
      "if result.data_type != d:\n            raise ValueError(\n                f\"{self.__class__.__name__} returned a Chunk with data_type \"\n                f\"{result.data_type} instead of {d}.\"\n            )", "pass"),
    W("chunk-wrapped results skip the dtype check (the original defect)", "C12.R2", PLUGIN,
      "            )\n        self._check_dtype(result.data, d)", "            )"),
    W("check only bare arrays", "C12.R2", PLUGIN,
      "self._check_chunk(result, _dtype)\n        return self.superrun_transformation(result, superrun, subruns)",
      "return self.superrun_transformation(result, superrun, subruns)"),
    W("multi-output non-dict accepted", "C12.R2", PLUGIN,
      "if not isinstance(result, dict):\n                raise ValueError(\n                    f\"{self.__class__.__name__} is multi-output and should \"\n                    \"provide a dict output.\"\n                )", "pass"),
    W("down-chunking skips the per-chunk check (the original defect)", "C12.R3", DOWN,
      "if isinstance(_result, dict):\n                for d, v in _result.items():\n                    self._check_chunk(v, d)\n            else:\n                self._check_chunk(_result, self.provides[0])", "pass"),
    W("down-chunking checks only single outputs", "C12.R3", DOWN,
      "if isinstance(_result, dict):\n                for d, v in _result.items():\n                    self._check_chunk(v, d)\n            else:", "if isinstance(_result, dict):\n                pass\n            else:"),
    W("exhaust plugin bypasses the base do_compute", "C12.R3", "strax/plugins/exhaust_plugin.py",
      "return super().do_compute(chunk_i=chunk_i, **kwargs)", "return self.compute(**{k: v.data for k, v in kwargs.items()})"),
    W("late-data guard deleted", "C12.R4", CHUNK,
      "if data_ends_at > self.end:\n                raise ValueError(\n                    f\"Attempt to create chunk {self} whose data ends late at {data_ends_at}\"\n                )", "pass"),
    W("early-data guard uses <=... wrong direction", "C12.R4", CHUNK,
      "if data_starts_at < self.start:", "if data_starts_at > self.start:"),
    W("late guard compares with start", "C12.R4", CHUNK,
      "if data_ends_at > self.end:", "if data_ends_at > self.start and False:"),
    W("non-array data accepted", "C12.R4", CHUNK,
      "if not isinstance(self.data, np.ndarray):\n            raise ValueError(f\"Attempt to create chunk {self} with data that isn't a numpy array\")", "pass"),
    W("get_iter iterates the generator directly", "C12.R5", CONTEXT,
      "for n_chunks, result in enumerate(strax.continuity_check(generator), 1):", "for n_chunks, result in enumerate(generator, 1):"),
    W("continuity_check only warns", "C12.R5", CHUNK,
      "if chunk.start != last_end:\n                raise ValueError(\n                    f\"Data is not continuous. Chunk {chunk} should have started at {last_end}\"\n                )",
      "if chunk.start != last_end:\n                warn(f\"Data is not continuous. Chunk {chunk} should have started at {last_end}\")"),
    W("time without an end field accepted", "C12.R6", PLUGIN,
      "ok = \"time\" in fieldnames and (\n                (\"dt\" in fieldnames and \"length\" in fieldnames) or \"endtime\" in fieldnames\n            )", "ok = \"time\" in fieldnames"),
    W("dt alone accepted", "C12.R6", PLUGIN,
      "(\"dt\" in fieldnames and \"length\" in fieldnames) or \"endtime\" in fieldnames", "(\"dt\" in fieldnames or \"length\" in fieldnames) or \"endtime\" in fieldnames"),
    W("cached plugins skip fix_dtype", "C12.R6", CONTEXT,
      "# Finally, fix the dtype.\n        for plugin in requested_plugins.values():\n            plugin.fix_dtype()", "pass"),
]
