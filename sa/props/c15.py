"""C15 - loading many runs in parallel equals loading them one by one.

Decided statically: (R1) a lockset-style race detection on the state of one Context that the
worker threads of multi_run share: size-changing mutation of a container vs. iteration / copy of
the same container in functions reachable from the submitted callable, with no lock in between
(K1), and rebind / delete vs. subscript read across functions (K2); (R2) the structure of
multi_run itself (exception inspected before the result, failing runs skipped or raised, results
reordered by run id, run-id column taken from the future's own run).  The tree violates R1 (the
context has no lock at all); those pairs are listed in known_findings.json, any *new* pair is a
violation.
"""

import ast

from ..cfg import cfg_of, literals
from ..dataflow import Defs, calls_in, provenance, stmt_of
from ..index import AnalysisError, call_name, dotted, enclosing, head, norm, walk_body
from ..rules import COMPOUND, kw, node_calls, own_calls
from ..witness import W

CONTEXT = "strax/context.py"
UTILS = "strax/utils.py"
RUNSEL = "strax/run_selection.py"

EXPLANATION = (
    "Static race detection (lockset analysis with an empty lockset, because Context has no lock): "
    "from the callable that Context.get_array / make submit to strax.multi_run the analysis follows "
    "self-calls (methods, properties, functions attached with Context.add_method, nested functions) "
    "and summarises for every container attribute of Context the size-changing writes, rebinds, "
    "iterations / copies and subscript reads, including through local aliases of self.attr[...]. "
    "K1 = write x iteration of the same container level; K2 = rebind/delete x subscript read in "
    "another function. Single-key stores on containers nobody iterates are not flagged (atomic "
    "under the GIL). R2 checks the result-collection structure of multi_run on its CFG."
)
RULE_TEXT = "one obligation per (attribute, level, writer function, reader function) pair, and per structural requirement of multi_run"
ASSUMPTIONS = [
    "a single dict/list operation is atomic under the GIL; iterating a dict while another thread changes its size raises RuntimeError or yields a torn snapshot",
    "worker threads share the Context object bound into the submitted method",
]

SHARED = ["_plugin_class_registry", "_fixed_plugin_cache", "_fixed_level_cache", "_run_defaults_cache", "config", "context_config", "storage"]
SIZE_MUTATORS = {"update", "setdefault", "pop", "clear", "append", "extend", "insert", "remove", "popitem"}
# Python-level traversals (not atomic).  list(d) / dict(d) / d.copy() / sorted(d) / tuple(d) run inside
# one C call holding the GIL and are therefore not counted as iterations.
TRAVERSERS = {"deepcopy"}


def context_functions(repo):
    """name -> FuncInfo for everything callable as self.<name> on a Context."""
    ctx = repo.cls("Context")
    out = {}
    for name, f in ctx.methods.items():
        out[name] = f
    mod = repo.modules.get(RUNSEL)
    if mod is not None:
        for f in mod.functions.values():
            if f.parent_func is None and f.cls is None and any((dotted(d) or "").endswith("Context.add_method") for d in f.node.decorator_list):
                out[f.name] = f
    return out


def reachable_from(repo, root_names):
    funcs = context_functions(repo)
    seen = {}
    work = [funcs[r] for r in root_names if r in funcs]
    while work:
        f = work.pop()
        if f in seen:
            continue
        seen[f] = True
        # nested functions
        for g in f.module.functions.values():
            if g.parent_func is f and g not in seen:
                work.append(g)
        for n in walk_body(f.node):
            if isinstance(n, ast.Attribute) and isinstance(n.value, ast.Name) and n.value.id == "self":
                name = n.attr
                if name.startswith("_Context__"):
                    name = name[len("_Context") :]
                if name in funcs and funcs[name] not in seen:
                    work.append(funcs[name])
    return list(seen)


class Access:
    def __init__(self, func, attr, level, kind, stmt):
        self.func, self.attr, self.level, self.kind, self.stmt = func, attr, level, kind, stmt


def _base_attr(e, aliases):
    """(attr, level) if expression e denotes self.<attr> (level 0) or self.<attr>[...] (level 1),
    directly or through a local alias."""
    if isinstance(e, ast.Attribute) and isinstance(e.value, ast.Name) and e.value.id == "self" and e.attr in SHARED:
        return e.attr, 0
    if isinstance(e, ast.Name) and e.id in aliases:
        return aliases[e.id]
    if isinstance(e, ast.Subscript):
        b = _base_attr(e.value, aliases)
        if b is not None:
            return b[0], b[1] + 1
    if isinstance(e, ast.Call) and isinstance(e.func, ast.Attribute) and e.func.attr == "get" and not isinstance(e.func.value, ast.Constant):
        b = _base_attr(e.func.value, aliases)
        if b is not None:
            return b[0], b[1] + 1
    return None


def accesses(func):
    """Effect summary of one function on the shared Context attributes."""
    out = []
    # aliases: x = self.attr / self.attr[...] (single assignment locals only)
    defs = Defs(func.node)
    aliases = {}
    for name in defs.defs:
        v = defs.single(name)
        if v is not None:
            b = _base_attr(v, {})
            if b is not None:
                aliases[name] = b
    for n in walk_body(func.node):
        st = stmt_of(n)
        if isinstance(n, (ast.Assign, ast.AugAssign, ast.AnnAssign)):
            targets = n.targets if isinstance(n, ast.Assign) else [n.target]
            for t in targets:
                for tt in (t.elts if isinstance(t, (ast.Tuple, ast.List)) else [t]):
                    if isinstance(tt, ast.Attribute):
                        b = _base_attr(tt, aliases)
                        if b is not None and b[1] == 0:
                            out.append(Access(func, b[0], 0, "rebind", n))
                    elif isinstance(tt, ast.Subscript):
                        b = _base_attr(tt.value, aliases)
                        if b is not None:
                            out.append(Access(func, b[0], b[1], "set-item", n))
        elif isinstance(n, ast.Delete):
            for t in n.targets:
                if isinstance(t, ast.Subscript):
                    b = _base_attr(t.value, aliases)
                    if b is not None:
                        out.append(Access(func, b[0], b[1], "del-item", n))
        elif isinstance(n, ast.Call):
            cn = call_name(n) or ""
            if isinstance(n.func, ast.Attribute) and n.func.attr in SIZE_MUTATORS:
                b = _base_attr(n.func.value, aliases)
                if b is not None:
                    out.append(Access(func, b[0], b[1], "mutcall:" + n.func.attr, st))
            if cn.split(".")[-1] in TRAVERSERS and n.args:
                a = n.args[0]
                if isinstance(a, ast.Call) and isinstance(a.func, ast.Attribute) and a.func.attr in ("items", "keys", "values"):
                    a = a.func.value
                b = _base_attr(a, aliases)
                if b is not None:
                    out.append(Access(func, b[0], b[1], "copy", st))
        elif isinstance(n, (ast.For, ast.comprehension)):
            it = n.iter
            if isinstance(it, ast.Call) and isinstance(it.func, ast.Attribute) and it.func.attr in ("items", "keys", "values"):
                it = it.func.value
            b = _base_attr(it, aliases)
            if b is not None:
                out.append(Access(func, b[0], b[1], "iter", st if st is not None else n))
        elif isinstance(n, ast.Subscript) and isinstance(n.ctx, ast.Load):
            b = _base_attr(n.value, aliases)
            if b is not None:
                out.append(Access(func, b[0], b[1], "read-item", st))
    return out


def is_guarded_read(acc):
    """A subscript read protected by a membership / None test in the same function does not count
    for K2 only if the test and the read cannot be separated... they can: no exemption."""
    return False


def run(chk):
    repo = chk.repo
    r1_races(chk, repo)
    r2_multi_run(chk, repo)
    r3_work_queue(chk, repo)
    r4_publish_after_construct(chk, repo)
    r4b_private_copy(chk, repo)
    r5_forwarding(chk, repo)
    r6_temp_plugin_window(chk, repo)


def r1_races(chk, repo):
    chk.describe("C15.R1", "no container of a shared Context is resized or rebound by one multi_run worker while another iterates, copies or indexes it without a common lock")
    # roots: what is handed to multi_run
    roots = set()
    for f in repo.cls("Context").methods.values():
        for c in (n for n in walk_body(f.node) if isinstance(n, ast.Call)):
            if (call_name(c) or "").endswith("multi_run") and c.args:
                a = c.args[0]
                if isinstance(a, ast.Attribute) and dotted(a.value) == "self":
                    roots.add(a.attr)
    chk.floor("C15.R1", "multi_run call sites in Context", len(roots), 1)
    funcs = reachable_from(repo, sorted(roots))
    chk.floor("C15.R1", "Context functions reachable from the multi_run callable", len(funcs), 25)
    chk.note("roots", sorted(roots))
    chk.note("reachable_functions", len(funcs))
    has_lock = any(isinstance(n, ast.With) and any("lock" in norm(i.context_expr).lower() for i in n.items) for f in funcs for n in walk_body(f.node))
    chk.note("lock_regions_in_reachable_code", bool(has_lock))
    accs = []
    for f in funcs:
        accs += accesses(f)
    by = {}
    for a in accs:
        by.setdefault((a.attr, a.level), []).append(a)
    n_pairs = 0
    for (attr, level), lst in sorted(by.items()):
        writers = [a for a in lst if a.kind in ("set-item", "del-item") or a.kind.startswith("mutcall")]
        iters = [a for a in lst if a.kind in ("iter", "copy")]
        rebinds = [a for a in by.get((attr, 0), []) if a.kind == "rebind"] if level >= 0 else []
        reads = [a for a in lst if a.kind == "read-item"]
        seen = set()
        for w in writers:
            for i in iters:
                key = (w.func.qualname, i.func.qualname)
                if key in seen:
                    continue
                seen.add(key)
                n_pairs += 1
                _report(chk, "K1", attr, level, w, i)
        # K2: rebind of the attribute / deletion of an item vs subscript read at this level elsewhere
        # (deleting an item is not paired with reads: readers index other keys than the deleted
        # temporary ones, which cannot be decided statically - not flagged)
        killers = [a for a in by.get((attr, 0), []) if a.kind == "rebind"] if level == 0 else []
        seen = set()
        for w in killers:
            for r in reads:
                if r.func is w.func:
                    continue
                key = (w.func.qualname, r.func.qualname)
                if key in seen:
                    continue
                seen.add(key)
                n_pairs += 1
                _report(chk, "K2", attr, level, w, r)
        if not writers and not killers:
            chk.ok("C15.R1", f"{attr}[level {level}]: no size-changing write reachable from the workers", nontrivial=False)
    chk.note("racy_pairs_examined", n_pairs)


def _report(chk, kind, attr, level, w, r):
    site = {"kind": kind, "attr": attr, "level": level, "writer": w.func.qualname, "reader": r.func.qualname}
    what = {
        "K1": f"{w.func.qualname} changes the size of {attr}{'[...]' * level} (`{head(w.stmt, 60)}`) while {r.func.qualname} iterates / copies it (`{head(r.stmt, 60)}`): RuntimeError 'changed size during iteration' or a torn snapshot",
        "K2": f"{w.func.qualname} rebinds / deletes from {attr}{'[...]' * level} (`{head(w.stmt, 60)}`) while {r.func.qualname} indexes it (`{head(r.stmt, 60)}`): KeyError / TypeError in the other worker",
    }[kind]
    chk.fail("C15.R1", w.func, w.stmt, what, site=site, site_text=f"{kind} {attr}[{level}] {w.func.qualname} x {r.func.qualname}")


def r2_multi_run(chk, repo):
    chk.describe("C15.R2", "multi_run inspects each future's exception before its result, skips or raises failing runs, returns results ordered by run id with the run-id column of the future's own run")
    f = repo.func("multi_run", UTILS)
    cfg = cfg_of(f)
    defs = Defs(f.node)
    res = [n for n in cfg.stmt_nodes() if not isinstance(n.stmt, COMPOUND) and node_calls(n, lambda c, nm: nm.endswith(".result") and isinstance(c.func, ast.Attribute))]
    chk.floor("C15.R2", "result() sites in multi_run", len(res), 1)
    for n in res:
        facts = cfg.guard_facts(n)
        chk.check(any(t.endswith(".exception() is not None") and p is False for t, p in facts), "C15.R2", f, n.stmt, "result() of a worker is taken without first testing its exception(): a failing run is not handled by the ignore_errors logic", site_text="multi_run: result() only after `exception() is not None` was false")
    # failing run: continue under ignore_errors, else raise the worker's exception
    rs = [n for n in cfg.stmt_nodes() if isinstance(n.stmt, ast.Raise) and any(t.endswith(".exception() is not None") and p for t, p in cfg.guard_facts(n))]
    chk.check(bool(rs) and all(".exception()" in norm(n.stmt.exc) for n in rs), "C15.R2", f, None, "a failing run is not re-raised with the worker's own exception", site_text="multi_run: raise f.exception()")
    for n in rs:
        chk.check(("ignore_errors", False) in cfg.guard_facts(n), "C15.R2", f, n.stmt, "failure is raised although errors are to be ignored", site_text="multi_run: raise only if not ignore_errors", nontrivial=False)
    cont = [n for n in cfg.stmt_nodes() if isinstance(n.stmt, ast.Continue) and ("ignore_errors", True) in cfg.guard_facts(n) and any(t.endswith(".exception() is not None") and p for t, p in cfg.guard_facts(n))]
    chk.check(bool(cont), "C15.R2", f, None, "with ignore_errors a failing run is not skipped", site_text="multi_run: ignore_errors -> continue")
    # ordering: the returned list is rebuilt in stable_argsort order of the recorded run ids
    from ..pattern import find as pfind, pmatch
    rets = [n for n in cfg.stmt_nodes() if isinstance(n.stmt, ast.Return) and n.stmt.value is not None and not (isinstance(n.stmt.value, ast.Constant))]
    chk.floor("C15.R2", "result returns in multi_run", len(rets), 1)
    FR = RO = None
    for n in rets:
        okr = False
        if isinstance(n.stmt.value, ast.Name):
            for st, b in pfind(f.node, f"{n.stmt.value.id} = [{n.stmt.value.id}[L_i] for L_i in stable_argsort(L_ro)]"):
                if any(x in cfg.dominators("n")[n] for x in cfg.nodes_of(st)):
                    okr = True
                    FR, RO = n.stmt.value.id, b["L_ro"]
        chk.check(okr, "C15.R2", f, n.stmt, "results are not reordered by run id before being returned (thread completion order leaks out)", site_text="multi_run: results ordered by stable_argsort(recorded run ids)")
    # run id column and bookkeeping
    a2 = [c for c in calls_in(f.node) if RO and norm(c.func) == f"{RO}.append"]
    a1 = [c for c in calls_in(f.node) if FR and norm(c.func) == f"{FR}.append"]
    ok = bool(a1) and bool(a2) and all(enclosing(x, (ast.For, ast.If)) is enclosing(y, (ast.For, ast.If)) for x in a1 for y in a2)
    chk.check(ok, "C15.R2", f, None, "results and their run ids are not recorded together (the sort permutation would not match)", site_text="multi_run: result and run id appended together")
    RID = norm(a2[0].args[0]) if a2 and isinstance(a2[0].args[0], ast.Name) else None
    pops = [b for st, b in pfind(f.node, f"{RID} = L_futs.pop(L_f)")] if RID else []
    okp = False
    for b in pops:
        lp = [x for x in walk_body(f.node) if isinstance(x, ast.For) and norm(x.target) == b["L_f"]]
        if lp:
            okp = True
            FUTS, FV = b["L_futs"], b["L_f"]
    chk.check(okp, "C15.R2", f, None, "the run id attached to a result is not the one the finished future was submitted for", site_text="multi_run: run id = futures.pop(finished future)")
    idsok = False
    for st, b in pfind(f.node, f"L_ids = np.array([{RID}] * len(L_res), dtype=E_dt)") if RID else []:
        if pfind(f.node, f"{b['L_res']} = merge_arrs([{b['L_ids']}, {b['L_res']}])") and pfind(f.node, f"{b['L_res']} = {FV}.result()"):
            idsok = True
    chk.check(idsok, "C15.R2", f, None, "run-id column is not built from the future's run id for every row of its result", site_text="multi_run: ids = [run id] * len(result), merged into the result")
    # submissions: exec_function(run id, ...) keyed by that run id
    subs = [c for c in calls_in(f.node) if isinstance(c.func, ast.Attribute) and c.func.attr == "submit"]
    chk.floor("C15.R2", "submit sites in multi_run", len(subs), 2)
    for c in subs:
        ok1 = len(c.args) >= 2 and norm(c.args[0]) == "exec_function" and isinstance(c.args[1], ast.Name)
        keyed = False
        if ok1:
            r_ = c.args[1].id
            par = getattr(c, "_parent", None)
            if isinstance(par, ast.DictComp) and norm(par.value) == r_ and any(norm(g.target) == r_ for g in par.generators):
                keyed = True
            st = stmt_of(c)
            if isinstance(st, ast.Assign) and isinstance(st.targets[0], ast.Name):
                fut = st.targets[0].id
                if okp and pfind(f.node, f"{FUTS}[{fut}] = {r_}"):
                    keyed = True
        chk.check(ok1 and keyed, "C15.R2", f, stmt_of(c), "worker is not submitted as exec_function(run_id, ...) and remembered under that run id", site_text="multi_run: futures[submit(exec_function, r, ...)] = r")

# ------------------------------------------------------------------------------------ R3
def r3_work_queue(chk, repo):
    from ..linear import linear
    from ..pattern import find as pfind, pmatch
    chk.describe("C15.R3", "multi_run submits every run exactly once: the first batch and every top-up take consecutive slices of the same (sorted) sequence, the cursor advances once per submission, and every finished future - failed or not - frees a slot")
    R = "C15.R3"
    f = repo.func("multi_run", UTILS)
    cfg = cfg_of(f)
    sl = [c for c in calls_in(f.node) if (call_name(c) or "").endswith("islice") and len(c.args) >= 2]
    chk.check(len(sl) == 2, R, f, None, f"expected the first batch and the top-up to be taken with islice, found {len(sl)} islice calls", site_text="multi_run: two islice sites")
    if len(sl) != 2:
        return
    sl.sort(key=lambda c: c.lineno)
    first, top = sl
    seqs = {norm(c.args[0]) for c in sl}
    chk.check(len(seqs) == 1, R, f, stmt_of(top), f"the first batch and the top-ups are taken from different sequences ({sorted(seqs)}): some runs are loaded twice and others never", site_text="multi_run: one sequence for all submissions", site={"function": f.qualname, "rule": "same sequence"})
    SEQ = norm(first.args[0])
    srt = [st for st in walk_body(f.node) if isinstance(st, ast.Assign) and norm(st.targets[0]) == SEQ and isinstance(st.value, ast.Call) and (call_name(st.value) or "").split(".")[-1] in ("stable_sort", "sort", "sorted")]
    chk.check(bool(srt), R, f, None, "the submitted sequence is not the sorted run list", site_text="multi_run: sequence = stable_sort(run ids)", nontrivial=False)
    # cursor: top-up starts at the cursor, which starts where the first batch ended and advances once per submission
    chk.check(len(top.args) == 3 and isinstance(top.args[1], ast.Name), R, f, stmt_of(top), "top-up slice does not start at a cursor variable", site_text="multi_run: islice(seq, cursor, stop)")
    if not (len(top.args) == 3 and isinstance(top.args[1], ast.Name)):
        return
    CUR = top.args[1].id
    first_stop = norm(first.args[2]) if len(first.args) == 3 else norm(first.args[1])
    first_start = norm(first.args[1]) if len(first.args) == 3 else "0"
    inits = [st for st in walk_body(f.node) if isinstance(st, ast.Assign) and norm(st.targets[0]) == CUR]
    loop = enclosing(top, (ast.For,))
    okc = loop is not None and loop.iter is top
    incs = [st for st in walk_body(f.node) if isinstance(st, ast.AugAssign) and norm(st.target) == CUR]
    okc = okc and len(incs) == 1 and isinstance(incs[0].op, ast.Add) and norm(incs[0].value) == "1" and incs[0] in loop.body
    okc = okc and any(norm(st.value) == first_stop for st in inits) and (first_start == "0" or first_start == CUR)
    chk.check(okc, R, f, stmt_of(top), "the cursor does not continue where the first batch ended / does not advance exactly once per submission: runs are skipped or submitted twice", site_text="multi_run: cursor = size of first batch; cursor += 1 per submission")
    # number of new submissions per round = number of futures that finished in this round
    wl = enclosing(loop, (ast.While,)) if loop is not None else None
    done = None
    for st in walk_body(wl) if wl is not None else []:
        if isinstance(st, ast.Assign) and isinstance(st.value, ast.Call) and call_name(st.value) == "wait" and isinstance(st.targets[0], ast.Tuple):
            done = norm(st.targets[0].elts[0])
    chk.need(done is not None, "C15.R3: `done, _ = wait(futures, ...)` not found in multi_run")
    dl = [st for st in walk_body(wl) if isinstance(st, ast.For) and norm(st.iter) == done]
    form = linear(ast.BinOp(left=top.args[2], op=ast.Sub(), right=top.args[1]))
    form.pop("1", 0)
    body_first = cfg.nodes_of(dl[0].body[0]) if dl else []
    ln = cfg.node_of(dl[0]) if dl else None
    inside = {id(x) for st_ in dl[0].body for x in ast.walk(st_)} if dl else set()
    in_loop = lambda n: id(n.stmt if n.kind == "stmt" else n.owner) in inside

    def on_every_round_path(stmts):
        nodes = [cfg.node_of(x) for x in stmts]
        return bool(nodes) and bool(dl) and (any(b in nodes for b in body_first) or cfg.every_path(body_first, [ln], lambda n: n in nodes or (n is not ln and not in_loop(n)), "n")[0])

    finished, partial = [], []
    for sym, coef in form.items():
        if sym == f"len({done})":
            (finished if coef == 1 else partial).append(sym)
            continue
        incs_in = [st for st in walk_body(f.node) if isinstance(st, ast.AugAssign) and norm(st.target) == sym and id(st) in inside]
        if incs_in:
            full = all(isinstance(x.op, ast.Add) and norm(x.value) == "1" for x in incs_in) and on_every_round_path(incs_in)
            (finished if full and coef == 1 else partial).append(sym)
            continue
        e = ast.parse(sym, mode="eval").body
        if isinstance(e, ast.Call) and call_name(e) == "len" and e.args:
            cont = norm(e.args[0])
            apps = [stmt_of(c) for c in calls_in(f.node) if isinstance(c.func, ast.Attribute) and c.func.attr in ("append", "add", "extend") and norm(c.func.value) == cont and id(stmt_of(c)) in inside]
            if apps:
                (finished if coef == 1 and on_every_round_path(apps) else partial).append(sym)
    chk.check(bool(finished) and not partial, R, f, stmt_of(top), "the number of runs submitted after a round does not follow the number of futures that finished" + (f": {partial} count(s) only some of them" if partial else ": no term counts the finished futures") + " - failed runs keep their slots, the pool drains and the remaining runs are silently never loaded",
              site_text="multi_run: top-up size follows the futures finished (failed or not)", site={"function": f.qualname, "rule": "every finished future frees a slot"})
    # the top-up is not skipped by the failure handling (it sits in the while body, outside the collecting loop)
    chk.check(loop is not None and wl is not None and loop in wl.body, R, f, stmt_of(top), "the top-up is not executed once per wait round", site_text="multi_run: top-up at the end of every wait round")


# ------------------------------------------------------------------------------------ R4
def r4_publish_after_construct(chk, repo):
    chk.describe("C15.R4", "a plugin is put into the shared plugin cache only when fully built: after the store, nothing writes to it or calls its initialisers (another worker may copy it from the cache at any time)")
    f = repo.func("Context.__get_plugin", CONTEXT)
    cfg = cfg_of(f)
    news = [st for st in walk_body(f.node) if isinstance(st, ast.Assign) and isinstance(st.targets[0], ast.Name) and isinstance(st.value, ast.Call) and isinstance(st.value.func, ast.Subscript) and "self._plugin_class_registry" in norm(st.value.func.value)]
    chk.need(len(news) == 1, "C15.R4: plugin instantiation in Context.__get_plugin not found")
    P = news[0].targets[0].id
    pubs = [n for n in cfg.stmt_nodes() if not isinstance(n.stmt, COMPOUND) and node_calls(n, lambda c, nm: nm == "self._plugins_to_cache" and any(isinstance(x, ast.Name) and x.id == P for a in c.args for x in ast.walk(a)))]
    chk.check(len(pubs) == 1, "C15.R4", f, None, "the freshly built plugin is not stored in the plugin cache at exactly one place", site_text="__get_plugin: one _plugins_to_cache(plugin) site")
    for pub in pubs:
        after = cfg.reachable([pub], "n") - {pub}
        for n in sorted(after, key=lambda x: x.id):
            if n.kind != "stmt" or isinstance(n.stmt, COMPOUND):
                continue
            st = n.stmt
            bad = None
            if isinstance(st, (ast.Assign, ast.AugAssign)):
                tgs = st.targets if isinstance(st, ast.Assign) else [st.target]
                for t in tgs:
                    root = t
                    while isinstance(root, (ast.Attribute, ast.Subscript)):
                        root = root.value
                    if isinstance(root, ast.Name) and root.id == P and root is not t:
                        bad = f"`{head(st, 60)}` writes to the plugin"
            if isinstance(st, ast.Expr) and isinstance(st.value, ast.Call):
                c = st.value
                if isinstance(c.func, ast.Attribute) and isinstance(c.func.value, ast.Name) and c.func.value.id == P:
                    bad = f"`{head(st, 60)}` runs an initialiser of the plugin"
                elif any(isinstance(a, ast.Name) and a.id == P for a in c.args) and (call_name(c) or "") != "self._plugins_to_cache":
                    bad = f"`{head(st, 60)}` hands the plugin to a mutating helper"
            chk.check(bad is None, "C15.R4", f, st, f"{bad} after it was put into the shared cache: a concurrent worker can pick up the half-built plugin (and a failure here leaves a broken plugin cached for all later runs)",
                      site_text=f"__get_plugin: `{head(st, 50)}` does not touch the published plugin", site={"function": f.qualname, "after_publish": norm(st)[:80]}, nontrivial=bad is not None)

def r4b_private_copy(chk, repo):
    """__assign_chunk_number_to_plugin writes chunk numbers into the plugin's lineage: every plugin
    handed to it from __get_plugin is a private deep copy, never the object kept in the shared cache."""
    f = repo.func("Context.__get_plugin", CONTEXT)
    d = Defs(f.node)
    calls = [c for c in calls_in(f.node) if (call_name(c) or "").endswith("__assign_chunk_number_to_plugin") and c.args]
    chk.check(len(calls) >= 2, "C15.R4", f, None, "the chunk-number assignment sites of __get_plugin were not found", site_text="__get_plugin: chunk numbers assigned in the cached and the cold branch")
    cfg = cfg_of(f)
    from ..rules import reaching
    r = reaching(f)
    for c in calls:
        a = c.args[0]
        ok = False
        if isinstance(a, ast.Name):
            ds = [x for x in r.defs_of(cfg.node_of(stmt_of(c)), a.id) if x[1] is not None]
            ok = bool(ds) and all(isinstance(x[1], ast.Call) and isinstance(x[1].func, ast.Attribute) and x[1].func.attr == "__copy__" and x[1].args and norm(x[1].args[0]) == "True" for x in ds)
        chk.check(ok, "C15.R4", f, stmt_of(c), f"`{norm(c)[:70]}` writes chunk numbers into a plugin that is not a private deep copy (`.__copy__(True)`): the lineage dicts are shared with the plugin in the shared cache, so later requests (and other workers) see chunk numbers of this one",
                  site_text="__get_plugin: chunk numbers only written into `<plugin>.__copy__(True)`", site={"function": f.qualname, "rule": "private deep copy", "call": norm(c)[:50]})


# ------------------------------------------------------------------------------------ R5
def r5_forwarding(chk, repo):
    chk.describe("C15.R5", "the multi-run branch of a Context method hands every argument on to multi_run that the single-run branch uses (a many-runs call behaves like the sequence of single-run calls)")
    R = "C15.R5"
    n = 0
    for f in repo.cls("Context").methods.values():
        for c in calls_in(f.node):
            if not ((call_name(c) or "").endswith("multi_run") and c.args and norm(c.args[0]) == f"self.{f.name}"):
                continue
            n += 1
            br = enclosing(stmt_of(c), (ast.If,))
            chk.check(br is not None, R, f, stmt_of(c), "multi-run call is not one branch of a many-runs / one-run decision", site_text=f"{f.qualname}: if many runs: multi_run(self.{f.name}, ...)")
            if br is None:
                continue
            mine = br.body if any(stmt_of(c) is x or any(stmt_of(c) is y for y in ast.walk(x)) for x in br.body) else br.orelse
            other = br.orelse if mine is br.body else br.body
            params = set(f.params) - {"self", f.params[1] if len(f.params) > 1 else ""}
            used_other = {x.id for st in other for x in ast.walk(st) if isinstance(x, ast.Name) and isinstance(x.ctx, ast.Load)} & params
            # a single-run branch may be the fall-through after the if (make): then take the rest of the function
            if not other:
                after = [st for st in f.node.body if st.lineno > br.end_lineno]
                used_other = {x.id for st in after for x in ast.walk(st) if isinstance(x, ast.Name) and isinstance(x.ctx, ast.Load)} & params
            fwd = {k.arg for k in c.keywords if k.arg} | {x.id for a in c.args for x in ast.walk(a) if isinstance(x, ast.Name)}
            for k in c.keywords:
                if k.arg is None and isinstance(k.value, ast.Name):
                    fwd.add(k.value.id)
                elif k.arg is not None and isinstance(k.value, ast.Name):
                    fwd.add(k.value.id)
            missing = sorted(p for p in used_other if p not in fwd)
            chk.check(not missing, R, f, stmt_of(c), f"the multi-run branch does not pass {missing} on to multi_run although the single-run branch uses it: a list of runs is then processed differently from the same runs one by one (e.g. `save=` ignored)",
                      site_text=f"{f.qualname}: all arguments of the single-run branch forwarded to multi_run", site={"function": f.qualname, "rule": "arguments forwarded"})
    chk.floor(R, "multi_run call sites that re-enter the same method", n, 1)


# ------------------------------------------------------------------------------------ R6
def r6_temp_plugin_window(chk, repo):
    chk.describe("C15.R6", "the temporary merge plugin of a multi-target request is removed from the shared registry right after the components are assembled, before the (lazily consumed) generator yields anything: the registration never outlives the planning step")
    R = "C15.R6"
    f = repo.func("Context.get_iter", CONTEXT)
    cfg = cfg_of(f)
    regs = [n for n in cfg.stmt_nodes() if not isinstance(n.stmt, COMPOUND) and node_calls(n, lambda c, nm: nm == "self.register")]
    dels = [n for n in cfg.stmt_nodes() if isinstance(n.stmt, ast.Delete) and any(norm(t).startswith("self._plugin_class_registry[") for t in n.stmt.targets)]
    yields = [n for n in cfg.stmt_nodes() if not isinstance(n.stmt, COMPOUND) and any(isinstance(x, (ast.Yield, ast.YieldFrom)) for x in ast.walk(n.stmt))]
    comps = [n for n in cfg.stmt_nodes() if not isinstance(n.stmt, COMPOUND) and node_calls(n, lambda c, nm: nm == "self.get_components")]
    chk.check(bool(regs) and bool(dels) and bool(yields) and bool(comps), R, f, None, "get_iter no longer registers / removes a temporary plugin around get_components", site_text="get_iter: register temp plugin ... get_components ... cleanup")
    if not (regs and dels and yields and comps):
        return
    loop_of = lambda n: enclosing(n.stmt, (ast.For,))
    cl = [loop_of(d) for d in dels if loop_of(d) is not None]
    clean = lambda n: n.kind == "stmt" and isinstance(n.stmt, ast.For) and n.stmt in cl
    after_yield = cfg.reachable(yields, "nrx")
    late = [d for d in dels if d in after_yield]
    chk.check(not late, R, f, late[0].stmt if late else None, "the temporary plugin is removed only after the generator has started yielding (e.g. in a finally at its end): while the caller consumes the chunks the registration stays in the shared registry, and a worker finishing its run deletes the registration another worker has just made", site_text="get_iter: cleanup happens before the first yield", site={"function": f.qualname, "rule": "cleanup before first yield"})
    ok, _p = cfg.every_path(comps, yields, clean, "n")
    chk.check(ok, R, f, comps[0].stmt, "a path from get_components to the first yield skips the cleanup of temporary plugins", site_text="get_iter: cleanup on every path from get_components to the first yield")


WITNESSES = [
    W("chunk numbers written into the cached plugin", "C15.R4", CONTEXT,
      "target_plugin = cached_plugins[data_type].__copy__(True)", "target_plugin = cached_plugins[data_type]"),
    W("get_array forgets save= for many runs", "C15.R5", CONTEXT,
      "targets=targets,\n                log=self.log,\n                save=save,\n                max_workers=max_workers,", "targets=targets,\n                log=self.log,\n                max_workers=max_workers,"),
    W("temporary plugin cleaned up after the first chunk", "C15.R6", CONTEXT,
      "# Cleanup the temp plugins\n        for k in list(self._plugin_class_registry.keys()):\n            if k.startswith(\"_temp\"):\n                del self._plugin_class_registry[k]\n\n        seen_a_chunk = False", "seen_a_chunk = False"),
    W("top-up reads the caller's unsorted list", "C15.R3", UTILS,
      "for r in itertools.islice(run_id_numpy, task_index, task_index + len(futures_done)):", "for r in itertools.islice(run_ids, task_index, task_index + len(futures_done)):"),
    W("top-up sized by a counter of successes", "C15.R3", UTILS,
      "for r in itertools.islice(run_id_numpy, task_index, task_index + len(futures_done)):", "for r in itertools.islice(run_id_numpy, task_index, task_index + len(final_result) - len(final_result) + 1):"),
    W("cursor advanced twice per submission", "C15.R3", UTILS,
      "task_index += 1\n                fut = exc.submit", "task_index += 2\n                fut = exc.submit"),
    W("plugin cached before fix_dtype", "C15.R4", CONTEXT,
      "plugin.fix_dtype()\n\n        # Add plugin to cache\n        self._plugins_to_cache({data_type: plugin for data_type in plugin.provides})", "self._plugins_to_cache({data_type: plugin for data_type in plugin.provides})\n        plugin.fix_dtype()"),
    W("plugin cached before its lineage is known", "C15.R4", CONTEXT,
      "self.__add_lineage_to_plugin(run_id, plugin)\n\n        if not hasattr(plugin, \"data_kind\")", "self._plugins_to_cache({data_type: plugin for data_type in plugin.provides})\n        self.__add_lineage_to_plugin(run_id, plugin)\n\n        if not hasattr(plugin, \"data_kind\")"),
    W("cache the base hash dict on self", "C15.R1", CONTEXT,
      "_base_hash_on_config = deepcopy(self.config)", "self.config[\"_last_hashed\"] = 1\n        _base_hash_on_config = deepcopy(self.config)"),
    W("run-defaults cache iterated while workers fill it", "C15.R1", CONTEXT,
      "_base_hash_on_config = deepcopy(self.config)", "_base_hash_on_config = deepcopy(self.config)\n        for _k in self._run_defaults_cache:\n            pass"),
    W("result taken before the exception test", "C15.R2", UTILS,
      "if f.exception() is not None:\n                    if ignore_errors:", "result = f.result()\n                if f.exception() is not None:\n                    if ignore_errors:"),
    W("ignore_errors no longer skips the run", "C15.R2", UTILS,
      "failures.append(_run_id)\n                        continue", "failures.append(_run_id)"),
    W("results returned in completion order", "C15.R2", UTILS,
      "final_result = [final_result[ind] for ind in stable_argsort(run_id_output)]", "final_result = list(final_result)"),
    W("run id column from the loop variable of submission", "C15.R2", UTILS,
      "ids = np.array([_run_id] * len(result), dtype=[(\"run_id\", run_id_numpy.dtype)])", "ids = np.array([run_id_numpy[tasks_done - 1]] * len(result), dtype=[(\"run_id\", run_id_numpy.dtype)])"),
]
