"""C02 - stored data is reused only under an identical lineage (no stale reads).

Decided statically: coherence of the fixed plugin cache (its key covers, or a registry replacement
invalidates, everything the cached plugin and its lineage depend on); determinism of the hash path
(no builtin hash values, sorted mappings and sets, nothing address/time dependent); the `track`
filter on every lineage branch; exact-vs-fuzzy matching structure; nothing saved under fuzzy
matching.  Not decided: that an arbitrary *history* of operations yields the fresh-context result.
"""

import ast

from ..cfg import cfg_of, literals
from ..dataflow import Defs, atoms, calls_in, inline, provenance, stmt_of
from ..index import AnalysisError, call_name, dotted, enclosing, head, norm, walk_body
from ..rules import COMPOUND, kw, node_calls, own_calls
from ..witness import W

CONTEXT = "strax/context.py"
UTILS = "strax/utils.py"
COMMON = "strax/storage/common.py"
FILES = "strax/storage/files.py"
PLUGIN = "strax/plugins/plugin.py"

EXPLANATION = (
    "Static data-flow comparison of what the fixed plugin cache is keyed on (_context_hash) with "
    "how the plugin class registry can change (R1: every replacing store is preceded by an "
    "invalidation or by a test that nothing different was registered; cache reads are keyed by "
    "_context_hash(); caching is off under per-run defaults), determinism lint over the hash path "
    "(R2: value of builtin hash() never used, mapping iteration sorted, sets sorted before the "
    "hashability short-cut, no str/repr/id of arbitrary objects in the auto version, DataKey and "
    "directory names derive only from deterministic_hash), track filter on both lineage branches "
    "(R3), exact match unless fuzzy and filter covers exactly the named parts (R4), no saver is "
    "created while fuzzy matching is on (R5, shared with C11.R2)."
)
RULE_TEXT = "one obligation per (rule, site): registry store, cache subscript, hash()/iteration/return site in the hash path, lineage insertion, match branch"
ASSUMPTIONS = [
    "json.dumps and sha1 are deterministic functions of their input",
    "plugin classes are not mutated in place after registration (class identity stands for its attributes)",
]


def run(chk):
    repo = chk.repo
    r1_cache_coherence(chk, repo)
    r2_hash_determinism(chk, repo)
    r3_track(chk, repo)
    r4_exact_unless_fuzzy(chk, repo)
    from . import c11

    c11.saver_guards(chk, repo, rule="C02.R5", only=("fuzzy",))
    r6_config_ownership(chk, repo)


# ------------------------------------------------------------------------------------ R1
def _is_invalidation(n):
    return (
        n.kind == "stmt"
        and isinstance(n.stmt, ast.Assign)
        and any(norm(t) == "self._fixed_plugin_cache" for t in n.stmt.targets)
        and isinstance(n.stmt.value, ast.Constant)
        and n.stmt.value.value is None
    )


def r1_cache_coherence(chk, repo):
    chk.describe("C02.R1", "fixed plugin cache: key covers config, registry keys and versions; a replaced class invalidates the cache; reads are keyed by _context_hash(); off under per-run defaults")
    ctx = repo.cls("Context")
    ch = repo.func("Context._context_hash", CONTEXT)
    defs = Defs(ch.node)
    rets = [n for n in walk_body(ch.node) if isinstance(n, ast.Return) and n.value is not None]
    chk.need(len(rets) == 1, "C02.R1: Context._context_hash has no single return")
    rv = rets[0].value
    chk.check(isinstance(rv, ast.Call) and (call_name(rv) or "").endswith("deterministic_hash"), "C02.R1", ch, rets[0], "context hash is not a deterministic_hash", site_text="_context_hash: returns deterministic_hash(...)")
    prov = provenance(defs, rv)
    # what is hashed: follow .update(...) on the hashed object too
    for n in walk_body(ch.node):
        if isinstance(n, ast.Call) and isinstance(n.func, ast.Attribute) and n.func.attr == "update" and isinstance(n.func.value, ast.Name) and n.func.value.id in prov:
            for a in n.args:
                prov |= provenance(defs, a)
    for need, why in (("self.config", "the configuration"), ("self._plugin_class_registry", "the registered data types"), ("call:version", "the version of every registered plugin")):
        chk.check(need in prov, "C02.R1", ch, rets[0], f"context hash does not cover {why}: a change there would reuse cached plugins with a stale lineage",
                  site_text=f"_context_hash: covers {need}", site={"function": ch.qualname, "covers": need})
    # versions must be taken for every registry item (comprehension over .items())
    comps = [n for n in walk_body(ch.node) if isinstance(n, (ast.DictComp, ast.ListComp, ast.GeneratorExp)) and any("_plugin_class_registry" in norm(g.iter) for g in n.generators)]
    chk.check(bool(comps) and any("version" in norm(c) for c in comps), "C02.R1", ch, None, "versions are not collected over all registered plugins", site_text="_context_hash: iterates the whole registry")
    for c in comps:
        for g in c.generators:
            for cond in g.ifs:
                t = norm(cond)
                chk.check("TEMP_DATA_TYPE_PREFIX" in t or "_temp" in t, "C02.R1", ch, stmt_of(c), f"registered plugins are excluded from the context hash by `{t}`", site_text="_context_hash: only temporary merge plugins are excluded")

    # every memo of the context that is keyed by the context hash is dropped when a class is replaced:
    # the hash does not see a same-name, same-version class swap
    memo = set()
    for f in ctx.methods.values():
        for st in walk_body(f.node):
            if isinstance(st, ast.Assign):
                for t in st.targets:
                    if isinstance(t, ast.Attribute) and isinstance(t.value, ast.Name) and t.value.id == "self" and t.attr.startswith("_fixed_") and isinstance(st.value, (ast.Dict, ast.Call)):
                        memo.add(t.attr)
    reg = repo.func("Context.register", CONTEXT)
    reset = {t.attr for st in walk_body(reg.node) if isinstance(st, ast.Assign) and isinstance(st.value, ast.Constant) and st.value.value is None for t in st.targets if isinstance(t, ast.Attribute)}
    chk.floor("C02.R1", "hash-keyed memos of Context", len(memo), 2)
    for a in sorted(memo):
        chk.check(a in reset, "C02.R1", reg, None, f"the memo `self.{a}` is filled under the context hash but not dropped by register(): after a same-name, same-version class is re-registered (other dependencies, other defaults) its stale entries are still used", site_text=f"Context.register resets self.{a}", site={"function": reg.qualname, "memo": a})
    # cache reads keyed by the hash
    n_reads = 0
    for f in ctx.methods.values():
        fdefs = Defs(f.node)
        for n in walk_body(f.node):
            if isinstance(n, ast.Subscript) and norm(n.value) == "self._fixed_plugin_cache":
                n_reads += 1
                p = provenance(fdefs, n.slice)
                chk.check("call:self._context_hash" in p, "C02.R1", f, stmt_of(n), "plugin cache indexed by something other than the current context hash", site_text=f"{f.qualname}: cache[{norm(n.slice)[:30]}] keyed by _context_hash()")
    chk.floor("C02.R1", "subscripts of _fixed_plugin_cache", n_reads, 3)
    # use of the cache is gated by _plugins_are_cached
    gp = repo.func("Context.__get_plugin", CONTEXT)
    gcfg = cfg_of(gp)
    for n in gcfg.stmt_nodes():
        if not isinstance(n.stmt, COMPOUND) and node_calls(n, lambda c, nm: "get_requested_plugins_from_cache" in nm):
            facts = gcfg.guard_facts(n)
            chk.check(any(t.startswith("self._plugins_are_cached(") and pol for t, pol in facts), "C02.R1", gp, n.stmt, "cached plugins used without checking that they were built under the current context hash", site_text="__get_plugin: cache used only if _plugins_are_cached")
    pac = repo.func("Context._plugins_are_cached", CONTEXT)
    pcfg = cfg_of(pac)
    rf = [n for n in pcfg.stmt_nodes() if isinstance(n.stmt, ast.Return) and isinstance(n.stmt.value, ast.Constant) and n.stmt.value.value is False]
    ok_hash = any(any("not in self._fixed_plugin_cache" in t and pol for t, pol in pcfg.guard_facts(n)) for n in rf)
    chk.check(ok_hash, "C02.R1", pac, None, "_plugins_are_cached does not return False when the current hash has no cache entry", site_text="_plugins_are_cached: False if hash not in cache")
    for fn in (pac, repo.func("Context._plugins_to_cache", CONTEXT)):
        fcfg = cfg_of(fn)
        early = [n for n in fcfg.stmt_nodes() if isinstance(n.stmt, ast.Return) and (n.stmt.value is None or (isinstance(n.stmt.value, ast.Constant) and not n.stmt.value.value))]
        ok = False
        for n in early:
            gs = fcfg.dominating_guards(n)
            if any(g.test is not None and "use_per_run_defaults" in norm(g.test) and g.polarity for g in gs):
                ok = True
        chk.check(ok, "C02.R1", fn, None, "plugin cache is used although options may differ per run (use_per_run_defaults)", site_text=f"{fn.qualname}: no caching under use_per_run_defaults")
    # stores under the hash computed at store time
    ptc = repo.func("Context._plugins_to_cache", CONTEXT)
    tdefs = Defs(ptc.node)
    for n in walk_body(ptc.node):
        if isinstance(n, ast.Assign) and any(norm(t) == "self._fixed_plugin_cache" for t in n.targets) and isinstance(n.value, ast.Dict):
            for k in n.value.keys:
                chk.check("call:self._context_hash" in provenance(tdefs, k), "C02.R1", ptc, n, "cache created under a key that is not the current context hash", site_text="_plugins_to_cache: new cache keyed by _context_hash()")

    # registry writers
    n_store = 0
    writers = {}
    for m in repo.modules.values():
        for f in m.functions.values():
            for n in walk_body(f.node):
                tg = []
                if isinstance(n, ast.Assign):
                    tg = n.targets
                elif isinstance(n, ast.AugAssign):
                    tg = [n.target]
                for t in tg:
                    if isinstance(t, ast.Subscript) and (dotted(t.value) or "").endswith("._plugin_class_registry"):
                        n_store += 1
                        _check_registry_store(chk, f, n, t)
                        writers.setdefault(f.qualname, 0)
                    elif isinstance(t, ast.Attribute) and t.attr == "_plugin_class_registry":
                        base = dotted(t.value)
                        fresh = f.qualname == "Context.__init__"
                        if base != "self":
                            d = Defs(f.node).single(base) if base else None
                            fresh = isinstance(d, ast.Call) and (call_name(d) or "").split(".")[-1] == "Context"
                        chk.check(fresh, "C02.R1", f, n, "plugin registry of an existing context is rebound without invalidating its plugin cache", site_text=f"{f.qualname}: registry rebound on a fresh context only")
                if isinstance(n, ast.Call) and isinstance(n.func, ast.Attribute) and n.func.attr in ("update", "setdefault", "pop", "clear", "popitem") and (dotted(n.func.value) or "").endswith("._plugin_class_registry"):
                    chk.fail("C02.R1", f, stmt_of(n), f"registry modified by .{n.func.attr}() - not covered by the invalidation analysis")
    chk.floor("C02.R1", "subscript stores into _plugin_class_registry", n_store, 1)


def _check_registry_store(chk, f, st, target):
    cfg = cfg_of(f)
    defs = Defs(f.node)
    key = norm(target.slice)
    val = norm(st.value)
    nodes = cfg.nodes_of(st)

    def safe(n):
        if _is_invalidation(n):
            return True
        if n.kind == "guard" and n.test is not None and n.polarity is False:
            t = inline(defs, n.test)
            # `old and old != new` (or `old != new`, or `key in registry`) being false
            conj = t.values if isinstance(t, ast.BoolOp) and isinstance(t.op, ast.And) else [t]
            for c in conj:
                if isinstance(c, ast.Compare) and len(c.ops) == 1 and isinstance(c.ops[0], ast.NotEq):
                    l, r = norm(c.left), norm(c.comparators[0])
                    reg_get = lambda s: "_plugin_class_registry.get(" in s and key in s
                    if (reg_get(l) and r == val) or (reg_get(r) and l == val):
                        # all conjuncts must be about that same previous value
                        if all(("_plugin_class_registry.get(" in norm(x)) for x in conj):
                            return True
                if isinstance(c, ast.Compare) and len(c.ops) == 1 and isinstance(c.ops[0], ast.In) and norm(c.left) == key and norm(c.comparators[0]).endswith("_plugin_class_registry") and len(conj) == 1:
                    return True
        return False

    ok, path = cfg.every_path([cfg.entry], nodes, safe, "n")
    chk.check(
        ok,
        "C02.R1",
        f,
        st,
        "a registered plugin class can be replaced without invalidating the fixed plugin cache: "
        "name, options, defaults and dependencies of the new class are not part of the context hash, "
        "so the cached plugin and its stale storage key are reused",
        site_text=f"{f.qualname}: `{head(st, 60)}` preceded by an invalidation or a nothing-different-registered test",
        site={"function": f.qualname, "construct": head(st, 160)},
    )


# ------------------------------------------------------------------------------------ R2
HASH_PATH = [("hashablize", UTILS), ("deterministic_hash", UTILS), ("NumpyJSONEncoder.default", UTILS)]
NONDET_CALLS = {"id", "time.time", "time.time_ns", "random.random", "uuid.uuid4", "uuid.uuid1", "os.getpid", "os.urandom", "datetime.now", "datetime.datetime.now"}


def r2_hash_determinism(chk, repo):
    chk.describe("C02.R2", "hash path is deterministic across processes, hash seeds and insertion orders")
    # (a) value of builtin hash() never used
    n_hash = 0
    for m in repo.modules.values():
        for f in m.functions.values():
            for n in walk_body(f.node):
                if isinstance(n, ast.Call) and isinstance(n.func, ast.Name) and n.func.id == "hash":
                    n_hash += 1
                    par = getattr(n, "_parent", None)
                    chk.check(isinstance(par, ast.Expr), "C02.R2", f, stmt_of(n), "value of builtin hash() is used: it depends on PYTHONHASHSEED, so keys differ between processes", site_text=f"{f.qualname}: hash() used only as a hashability probe")
    chk.floor("C02.R2", "builtin hash() calls", n_hash, 1)
    hz = repo.func("hashablize", UTILS)
    cfg = cfg_of(hz)
    # (b) mapping iteration sorted
    n_iter = 0
    for n in walk_body(hz.node):
        if isinstance(n, ast.comprehension) or isinstance(n, ast.For):
            it = n.iter
            t = norm(it)
            if ".items()" in t or ".keys()" in t or ".values()" in t:
                n_iter += 1
                chk.check(isinstance(it, ast.Call) and call_name(it) == "sorted", "C02.R2", hz, stmt_of(it), "mapping iterated in insertion order while hashing: keys depend on option insertion order", site_text="hashablize: dict items iterated through sorted()")
    chk.floor("C02.R2", "mapping iterations in hashablize", n_iter, 1)
    # (c) sets handled before the hashability short-cut
    probes = [n for n in cfg.stmt_nodes() if isinstance(n.stmt, ast.Expr) and isinstance(n.stmt.value, ast.Call) and norm(n.stmt.value.func) == "hash"]
    chk.need(probes, "C02.R2: hashability probe in hashablize not found")
    set_guards = [g for g in cfg.nodes if g.kind == "guard" and g.test is not None and g.polarity and "isinstance" in norm(g.test) and "set" in norm(g.test) and "frozenset" in norm(g.test)]
    ok = False
    for g in set_guards:
        body_ret = [n for n in cfg.reachable([g], "n") if n.kind == "stmt" and isinstance(n.stmt, ast.Return) and g in cfg.dominators("n").get(n, ())]
        for r in body_ret:
            if any(call_name(c) == "sorted" for c in calls_in(r.stmt)):
                # the set test must come before the probe: probe is dominated by the false edge
                gf = cfg.guards_of(g.owner, False)
                if all(any(x in cfg.dominators("n")[p] for x in gf) for p in probes):
                    ok = True
    chk.check(ok, "C02.R2", hz, None, "set / frozenset values reach the generic branch or the hashability short-cut unsorted: their iteration order depends on PYTHONHASHSEED", site_text="hashablize: sets sorted before the hashability short-cut")
    # (d) nothing non-deterministic called in the hash path and the lineage builders
    scope = [repo.func(q, p) for q, p in HASH_PATH] + [repo.func("Context.__add_lineage_to_plugin", CONTEXT), repo.func("Plugin._auto_version", PLUGIN), repo.func("Plugin._auto_version._return_hashable", PLUGIN), repo.func("Context._context_hash", CONTEXT), repo.func("Context.get_data_key", CONTEXT)]
    for f in scope:
        bad = [c for c in (n for n in walk_body(f.node) if isinstance(n, ast.Call)) if (call_name(c) or "") in NONDET_CALLS]
        chk.check(not bad, "C02.R2", f, stmt_of(bad[0]) if bad else None, "address-, time- or process-dependent value flows into a storage key", site_text=f"{f.qualname}: no id()/time/random/pid")
    rh = repo.func("Plugin._auto_version._return_hashable", PLUGIN)
    n_ret = 0
    for n in walk_body(rh.node):
        if isinstance(n, ast.Return) and n.value is not None:
            n_ret += 1
            bad = [c for c in calls_in(n.value) if isinstance(c.func, ast.Name) and c.func.id in ("str", "repr", "format", "id") ]
            fstr = [x for x in ast.walk(n.value) if isinstance(x, ast.JoinedStr)]
            chk.check(not bad and not fstr, "C02.R2", rh, n, "auto version falls back to the text of an arbitrary object, which contains its memory address: the key differs in every process",
                      site_text=f"_auto_version: `{head(n, 60)}` is address free", site={"function": rh.qualname, "construct": head(n, 120)})
    chk.floor("C02.R2", "returns in _return_hashable", n_ret, 2)
    dh = repo.func("deterministic_hash", UTILS)
    dprov = provenance(Defs(dh.node), [n for n in walk_body(dh.node) if isinstance(n, ast.Return)][0].value)
    chk.check("call:sha1" in dprov and "call:hashablize" in dprov and "call:json.dumps" in dprov, "C02.R2", dh, None, "deterministic_hash is no longer sha1(json(hashablize(x)))", site_text="deterministic_hash: sha1 over json of hashablize(thing)")
    # (e) DataKey
    dk = repo.cls("DataKey")
    setter = [f for q, f in repo.module(COMMON).functions.items() if q.startswith("DataKey.lineage") and any(norm(t) == "self._lineage_hash" for n in walk_body(f.node) if isinstance(n, ast.Assign) for t in n.targets)]
    chk.check(len(setter) == 1, "C02.R2", "DataKey", None, "lineage setter computing the lineage hash not found", site_text="DataKey.lineage setter found")
    if setter:
        for n in walk_body(setter[0].node):
            if isinstance(n, ast.Assign) and any(norm(t) == "self._lineage_hash" for t in n.targets):
                chk.check(isinstance(n.value, ast.Call) and (call_name(n.value) or "").endswith("deterministic_hash") and norm(n.value.args[0]) == setter[0].params[1], "C02.R2", setter[0], n, "lineage hash is not deterministic_hash(lineage)", site_text="DataKey: _lineage_hash = deterministic_hash(lineage)")
    # every store of _lineage_hash is in that setter (hash always follows the lineage)
    for f in repo.module(COMMON).functions.values():
        for n in walk_body(f.node):
            if isinstance(n, ast.Assign) and any(isinstance(t, ast.Attribute) and t.attr in ("_lineage_hash", "_lineage") for t in n.targets):
                chk.check(bool(setter) and f is setter[0], "C02.R2", f, n, "lineage or its hash assigned outside the lineage setter: they can diverge", site_text=f"{f.qualname}: lineage and hash assigned together")
    rep = dk.methods.get("__repr__")
    chk.need(rep is not None, "C02.R2: DataKey.__repr__ not found")
    rtxt = norm([n for n in walk_body(rep.node) if isinstance(n, ast.Return)][0].value)
    chk.check("self._run_id" in rtxt and "self.data_type" in rtxt and "self.lineage_hash" in rtxt, "C02.R2", rep, None, "directory name does not consist of run id, data type and lineage hash", site_text="DataKey.__repr__: run_id-data_type-lineage_hash")
    fd = repo.func("DataDirectory._find", FILES)
    from ..pattern import local_defined_as
    DN, dn_assign, _b = local_defined_as(fd.node, "osp.join(self.path, str(key))")
    uses = [c for c in calls_in(fd.node) if DN and (call_name(c) or "") in ("os.path.exists", "osp.exists", "self.backend_key") and c.args and norm(c.args[0]) == DN]
    chk.check(DN is not None and len(uses) >= 2, "C02.R2", fd, None, "directory looked up is not <path>/<str(key)>", site_text="DataDirectory._find: dirname = join(path, str(key))")


# ------------------------------------------------------------------------------------ R3
def r3_track(chk, repo):
    chk.describe("C02.R3", "an option enters the lineage only if it is tracked, on both the child-plugin and the ordinary branch; the lineage records class name, version and all dependencies")
    f = repo.func("Context.__add_lineage_to_plugin", CONTEXT)
    cfg = cfg_of(f)
    defs = Defs(f.node)
    n_ins = 0
    lin0 = [n for n in walk_body(f.node) if isinstance(n, ast.Assign) and any(norm(t) == "plugin.lineage" for t in n.targets) and isinstance(n.value, ast.Dict)]
    CFGS = None
    if lin0 and isinstance(lin0[0].value.values[0], ast.Tuple) and len(lin0[0].value.values[0].elts) == 3 and isinstance(lin0[0].value.values[0].elts[2], ast.Name):
        CFGS = lin0[0].value.values[0].elts[2].id
    for n in walk_body(f.node):
        if isinstance(n, ast.DictComp) and any("plugin.config" in norm(g.iter) for g in n.generators):
            n_ins += 1
            conds = [norm(c) for g in n.generators for c in g.ifs]
            chk.check(any(c.endswith(".track") and "takes_config" in c for c in conds), "C02.R3", f, stmt_of(n), "untracked options enter the lineage (ordinary plugins): changing them would change storage keys", site_text="__add_lineage_to_plugin: ordinary branch filters on .track")
        if isinstance(n, ast.Assign):
            for t in n.targets:
                if isinstance(t, ast.Subscript) and CFGS is not None and norm(t.value) == CFGS:
                    vp = provenance(defs, n.value)
                    if "plugin.config" not in vp:
                        continue
                    n_ins += 1
                    facts = cfg.guard_facts(cfg.node_of(n))
                    chk.check(any(tx.endswith(".track") and "takes_config" in tx and pol for tx, pol in facts), "C02.R3", f, n, "untracked options enter the lineage (child plugins)", site_text="__add_lineage_to_plugin: child branch filters on .track")
    chk.floor("C02.R3", "option insertions into the lineage", n_ins, 2)
    # lineage tuple
    lin = [n for n in walk_body(f.node) if isinstance(n, ast.Assign) and any(norm(t) == "plugin.lineage" for t in n.targets)]
    chk.need(len(lin) == 1 and isinstance(lin[0].value, ast.Dict), "C02.R3: plugin.lineage assignment not found")
    v = lin[0].value.values[0]
    ok = isinstance(v, ast.Tuple) and len(v.elts) == 3 and "__name__" in norm(v.elts[0]) and norm(v.elts[1]) == "plugin.version()" and CFGS is not None and norm(v.elts[2]) == CFGS
    chk.check(ok, "C02.R3", f, lin[0], "lineage entry is not (class name, version(), tracked options)", site_text="__add_lineage_to_plugin: (class name, version, configs)")
    upd = [n for n in walk_body(f.node) if isinstance(n, ast.For) and "depends_on" in norm(n.iter) and any(norm(c.func) == "plugin.lineage.update" for c in calls_in(n))]
    chk.check(bool(upd), "C02.R3", f, None, "lineage does not include the lineage of every dependency: a change upstream would not change this key", site_text="__add_lineage_to_plugin: lineage of all dependencies merged in")
    # parents of a child plugin
    par = [n for n in walk_body(f.node) if isinstance(n, ast.For) and "__bases__" in norm(n.iter)]
    chk.check(bool(par) and any("version()" in norm(s) for p in par for s in p.body), "C02.R3", f, None, "child plugin lineage does not record the parent's version", site_text="__add_lineage_to_plugin: parent class version recorded for child plugins")


# ------------------------------------------------------------------------------------ R4
def r4_exact_unless_fuzzy(chk, repo):
    chk.describe("C02.R4", "stored data matches only on equal lineage unless fuzzy options are given; the fuzzy filter removes exactly the named data types and options")

    # the key under which a plugin enters lineages is computed the same way where lineages are built
    # and where fuzzy_for data types are translated into lineage keys
    al = repo.func("Context.__add_lineage_to_plugin", CONTEXT)
    fo = repo.func("Context._find_options", CONTEXT)
    def _prov_idx(fn):
        out = []
        for x in walk_body(fn.node):
            if isinstance(x, ast.Subscript) and isinstance(x.value, ast.Attribute) and x.value.attr == "provides" and not isinstance(x.slice, ast.Slice):
                out.append(norm(x.slice))
        return out
    ia, ifo = _prov_idx(al), _prov_idx(fo)
    lin = [st for st in walk_body(al.node) if isinstance(st, ast.Assign) and norm(st.targets[0]).endswith(".lineage") and isinstance(st.value, ast.Dict)]
    chk.check(len(ia) == 1 and len(ifo) == 1 and ia == ifo and bool(lin), "C02.R4", fo, None, f"fuzzy_for data types are translated to lineage keys with provides[{ifo}] while lineages are keyed with provides[{ia}]: for multi-output plugins the fuzzy filter names a key that does not exist, their stored outputs are never recognised and are recomputed on every request",
              site_text="_find_options and __add_lineage_to_plugin agree on the lineage key (provides[-1])", site={"function": fo.qualname, "rule": "lineage key agreement"})
    m = repo.func("StorageFrontend._matches", COMMON)
    cfg = cfg_of(m)
    rets = [n for n in cfg.stmt_nodes() if isinstance(n.stmt, ast.Return)]
    exact = [n for n in rets if norm(n.stmt.value) in ("lineage == desired_lineage", "desired_lineage == lineage")]
    chk.check(bool(exact), "C02.R4", m, None, "no exact `lineage == desired_lineage` comparison", site_text="_matches: exact comparison exists")
    for n in rets:
        facts = cfg.guard_facts(n)
        fuzzy_off = ("fuzzy_for", False) in facts and ("fuzzy_for_options", False) in facts
        if n in exact:
            chk.check(fuzzy_off or not facts, "C02.R4", m, n.stmt, "exact comparison is not what is used when no fuzzy option is given", site_text="_matches: exact branch taken iff no fuzzy option")
        else:
            chk.check(not fuzzy_off and cfg.every_path([cfg.entry], [n], lambda g: g.kind == "guard" and g.test is not None and {"fuzzy_for", "fuzzy_for_options"} <= {x.id for x in ast.walk(g.test) if isinstance(x, ast.Name)}, "n")[0],
                      "C02.R4", m, n.stmt, "lineages can be compared loosely although no fuzzy option was given", site_text="_matches: filtered comparison only under fuzzy options")
            t = norm(n.stmt.value)
            chk.check(t.count("_filter_lineage") == 2 and "==" in t, "C02.R4", m, n.stmt, "fuzzy comparison does not filter both lineages the same way", site_text="_matches: both sides filtered identically")
    fl = repo.func("StorageFrontend._filter_lineage", COMMON)
    comps = [n for n in walk_body(fl.node) if isinstance(n, ast.DictComp)]
    chk.need(len(comps) == 2, "C02.R4: _filter_lineage is no longer two nested dict comprehensions")
    outer = [c for c in comps if any(isinstance(x, ast.DictComp) and x is not c for x in ast.walk(c))][0]
    inner = [c for c in comps if c is not outer][0]
    oc = [norm(c) for g in outer.generators for c in g.ifs]
    ic = [norm(c) for g in inner.generators for c in g.ifs]
    chk.check(oc == [f"{norm(outer.generators[0].target.elts[0])} not in fuzzy_for"], "C02.R4", fl, None, f"data types dropped from the comparison are not exactly those in fuzzy_for ({oc})", site_text="_filter_lineage: drops data types in fuzzy_for only")
    chk.check(ic == [f"{norm(inner.generators[0].target.elts[0])} not in fuzzy_for_options"], "C02.R4", fl, None, f"options dropped from the comparison are not exactly those in fuzzy_for_options ({ic})", site_text="_filter_lineage: drops options in fuzzy_for_options only")
    val = outer.value
    chk.check(isinstance(val, ast.Tuple) and len(val.elts) == 3 and norm(val.elts[0]).endswith("[0]") and norm(val.elts[1]).endswith("[1]"), "C02.R4", fl, None, "plugin name or version is dropped from the fuzzy comparison of the remaining data types", site_text="_filter_lineage: keeps plugin name and version")
    # DataDirectory
    fd = repo.func("DataDirectory._find", FILES)
    fcfg = cfg_of(fd)
    scans = [n for n in fcfg.stmt_nodes() if isinstance(n.stmt, ast.For) and "_subfolders" in norm(n.stmt.iter)]
    chk.floor("C02.R4", "directory scans in DataDirectory._find", len(scans), 1)
    for s in scans:
        facts = fcfg.guard_facts(s)
        chk.check(("fuzzy_for or fuzzy_for_options", True) in facts, "C02.R4", fd, s.stmt, "all data directories are scanned for a loosely matching lineage although no fuzzy option is given", site_text="DataDirectory._find: scan only under fuzzy options")
    fm = repo.func("DataDirectory._folder_matches", FILES)
    mcfg = cfg_of(fm)
    from ..pattern import find as _pf
    parse = _pf(fm.node, "(L_rid, L_dt, L_h) = self._parse_folder_name(fn)")
    chk.check(len(parse) == 1, "C02.R4", fm, None, "folder name is not parsed into run id, data type and hash", site_text="_folder_matches: (run id, data type, hash) = _parse_folder_name(fn)")
    RID, DT, HH = (parse[0][1]["L_rid"], parse[0][1]["L_dt"], parse[0][1]["L_h"]) if parse else ("_run_id", "_data_type", "_hash")
    good = [n for n in mcfg.stmt_nodes() if isinstance(n.stmt, ast.Return) and norm(n.stmt.value) == RID]
    chk.floor("C02.R4", "positive returns in _folder_matches", len(good), 2)
    for n in good:
        facts = mcfg.guard_facts(n)
        chk.check((f"{DT} != key.data_type", False) in facts, "C02.R4", fm, n.stmt, "folder accepted without comparing the data type", site_text="_folder_matches: data type compared")
        if ("fuzzy_for", False) in facts and ("fuzzy_for_options", False) in facts:
            chk.check((f"{HH} == key.lineage_hash", True) in facts, "C02.R4", fm, n.stmt, "folder accepted without comparing the lineage hash", site_text="_folder_matches: exact branch compares the lineage hash")
        else:
            chk.check(any(t.startswith("self._matches(") and p for t, p in facts), "C02.R4", fm, n.stmt, "fuzzy branch accepts a folder without comparing lineages", site_text="_folder_matches: fuzzy branch compares filtered lineages")
    rid = [n for n in mcfg.stmt_nodes() if isinstance(n.stmt, ast.Return) and isinstance(n.stmt.value, ast.Constant) and n.stmt.value.value is False and ((f"{RID} != key._run_id", True) in mcfg.guard_facts(n))]
    chk.check(bool(rid), "C02.R4", fm, None, "folder of another run (or another superrun definition) can match", site_text="_folder_matches: run id (incl. superrun suffix) compared")


def literals_of(facts):
    return facts

# ------------------------------------------------------------------------------------ R6
def r6_config_ownership(chk, repo):
    from ..pattern import pmatch
    chk.describe("C02.R6", "every context owns its configuration: combining configs in update mode returns a fresh dict, set_config rebinds self.config instead of mutating it, and a derived context takes the parent's options first and the given ones on top (nothing re-applies the parent's afterwards)")
    R = "C02.R6"
    cc = repo.func("combine_configs", "strax/config.py")
    cfg = cfg_of(cc)
    OLD, NEW = cc.params[0], cc.params[1]
    rets = [n for n in cfg.stmt_nodes() if isinstance(n.stmt, ast.Return) and n.stmt.value is not None]
    upd = [n for n in rets if (f"mode == 'update'", True) in cfg.guard_facts(n)]
    chk.check(bool(upd), R, cc, None, "combine_configs has no update branch", site_text="combine_configs: mode == 'update' branch")
    d = Defs(cc.node)
    for n in upd:
        v = n.stmt.value
        fresh = False
        if isinstance(v, ast.Name) and v.id not in (OLD, NEW):
            dv = d.single(v.id)
            fresh = dv is not None and isinstance(dv, ast.Call) and norm(dv) in (f"{OLD}.copy()", f"dict({OLD})", f"copy({OLD})", f"deepcopy({OLD})")
        elif isinstance(v, ast.Dict) or (isinstance(v, ast.Call) and call_name(v) == "dict"):
            fresh = True
        chk.check(fresh, R, cc, n.stmt, f"`{norm(n.stmt)}` in update mode hands back one of its arguments instead of a fresh dict: two contexts then share one configuration object, and set_config on one changes the lineage and keys of the other", site_text="combine_configs: update mode returns a copy", site={"function": cc.qualname, "return": norm(v)[:40]})
    sc = repo.func("Context.set_config", CONTEXT)
    mut = [st for st in walk_body(sc.node) if (isinstance(st, ast.Expr) and isinstance(st.value, ast.Call) and isinstance(st.value.func, ast.Attribute) and norm(st.value.func.value) == "self.config" and st.value.func.attr in ("update", "setdefault", "pop", "clear", "__setitem__")) or (isinstance(st, (ast.Assign, ast.AugAssign)) and any(isinstance(t, ast.Subscript) and norm(t.value) == "self.config" for t in (st.targets if isinstance(st, ast.Assign) else [st.target])))]
    chk.check(not mut, R, sc, mut[0] if mut else None, "set_config mutates self.config in place: a configuration object that is shared (e.g. with the context this one was derived from) changes under the other context", site_text="Context.set_config: self.config is rebound, never mutated")
    reb = [st for st in walk_body(sc.node) if isinstance(st, ast.Assign) and norm(st.targets[0]) == "self.config" and isinstance(st.value, ast.Call) and (call_name(st.value) or "").endswith("combine_configs")]
    chk.check(len(reb) == 1, R, sc, None, "set_config does not rebuild the configuration with combine_configs", site_text="Context.set_config: self.config = combine_configs(...)")
    nc = repo.func("Context.new_context", CONTEXT)
    ncfg = cfg_of(nc)
    cons = [c for c in calls_in(nc.node) if call_name(c) == "Context"]
    chk.check(len(cons) == 1, R, nc, None, "new_context does not build exactly one Context", site_text="new_context: Context(...)")
    if len(cons) == 1:
        CFGP = "config"
        merges = [st for st in walk_body(nc.node) if isinstance(st, ast.Assign) and norm(st.targets[0]) == CFGP and isinstance(st.value, ast.Call) and (call_name(st.value) or "").endswith("combine_configs")]
        okm = len(merges) == 1 and len(merges[0].value.args) >= 2 and norm(merges[0].value.args[0]) == "self.config" and norm(merges[0].value.args[1]) == CFGP and norm(kw(merges[0].value, "mode") or ast.Constant(value="update")) == "'update'"
        okm = okm and kw(cons[0], "config") is not None and norm(kw(cons[0], "config")) == CFGP and ("replace", False) in ncfg.guard_facts(ncfg.node_of(merges[0])) if merges else False
        chk.check(okm, R, nc, merges[0] if merges else stmt_of(cons[0]), "a derived context is not built from `parent options updated with the given options`: the given options lose against the parent's, and the derived context reads the parent's stored data under the parent's key", site_text="new_context: config = combine_configs(self.config, config, mode='update') unless replace", site={"function": nc.qualname, "rule": "given options win"})
        child0 = stmt_of(cons[0]).targets[0].id if isinstance(stmt_of(cons[0]), ast.Assign) and isinstance(stmt_of(cons[0]).targets[0], ast.Name) else None
        regs = [st for st in walk_body(nc.node) if isinstance(st, ast.Assign) and child0 and norm(st.targets[0]) == f"{child0}._plugin_class_registry"]
        chk.check(len(regs) == 1 and norm(regs[0].value) in ("self._plugin_class_registry.copy()", "dict(self._plugin_class_registry)") and ("replace", False) in ncfg.guard_facts(ncfg.node_of(regs[0])) and enclosing(regs[0], (ast.If,)) is not None and len([g for g in ncfg.dominating_guards(ncfg.node_of(regs[0])) if g.test is not None]) == 1, R, nc, regs[0] if regs else None,
                  "the derived context does not get its own copy of the plugin registry (unconditionally, unless replace): registrations and clean-ups of temporary plugins in one context then change the other - with several workers one worker's clean-up removes the plugin another has just registered", site_text="new_context: child registry = parent registry .copy()", site={"function": nc.qualname, "rule": "registry copied"})
        child = stmt_of(cons[0]).targets[0].id if isinstance(stmt_of(cons[0]), ast.Assign) and isinstance(stmt_of(cons[0]).targets[0], ast.Name) else None
        late = [c for c in calls_in(nc.node) if child and isinstance(c.func, ast.Attribute) and norm(c.func.value) == child and c.func.attr in ("set_config",) and any("self.config" in norm(a) for a in list(c.args) + [k.value for k in c.keywords])]
        chk.check(not late, R, nc, stmt_of(late[0]) if late else None, "the parent's options are applied to the derived context after it was built: they override what was passed to new_context", site_text="new_context: parent's options are not re-applied on top")


WITNESSES = [
    W("derived context shares the parent's registry", "C02.R6", CONTEXT,
      "new_c._plugin_class_registry = self._plugin_class_registry.copy()", "new_c._plugin_class_registry = self._plugin_class_registry"),
    W("a second hash-keyed memo that register() forgets", "C02.R1", CONTEXT,
      "self._fixed_plugin_cache = None\n                self._fixed_level_cache = None", "self._fixed_plugin_cache = None"),
    W("combine_configs returns the old dict when nothing is added", "C02.R6", "strax/config.py",
      "if mode == \"update\":\n        c = old_config.copy()", "if mode == \"update\":\n        if not new_config:\n            return old_config\n        c = old_config.copy()"),
    W("set_config updates in place", "C02.R6", CONTEXT,
      "self.config = strax.combine_configs(old_config=self.config, new_config=config, mode=mode)", "self.config.update(config or dict())"),
    W("parent options re-applied on the derived context", "C02.R6", CONTEXT,
      "new_c._plugin_class_registry = self._plugin_class_registry.copy()\n", "new_c._plugin_class_registry = self._plugin_class_registry.copy()\n            new_c.set_config(self.config)\n"),
    W("given options lose against the parent's", "C02.R6", CONTEXT,
      "config = strax.combine_configs(self.config, config, mode=\"update\")", "config = strax.combine_configs(config, self.config, mode=\"update\")"),
    W("fuzzy_for mapped to the first provided type", "C02.R4", CONTEXT,
      "last_provides.append(self._plugin_class_registry[key].provides[-1])", "last_provides.append(self._plugin_class_registry[key].provides[0])"),
    W("drop version() from the context hash", "C02.R1", CONTEXT,
      "data_type: (plugin.version(), plugin.compressor, plugin.input_timeout)", "data_type: (plugin.compressor, plugin.input_timeout)"),
    W("context hash ignores the config", "C02.R1", CONTEXT,
      "_base_hash_on_config = deepcopy(self.config)", "_base_hash_on_config = dict()"),
    W("re-registration does not invalidate the cache (the original defect)", "C02.R1", CONTEXT,
      "# Plugins (and levels) cached for the replaced class are stale now\n                self._fixed_plugin_cache = None\n                self._fixed_level_cache = None\n", ""),
    W("new unguarded registry writer", "C02.R1", CONTEXT,
      "def purge_unused_configs(self):\n        \"\"\"Purge unused configs from the context.\"\"\"",
      "def purge_unused_configs(self, alias=None, cls=None):\n        \"\"\"Purge unused configs from the context.\"\"\"\n        if alias:\n            self._plugin_class_registry[alias] = cls"),
    W("cache read under a stale key", "C02.R1", CONTEXT,
      "cached_plugins = self._fixed_plugin_cache[self._context_hash()]  # type: ignore",
      "cached_plugins = list(self._fixed_plugin_cache.values())[0]\n        cached_plugins = self._fixed_plugin_cache[list(self._fixed_plugin_cache)[0]]"),
    W("cache used under per-run defaults", "C02.R1", CONTEXT,
      "if self.context_config[\"use_per_run_defaults\"] or self._fixed_plugin_cache is None:", "if self._fixed_plugin_cache is None:"),
    W("digest from builtin hash", "C02.R2", UTILS,
      "digest = sha1(jsonned.encode(\"ascii\")).digest()", "digest = str(hash(jsonned)).encode(\"ascii\") * 4"),
    W("dict items unsorted", "C02.R2", UTILS,
      "return tuple((k, hashablize(v)) for (k, v) in sorted(obj.items()))", "return tuple((k, hashablize(v)) for (k, v) in obj.items())"),
    W("set branch removed (the original defect)", "C02.R2", UTILS,
      "if isinstance(obj, (set, frozenset)):\n        # Sets have no order of their own (and str hashes differ per process)\n        return tuple(sorted((hashablize(o) for o in obj), key=repr))\n", ""),
    W("auto version falls back to str(obj) (the original defect)", "C02.R2", PLUGIN,
      "return type(obj).__name__", "return str(obj)"),
    W("lineage hash set independently of the lineage", "C02.R2", COMMON,
      "self.subruns = subruns\n        self.combining = combining", "self.subruns = subruns\n        self.combining = combining\n        self._lineage_hash = strax.deterministic_hash(data_type)"),
    W("child branch ignores track", "C02.R3", CONTEXT,
      "if plugin.takes_config[option_name].track:\n                    # Add all options which should be tracked:\n                    configs[option_name] = v",
      "if True:\n                    configs[option_name] = v"),
    W("ordinary branch ignores track", "C02.R3", CONTEXT,
      "for option, setting in plugin.config.items()\n                if plugin.takes_config[option].track\n            }", "for option, setting in plugin.config.items()\n            }"),
    W("version dropped from the lineage", "C02.R3", CONTEXT,
      "(plugin.__class__.__name__, plugin.version(), configs)", "(plugin.__class__.__name__, \"0\", configs)"),
    W("dependency lineage not merged", "C02.R3", CONTEXT,
      "for d_depends in plugin.depends_on:\n            plugin.lineage.update(plugin.deps[d_depends].lineage)", "pass"),
    W("_matches always filters", "C02.R4", COMMON,
      "if not (fuzzy_for or fuzzy_for_options):\n            return lineage == desired_lineage\n        args", "args"),
    W("fuzzy filter drops versions", "C02.R4", COMMON,
      "data_type: (\n                v[0],\n                v[1],\n                {", "data_type: (\n                v[0],\n                None,\n                {"),
    W("exact branch ignores the hash", "C02.R4", FILES,
      "if _hash == key.lineage_hash:\n                return _run_id\n            return False", "return _run_id"),
    W("directory scan without fuzzy options", "C02.R4", FILES,
      "if fuzzy_for or fuzzy_for_options:\n            for fn in self._subfolders():", "if True:\n            for fn in self._subfolders():"),
    W("fuzzy no-save guard deleted", "C02.R5", CONTEXT,
      "if any([len(v) > 0 for k, v in self._find_options.items() if \"fuzzy\" in k]):\n                # In fuzzy matching mode, we cannot (yet) derive the\n                # lineage of any data we are creating. To avoid creating\n                # false data entries, we currently do not save at all.\n                self.log.warning(f\"Not saving {target_i} while fuzzy matching is turned on.\")\n                return",
      "pass"),
]
