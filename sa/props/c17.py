"""C17 - interval primitives agree with their set-theoretic definitions.

Decided statically: every public wrapper verifies the sortedness preconditions of both inputs (with
failures turned into ValueError) before it reaches its kernel; all sorting in the package is
stable; the comparison predicates of the containment and touching-window kernels equal their
definitions on every weak ordering.  Not decided: the loop logic of the kernels and numeric
agreement with the quadratic definitions.
"""

import ast

from ..cfg import cfg_of, literals
from ..dataflow import Defs, calls_in, stmt_of
from ..index import AnalysisError, call_name, dotted, enclosing, head, norm, walk_body
from ..ordering import compare_predicates, describe, evaluate, parse_pred, weak_orderings
from ..rules import COMPOUND, kw, node_calls, own_calls
from ..witness import W

GENERAL = "strax/processing/general.py"
SORT = "strax/sort_enforcement.py"

EXPLANATION = (
    "R1 must-pass-through: for fully_contained_in, split_by_containment, touching_windows, "
    "split_touching_windows and abs_time_to_prev_next_interval every path from entry to a kernel "
    "call passes, for both array arguments, a try-block calling _check_time_is_sorted(<arg>['time']) "
    "whose handler raises ValueError - directly, or through a helper / wrapper that does so on all of "
    "its paths. R2 whole-package sweep: np.sort / np.argsort / .argsort( / key-less .sort( only "
    "inside sort_enforcement.py with a literal kind='mergesort', whose wrappers raise for any other "
    "kind. R3 ordering enumeration: the containment test of _fc_in equals `cs <= ts and te <= ce`, "
    "its skip-ahead test implies non-containment for positive-length things, and the two scan "
    "conditions of _touching_windows equal `not (lo < te)` and `ts < hi`."
)
RULE_TEXT = "one obligation per (wrapper, argument), per sort call site, per predicate (exhaustive over weak orderings)"
ASSUMPTIONS = ["numpy's mergesort is stable", "things have positive duration in the skip-ahead implication (zero-length things at a container's end are outside the decided scope)"]

WRAPPERS = {
    "fully_contained_in": ("things", "containers"),
    "split_by_containment": ("things", "containers"),
    "touching_windows": ("things", "containers"),
    "split_touching_windows": ("things", "containers"),
    "abs_time_to_prev_next_interval": ("things", "intervals"),
}


def run(chk):
    repo = chk.repo
    r1_preconditions(chk, repo)
    r2_stable_sorting(chk, repo)
    r2b_sort_key(chk, repo)
    r3_predicates(chk, repo)
    r4_break(chk, repo)
    r5_inputs_untouched(chk, repo)
    from .c18 import r7_stale_locals
    r7_stale_locals(chk, repo, "C17.R6", [GENERAL])
    from ..rules import dropped_parameters
    dropped_parameters(chk, repo, "C17.R7", [GENERAL])


def _sorted_check_try(node, pname):
    """CFG stmt node: try: _check_time_is_sorted(<pname>['time']) except ...: raise ValueError"""
    return None


def checked_params(repo, f, depth=3, _memo=None):
    """{param: set of CFG nodes that establish sortedness of param['time']} for function f, where
    every such node raises ValueError on failure."""
    _memo = _memo if _memo is not None else {}
    if f.qualname in _memo:
        return _memo[f.qualname]
    _memo[f.qualname] = {}
    cfg = cfg_of(f)
    out = {}
    for n in walk_body(f.node):
        if isinstance(n, ast.Try):
            calls = [c for s in n.body for c in calls_in(s) if call_name(c) == "_check_time_is_sorted"]
            raises_ve = any(isinstance(x, ast.Raise) and "ValueError" in norm(x.exc) for h in n.handlers for s in h.body for x in ast.walk(s))
            if calls and raises_ve:
                for c in calls:
                    a = c.args[0]
                    if isinstance(a, ast.Subscript) and isinstance(a.value, ast.Name) and norm(a.slice) == "'time'" and a.value.id in f.params:
                        # the node that represents this try = first statement of its body
                        for cn in cfg.nodes_of(n.body[0]):
                            out.setdefault(a.value.id, set()).add(cn)
    if depth > 0:
        mod = f.module
        for n in cfg.stmt_nodes():
            if isinstance(n.stmt, COMPOUND):
                continue
            for c in own_calls(n.stmt):
                nm = call_name(c) or ""
                g = mod.functions.get(nm)
                if g is None or g is f or g.cls is not None:
                    continue
                sub = checked_params(repo, g, depth - 1, _memo)
                gcfg = cfg_of(g)
                for gp, gnodes in sub.items():
                    # callee establishes it on every path to its normal exit?
                    ok, _ = gcfg.every_path([gcfg.entry], [gcfg.exit_return], lambda x: x in gnodes, "n")
                    if not ok:
                        continue
                    params = g.params
                    if gp in params:
                        i = params.index(gp)
                        if i < len(c.args) and isinstance(c.args[i], ast.Name) and c.args[i].id in f.params:
                            out.setdefault(c.args[i].id, set()).add(n)
    _memo[f.qualname] = out
    return out


def r1_preconditions(chk, repo):
    chk.describe("C17.R1", "public interval primitives reject unsorted input (ValueError) before any kernel runs")
    mod = repo.module(GENERAL)
    njit = {q for q, f in mod.functions.items() if f.cls is None and f.parent_func is None and any("njit" in norm(d) for d in f.node.decorator_list)}
    kernels = {q for q in njit if q.startswith("_") and not q.startswith("_check_")}
    chk.note("kernels", sorted(kernels))
    n = 0
    for w, params in WRAPPERS.items():
        f = repo.func(w, GENERAL)
        cfg = cfg_of(f)
        cp = checked_params(repo, f)
        kc = [x for x in cfg.stmt_nodes() if not isinstance(x.stmt, COMPOUND) and node_calls(x, lambda c, nm: nm in kernels)]
        chk.check(bool(kc), "C17.R1", f, None, "wrapper no longer calls a kernel (anchor moved)", site_text=f"{w}: kernel call found", nontrivial=False)
        for p in params:
            n += 1
            nodes = cp.get(p, set())
            ok = bool(nodes) and bool(kc)
            for k in kc:
                okp, _ = cfg.every_path([cfg.entry], [k], lambda x: x in nodes, "n")
                ok = ok and okp
            chk.check(ok, "C17.R1", f, None, f"{w} can reach its kernel without having verified that `{p}` is sorted by time (unsorted input is then answered wrongly instead of rejected)",
                      site_text=f"{w}: `{p}['time']` sortedness checked (ValueError) on every path to the kernel", site={"function": w, "argument": p})
    chk.floor("C17.R1", "(wrapper, argument) obligations", n, 10)
    # the check itself
    cs = repo.func("_check_time_is_sorted", GENERAL)
    has_assert = any(isinstance(x, ast.Assert) for x in walk_body(cs.node))
    cmps = [x for x in walk_body(cs.node) if isinstance(x, ast.Compare) and isinstance(x.ops[0], (ast.GtE, ast.LtE)) and cs.params[0] in {y.id for y in ast.walk(x) if isinstance(y, ast.Name)}]
    chk.check(has_assert and bool(cmps), "C17.R1", cs, None, "_check_time_is_sorted no longer asserts non-decreasing times", site_text="_check_time_is_sorted: assert all(diff >= 0)")
    # direct kernel calls from other modules: evidence only
    ext = []
    for m in repo.modules.values():
        if m.relpath == GENERAL:
            continue
        for fn in m.functions.values():
            for c in calls_in(fn.node):
                nm = (call_name(c) or "").split(".")[-1]
                if nm in kernels:
                    ext.append(f"{fn.qualname}: {nm}")
    chk.note("direct_kernel_calls_elsewhere", sorted(set(ext)))


def r2_stable_sorting(chk, repo):
    chk.describe("C17.R2", "all numpy sorting goes through the stable wrappers; the wrappers refuse any kind but mergesort")
    n = 0
    for m in repo.modules.values():
        for f in m.functions.values():
            for c in calls_in(f.node):
                nm = call_name(c) or ""
                last = nm.split(".")[-1]
                is_np = nm in ("np.sort", "np.argsort", "numpy.sort", "numpy.argsort", "np.lexsort", "np.partition", "np.argpartition")
                is_meth = isinstance(c.func, ast.Attribute) and c.func.attr in ("argsort",) and not nm.startswith("np.")
                is_sort_meth = isinstance(c.func, ast.Attribute) and c.func.attr == "sort" and not nm.startswith("np.") and kw(c, "key") is None
                if not (is_np or is_meth or is_sort_meth):
                    continue
                n += 1
                if m.relpath == SORT:
                    k = kw(c, "kind")
                    chk.check(isinstance(k, ast.Constant) and k.value == "mergesort", "C17.R2", f, stmt_of(c), "sort wrapper does not force kind='mergesort'", site_text=f"{f.qualname}: {nm}(kind='mergesort')", site={"function": f.qualname, "construct": nm})
                else:
                    chk.fail("C17.R2", f, stmt_of(c), f"`{nm or last}` sorts without going through strax.stable_sort / stable_argsort: the order of equal keys (and with it results) depends on numpy's default algorithm",
                             site={"function": f.qualname, "construct": head(stmt_of(c), 100)})
    chk.floor("C17.R2", "numpy sort call sites", n, 2)
    for q in ("stable_sort", "stable_argsort"):
        f = repo.func(q, SORT)
        cfg = cfg_of(f)
        chk.check(any(isinstance(x.stmt, ast.Raise) and ("kind != 'mergesort'", True) in cfg.guard_facts(x) for x in cfg.stmt_nodes()), "C17.R2", f, None, f"{q} accepts unstable sort kinds", site_text=f"{q}: raise unless kind == 'mergesort'", site={"function": q, "construct": "kind guard"})
    # callers of the wrappers must not request another kind
    for m in repo.modules.values():
        for f in m.functions.values():
            for c in calls_in(f.node):
                if (call_name(c) or "").split(".")[-1] in ("stable_sort", "stable_argsort"):
                    k = kw(c, "kind")
                    if k is None:
                        continue
                    ok = (isinstance(k, ast.Constant) and k.value == "mergesort")
                    if isinstance(k, ast.Name) and k.id in f.params:
                        a = f.node.args
                        names = [x.arg for x in a.args + a.kwonlyargs]
                        defaults = dict(zip([x.arg for x in a.args][len(a.args) - len(a.defaults):], a.defaults))
                        defaults.update({x.arg: d for x, d in zip(a.kwonlyargs, a.kw_defaults) if d is not None})
                        d = defaults.get(k.id)
                        ok = isinstance(d, ast.Constant) and d.value == "mergesort"
                    chk.check(ok, "C17.R2", f, stmt_of(c), "stable sort wrapper called with a kind that is not mergesort", site_text=f"{f.qualname}: kind is mergesort", nontrivial=False)
    sb = repo.func("sort_by_time", GENERAL)
    raw = [c for c in calls_in(sb.node) if (call_name(c) or "") in ("np.sort", "np.argsort")]
    chk.check(not raw and any((call_name(c) or "") in ("stable_sort", "_sort_by_time_and_channel") for c in calls_in(sb.node)), "C17.R2", sb, None, "sort_by_time does not use the stable sorts", site_text="sort_by_time: stable_sort / stable key sort")


def fixtures():
    """The sweep's expected count outside sort_enforcement.py is zero: keep a positive example."""
    src = "import numpy as np\n\ndef f(x):\n    return x[np.argsort(x['time'])]\n"
    tree = ast.parse(src)
    hits = [c for c in ast.walk(tree) if isinstance(c, ast.Call) and (call_name(c) or "") in ("np.sort", "np.argsort")]
    return [{"fixture": "np.argsort outside sort_enforcement", "rule": "C17.R2", "fired": len(hits) == 1}]


def r2b_sort_key(chk, repo):
    """The composite key time * radix + channel orders by (time, channel) only if radix exceeds every
    value of the very array that is added: the radix is `<that array>.max() + 1`."""
    f = repo.func("sort_by_time", GENERAL)
    d = Defs(f.node)
    calls = [c for c in calls_in(f.node) if (call_name(c) or "").endswith("_sort_by_time_and_channel") and len(c.args) >= 3]
    chk.check(len(calls) == 1, "C17.R2", f, None, "sort_by_time no longer calls the single-key sort at one place", site_text="sort_by_time: _sort_by_time_and_channel(x, channel, radix)")
    for c in calls:
        arr, radix = c.args[1], c.args[2]
        rv = d.single(radix.id) if isinstance(radix, ast.Name) else radix
        ok = rv is not None and norm(rv).replace(" ", "") in (f"{norm(arr)}.max()+1", f"np.max({norm(arr)})+1", f"1+{norm(arr)}.max()")
        chk.check(ok, "C17.R2", f, stmt_of(c), f"the radix of the composite sort key is `{norm(rv) if rv is not None else norm(radix)}`, not `{norm(arr)}.max() + 1` of the array that is added to it: keys of neighbouring times can collide and the result is not sorted by time", site_text="sort_by_time: radix = channel.max() + 1 of the shifted channel array", site={"function": f.qualname, "rule": "sort key radix"})
    k = repo.func("_sort_by_time_and_channel", GENERAL)
    keys = [st for st in walk_body(k.node) if isinstance(st, ast.Assign) and isinstance(st.value, ast.BinOp) and isinstance(st.value.op, ast.Add) and isinstance(st.value.left, ast.BinOp) and isinstance(st.value.left.op, ast.Mult)]
    okk = False
    for st in keys:
        l, r_ = st.value.left, st.value.right
        fac = [norm(x) for x in (l.left, l.right)]
        okk = okk or (norm(r_) == k.params[1] and k.params[2] in fac and any("['time']" in t for t in fac))
    chk.check(okk, "C17.R2", k, keys[0] if keys else None, "the sort key is not (time - min time) * radix + channel", site_text="_sort_by_time_and_channel: key = time * radix + channel")


def r3_predicates(chk, repo):
    chk.describe("C17.R3", "comparison predicates of the containment and touching-window kernels equal their definitions on every weak ordering")
    f = repo.func("_fc_in", GENERAL)
    ifs = [n for n in walk_body(f.node) if isinstance(n, ast.If) and any(isinstance(x, ast.Assign) and "result[" in norm(x.targets[0]) for x in n.body)]
    chk.need(len(ifs) == 1, "C17.R3: containment test of _fc_in not found")
    roles = dict(zip(f.params[:4], ["ts", "cs", "te", "ce"]))  # (a_starts, b_starts, a_ends, b_ends)
    symmap = {}
    for x in walk_body(f.node):
        if isinstance(x, ast.Subscript) and isinstance(x.value, ast.Name) and x.value.id in roles and isinstance(x.slice, ast.Name):
            symmap[norm(x)] = roles[x.value.id]
    syms = ["ts", "te", "cs", "ce"]
    ident = {s: s for s in syms}
    try:
        n_ord, bad = compare_predicates(syms, parse_pred("ts <= te and cs <= ce"), ifs[0].test, parse_pred("cs <= ts and te <= ce"), symmap, ident)
    except AnalysisError as ex:
        chk.fail("C17.R3", f, ifs[0], f"containment test is no longer comparison-only: {ex}")
        return
    chk.check(not bad, "C17.R3", f, ifs[0], "containment test differs from `container start <= thing start and thing end <= container end`" + (f", e.g. for {describe(bad[0][0])}" if bad else ""),
              site_text=f"_fc_in: containment test equals its definition on {n_ord} orderings", site={"function": f.qualname, "construct": "containment"})
    wl = [n for n in walk_body(f.node) if isinstance(n, ast.While)]
    chk.need(len(wl) == 1, "C17.R3: skip-ahead loop of _fc_in not found")
    conj = wl[0].test.values if isinstance(wl[0].test, ast.BoolOp) else [wl[0].test]
    skip = [c for c in conj if isinstance(c, ast.Compare) and "b_ends" in norm(c)]
    chk.need(len(skip) == 1, "C17.R3: skip-ahead comparison not found")
    n2, bad2 = compare_predicates(syms, parse_pred("ts < te and cs <= ce"), skip[0], parse_pred("not (cs <= ts and te <= ce)"), symmap, ident, mode="implies")
    chk.check(not bad2, "C17.R3", f, wl[0], "skip-ahead passes over a container that contains the thing" + (f", e.g. for {describe(bad2[0][0])}" if bad2 else ""), site_text=f"_fc_in: skip-ahead implies non-containment on {n2} orderings", site={"function": f.qualname, "construct": "skip-ahead"})
    n3, bad3 = compare_predicates(syms, None, skip[0], parse_pred("ce <= ts"), symmap, ident)
    chk.check(not bad3, "C17.R3", f, wl[0], "skip-ahead is not `container ends at or before the thing starts`", site_text="_fc_in: skip iff container end <= thing start", site={"function": f.qualname, "construct": "skip-ahead exact"})
    chk.exhaustive = True
    tw = repo.func("_touching_windows", GENERAL)
    loops = [n for n in walk_body(tw.node) if isinstance(n, ast.While)]
    chk.need(len(loops) == 2, "C17.R3: the two scan loops of _touching_windows not found")
    left = [l for l in loops if "left_i" in norm(l.test)][0]
    right = [l for l in loops if "right_i" in norm(l.test)][0]
    lc = [c for c in left.test.values if isinstance(c, ast.Compare) and "thing_end" in norm(c)][0]
    rc = [c for c in right.test.values if isinstance(c, ast.Compare) and "thing_start" in norm(c)][0]
    def _sm(cmp_, arr, sym, other):
        m = {}
        for side in (cmp_.left, cmp_.comparators[0]):
            if isinstance(side, ast.Subscript) and norm(side.value) == arr:
                m[norm(side)] = sym
            else:
                m[norm(side)] = other
        return m
    nl, bl = compare_predicates(["te", "lo"], None, lc, parse_pred("not (lo < te)"), _sm(lc, "thing_end", "te", "lo"), {"te": "te", "lo": "lo"})
    nr, br = compare_predicates(["ts", "hi"], None, rc, parse_pred("ts < hi"), _sm(rc, "thing_start", "ts", "hi"), {"ts": "ts", "hi": "hi"})
    lo_side = [x for x in (lc.left, lc.comparators[0]) if not (isinstance(x, ast.Subscript) and norm(x.value) == "thing_end")]
    hi_side = [x for x in (rc.left, rc.comparators[0]) if not (isinstance(x, ast.Subscript) and norm(x.value) == "thing_start")]
    from ..pattern import pmatch as _pm
    chk.check(bool(lo_side) and _pm("L_t0 - window", lo_side[0]) is not None and bool(hi_side) and _pm("L_t1 + window", hi_side[0]) is not None, "C17.R3", tw, None, "window is not subtracted from the container start / added to the container end", site_text="_touching_windows: bounds are (t0 - window, t1 + window)")
    chk.check(not bl, "C17.R3", tw, left, "left scan does not skip exactly the things ending at or before (container start - window)", site_text="_touching_windows: skip while thing_end <= t0 - window", site={"function": tw.qualname, "construct": "left scan"})
    chk.check(not br, "C17.R3", tw, right, "right scan does not include exactly the things starting before (container end + window)", site_text="_touching_windows: advance while thing_start < t1 + window", site={"function": tw.qualname, "construct": "right scan"})
    from ..pattern import find as _pf
    LI = next((x.id for x in ast.walk(lc) if isinstance(x, ast.Name) and isinstance(getattr(x, "_parent", None), ast.Subscript) and x._parent.slice is x and norm(x._parent.value) == "thing_end"), None)
    RI = next((x.id for x in ast.walk(rc) if isinstance(x, ast.Name) and isinstance(getattr(x, "_parent", None), ast.Subscript) and x._parent.slice is x and norm(x._parent.value) == "thing_start"), None)
    s0 = [(n, b) for n, b in _pf(tw.node, f"L_res[L_i, 0] = {LI}")] if LI else []
    s1 = [(n, b) for n, b in _pf(tw.node, f"L_res[L_i, 1] = {RI}")] if RI else []
    okst = len(s0) == 1 and len(s1) == 1 and enclosing(s0[0][0], (ast.For,)) is enclosing(left, (ast.For,)) and enclosing(s1[0][0], (ast.For,)) is enclosing(right, (ast.For,)) and not any(x is s0[0][0] for x in ast.walk(left)) and not any(x is s1[0][0] for x in ast.walk(right))
    chk.check(okst, "C17.R3", tw, None, "window bounds are not (first touching, one past last touching), stored after each scan", site_text="_touching_windows: result[i] = (left index, right index) after the scans")
    rloop = enclosing(right, (ast.For,))
    okord = False
    if rloop is not None and isinstance(rloop.iter, ast.Name):
        srt = _pf(tw.node, f"{rloop.iter.id} = stable_argsort(container_end, **___)")
        t1 = [n for n, b in _pf(tw.node, f"L_t1 = container_end[{norm(rloop.target)}]")]
        okord = bool(srt) and bool(t1)
    chk.check(okord, "C17.R3", tw, None, "right bounds are not scanned in order of container end", site_text="_touching_windows: right scan in order of sorted container ends")

# ------------------------------------------------------------------------------------ R4
def r4_break(chk, repo):
    from ..linear import linear
    from ..rules import endtime_accumulators
    chk.describe("C17.R4", "_find_break_i returns the first index whose start lies at least safe_break after the running maximum of the earlier end times (a gap of exactly safe_break is a break)")
    R = "C17.R4"
    f = repo.func("_find_break_i", GENERAL)
    acc = endtime_accumulators(f)
    chk.check(bool(acc) and all(ok for _l, _st, ok in acc), R, f, acc[0][1] if acc else None, "the latest end seen is not accumulated with max(): a long early row is forgotten and a break is reported inside it", site_text="_find_break_i: latest end = max(latest end, end of row)")
    L = acc[0][0] if acc else None
    loops = [n for n in walk_body(f.node) if isinstance(n, ast.For)]
    chk.need(len(loops) == 1, "C17.R4: the sweep loop of _find_break_i was not found")
    lp = loops[0]
    idx = item = None
    if isinstance(lp.target, ast.Tuple) and len(lp.target.elts) == 2 and call_name(lp.iter) == "enumerate":
        idx, item = norm(lp.target.elts[0]), norm(lp.target.elts[1])
    tests = [st for st in lp.body if isinstance(st, ast.If) and any(isinstance(x, ast.Return) and x.value is not None and norm(x.value) == idx for x in st.body)]
    chk.check(len(tests) == 1 and isinstance(tests[0].test, ast.Compare) and len(tests[0].test.ops) == 1, R, f, lp, "the loop does not return the index at a single comparison", site_text="_find_break_i: if <gap test>: return i")
    if len(tests) == 1 and isinstance(tests[0].test, ast.Compare) and len(tests[0].test.ops) == 1:
        c = tests[0].test
        op = c.ops[0]
        a, b = c.left, c.comparators[0]
        if isinstance(op, (ast.Lt, ast.LtE)):
            a, b = b, a
        strict = isinstance(op, (ast.Lt, ast.Gt))
        okf = isinstance(op, (ast.Lt, ast.LtE, ast.Gt, ast.GtE))
        form = {}
        if okf:
            try:
                form = linear(ast.BinOp(left=a, op=ast.Sub(), right=b))
            except AnalysisError:
                okf = False
        const = form.pop("1", 0) if form else 0
        want = {f"{item}['time']": 1, L: -1, f.params[1]: -1}
        chk.check(okf and form == want and const == 0 and not strict, R, f, tests[0], f"the break test is not `start - latest end - safe_break >= 0` (found {form}, constant {const}, {'strict' if strict else 'non-strict'}): gaps of exactly safe_break are missed or too-small gaps accepted",
                  site_text="_find_break_i: row start >= latest end + safe_break", site={"function": f.qualname, "rule": "break predicate"})
        # the accumulator is updated after the test, once per row
        if acc:
            ups = [st for _l, st, _ok in acc]
            chk.check(all(st in lp.body and lp.body.index(st) > lp.body.index(tests[0]) for st in ups), R, f, ups[0], "the latest end is updated with the current row before the gap to it is tested (the gap would always be measured against the row itself)", site_text="_find_break_i: test before update")
    init = [st for st in f.node.body if isinstance(st, ast.Assign) and L and norm(st.targets[0]) == L]
    chk.check(bool(init) and f.params[2] in norm(init[0].value) and "endtime" in norm(init[0].value) and norm(init[0].value).startswith("max("), R, f, init[0] if init else None, "the sweep does not start from max(not_before, end of the first row)", site_text="_find_break_i: latest end starts at max(not_before, first end)")
    fb = repo.func("from_break", GENERAL)
    ok = any(isinstance(st, ast.Assign) and isinstance(st.value, ast.Call) and call_name(st.value) == "_find_break_i" for st in walk_body(fb.node))
    chk.check(ok, R, fb, None, "from_break does not use _find_break_i", site_text="from_break: break index from _find_break_i", nontrivial=False)

# ------------------------------------------------------------------------------------ R5
def r5_inputs_untouched(chk, repo):
    chk.describe("C17.R5", "the public interval functions do not write into the arrays they are given (neither directly nor through a view such as x['channel'] taken without .copy())")
    R = "C17.R5"
    n = 0
    for f in repo.module(GENERAL).functions.values():
        if f.parent_func is not None or f.name.startswith("_"):
            continue
        params = {p for p in f.params if p not in ("result", "_result_buffer", "result_dtype")}
        views = {}
        for st in walk_body(f.node):
            if isinstance(st, ast.Assign) and len(st.targets) == 1 and isinstance(st.targets[0], ast.Name):
                v = st.value
                root = v
                while isinstance(root, (ast.Subscript, ast.Attribute)):
                    root = root.value
                if isinstance(v, (ast.Subscript, ast.Attribute, ast.Name)) and isinstance(root, ast.Name) and (root.id in params or root.id in views) and v is not root:
                    views[st.targets[0].id] = st
                elif isinstance(v, ast.Name) and v.id in params:
                    views[st.targets[0].id] = st
        for st in walk_body(f.node):
            tg = None
            if isinstance(st, ast.AugAssign):
                tg = st.target
            elif isinstance(st, ast.Assign) and isinstance(st.targets[0], ast.Subscript):
                tg = st.targets[0]
            if tg is None:
                continue
            root = tg
            while isinstance(root, (ast.Subscript, ast.Attribute)):
                root = root.value
            if not isinstance(root, ast.Name):
                continue
            direct = root.id in params and root is not tg
            through_view = False
            if root.id in views:
                from ..rules import reaching
                cfgf = cfg_of(f)
                nd = cfgf.node_of(st)
                through_view = any(d[2] is views[root.id] for d in reaching(f).defs_of(nd, root.id))
            if direct or through_view:
                n += 1
                chk.fail(R, f, st, f"`{head(st, 70)}` writes into the caller's array" + (f" (`{root.id}` is a view: `{head(views[root.id], 50)}`)" if through_view and not direct else ""), site={"function": f.qualname, "target": norm(tg)[:50]})
        chk.ok(R, f"{f.qualname}: inputs are not written")


WITNESSES = [
    W("sort key radix from the unshifted channels", "C17.R2", GENERAL,
      "x = _sort_by_time_and_channel(x, channel, channel.max() + 1)", "x = _sort_by_time_and_channel(x, channel, np.abs(x[\"channel\"]).max() + 1)"),
    W("split_touching_windows ignores its window", "C17.R7", GENERAL,
      "windows = touching_windows(things, containers, window)", "windows = touching_windows(things, containers)"),
    W("sort_by_time shifts the caller's channel numbers", "C17.R5", GENERAL,
      "channel = x[\"channel\"].copy()", "channel = x[\"channel\"]"),
    W("gap of exactly safe_break is not a break", "C17.R4", GENERAL,
      "if d[\"time\"] >= latest_end_seen + safe_break:", "if d[\"time\"] > latest_end_seen + safe_break:"),
    W("break measured against the previous row only", "C17.R4", GENERAL,
      "return i\n        latest_end_seen = max(latest_end_seen, strax.endtime(d))", "return i\n        latest_end_seen = strax.endtime(d)"),
    W("safe_break subtracted twice", "C17.R4", GENERAL,
      "if d[\"time\"] >= latest_end_seen + safe_break:", "if d[\"time\"] + safe_break >= latest_end_seen + safe_break + safe_break + safe_break:"),
    W("fully_contained_in without the sanity check", "C17.R1", GENERAL,
      "_fully_contained_in_sanity(things, containers)\n\n    return _fully_contained_in(things, containers)", "return _fully_contained_in(things, containers)"),
    W("containers' sortedness only warned about", "C17.R1", GENERAL,
      "try:\n        _check_time_is_sorted(containers[\"time\"])\n    except Exception:\n        raise ValueError(\"time of containers should be sorted!\")\n    try:\n        _check_objects_are_not_overlapping(containers)",
      "try:\n        _check_time_is_sorted(containers[\"time\"])\n    except Exception:\n        warnings.warn(\"time of containers should be sorted!\")\n    try:\n        _check_objects_are_not_overlapping(containers)"),
    W("touching_windows does not check things", "C17.R1", GENERAL,
      "try:\n        _check_time_is_sorted(things[\"time\"])\n    except Exception:\n        raise ValueError(\"time of things should be sorted!\")\n    try:\n        _check_time_is_sorted(strax.endtime(things))\n    except Exception:\n        warnings.warn(\n            \"endtime of things is not sorted! \"\n            \"touching_windows will return",
      "try:\n        _check_time_is_sorted(strax.endtime(things))\n    except Exception:\n        warnings.warn(\n            \"endtime of things is not sorted! \"\n            \"touching_windows will return"),
    W("np.argsort in general.py", "C17.R2", GENERAL,
      "sort_i = stable_argsort(sort_key, kind=sort_kind)", "sort_i = np.argsort(sort_key)"),
    W("stable_sort accepts quicksort", "C17.R2", SORT,
      "if kind != \"mergesort\":\n        raise SortingError(UNSTABLE_SORT_MESSAGE)\n    return np.sort(arr, kind=\"mergesort\", **kwargs)", "return np.sort(arr, kind=kind, **kwargs)"),
    W("containment with strict right bound", "C17.R3", GENERAL,
      "if b_starts[b_i] <= a_starts[a_i] and a_ends[a_i] <= b_ends[b_i]:", "if b_starts[b_i] <= a_starts[a_i] and a_ends[a_i] < b_ends[b_i]:"),
    W("skip-ahead compares with the thing's end", "C17.R3", GENERAL,
      "while b_i < len(b_starts) and b_ends[b_i] <= a_starts[a_i]:", "while b_i < len(b_starts) and b_ends[b_i] <= a_ends[a_i]:"),
    W("left scan strict", "C17.R3", GENERAL,
      "while left_i <= n - 1 and thing_end[left_i] <= t0 - window:", "while left_i <= n - 1 and thing_end[left_i] < t0 - window:"),
    W("right scan inclusive", "C17.R3", GENERAL,
      "while right_i <= n - 1 and thing_start[right_i] < t1 + window:", "while right_i <= n - 1 and thing_start[right_i] <= t1 + window:"),
]
