"""C08 - plugins see time-aligned inputs and receive each input row exactly once.

Decided statically: the "raise instead of silently drop" guards exist on the paths where rows could
otherwise be lost; every split of an input keeps the left part for compute and re-buffers the right
part; fetched chunks are appended to (not replacing) the buffer; same-kind inputs go through
Chunk.merge in both code paths; the trim loop fails loudly.  Not decided: exactly-once delivery as a
function of the data.
"""

import ast

from ..cfg import cfg_of, literals
from ..dataflow import Defs, atoms, calls_in, provenance, stmt_of
from ..index import AnalysisError, call_name, dotted, enclosing, head, norm, walk_body
from ..pattern import facts_matching, find, has_fact, local_defined_as, pmatch
from ..rules import COMPOUND, kw, node_calls, own_calls, prov_at, reaching
from ..witness import W

PLUGIN = "strax/plugins/plugin.py"
PSP = "strax/plugins/parrallel_source_plugin.py"

EXPLANATION = (
    "R1 guard existence with provenance: (a) the end-of-run handler of Plugin.iter re-fetches every "
    "input and raises if one still delivers, and raises on left-over buffered rows when the plugin's "
    "results are saved by default; (b) _fetch_chunk raises when a source ends before the time the "
    "pacemaker requires; (c) do_compute raises on inconsistent input ranges for saved plugins and on "
    "non-chunk inputs; (d) the trim loop has a failing else. R2 sibling agreement: same-kind inputs "
    "are combined by Chunk.merge over dependencies_by_kind() in Plugin.iter and in "
    "ParallelSourcePlugin.do_compute. R3 data-flow of every split in Plugin.iter: early split "
    "allowed, left part to the inputs of this call, right part back to the buffer (in front of what "
    "is buffered), and _fetch_chunk concatenates buffer + new chunk in that order. R4 pacemaker = the "
    "input that ends first; other inputs are fetched until they reach the pacemaker's end."
)
RULE_TEXT = "one obligation per (rule, site): raise guard, merge site, split statement, fetch statement"
ASSUMPTIONS = ["Chunk.split returns (left, right) and Chunk.concatenate preserves the order of its argument list"]


def run(chk):
    repo = chk.repo
    r1_guards(chk, repo)
    r2_merge(chk, repo)
    r3_splits(chk, repo)
    r4_pacemaker(chk, repo)


def _roles(it):
    """Discover the locals of Plugin.iter by what they are, not by what they are called."""
    r = {}
    mg0 = [c for c in calls_in(it.node) if (call_name(c) or "").endswith("Chunk.merge") and c.args]
    for c in mg0:
        b = pmatch("[L_in[L_d] for L_d in L_deps]", c.args[0])
        if b:
            r["IN"] = b["L_in"]
    splits = [n for n in walk_body(it.node) if isinstance(n, ast.Assign) and isinstance(n.value, ast.Call) and isinstance(n.value.func, ast.Attribute) and n.value.func.attr == "split"]
    if "IN" not in r:
        # fall back: the dict whose items receive a part of a split of the input buffer
        for n in splits:
            if pmatch("self.input_buffer[L_d]", n.value.func.value) is not None and isinstance(n.targets[0], ast.Tuple):
                for t in n.targets[0].elts:
                    b = pmatch("L_in[L_d]", t)
                    if b:
                        r["IN"] = b["L_in"]
    for n in splits:
        recv = n.value.func.value
        if pmatch("self.input_buffer[L_d]", recv) is not None:
            r["first_split"] = n
            t = kw(n.value, "t")
            if isinstance(t, ast.Name):
                tce = find(it.node, f"{t.id} = self.input_buffer[L_pm].end")
                if tce:
                    r["TCE"], r["PM"] = t.id, tce[0][1]["L_pm"]
        elif "IN" in r and pmatch(f"{r['IN']}[L_d]", recv) is not None:
            r["trim_split"] = n
    if "IN" in r:
        ae = find(it.node, f"L_ae = [L_x.end for L_x in {r['IN']}.values()]")
        if ae:
            r["AE"] = ae[0][1]["L_ae"]
    mg = [n for n in walk_body(it.node) if isinstance(n, ast.Assign) and isinstance(n.targets[0], ast.Name) and isinstance(n.value, ast.DictComp) and any((call_name(c) or "").endswith("Chunk.merge") for c in calls_in(n.value))]
    if mg:
        r["MERGED"] = mg[0].targets[0].id
        r["merge_assign"] = mg[0]
    return r


def _effective_save_when(fnode, within=None):
    """Name of the local that holds max(save_when over outputs) / self.save_when, or None."""
    a = [(n, b) for n, b in find(fnode, "L_sw = max([int(L_s) for L_s in self.save_when.values()])") if within is None or within(n)]
    if not a:
        return None
    name = a[0][1]["L_sw"]
    plain = [n for n, b in find(fnode, f"{name} = self.save_when") if within is None or within(n)]
    return name if plain else None


def r1_guards(chk, repo):
    chk.describe("C08.R1", "input rows that cannot be delivered raise an error instead of being dropped")
    it = repo.func("Plugin.iter", PLUGIN)
    cfg = cfg_of(it)
    R = _roles(it)
    chk.need({"TCE", "PM"} <= set(R), f"C08: could not identify the roles of Plugin.iter's locals (found {sorted(R)})")
    hs = [h for h in walk_body(it.node) if isinstance(h, ast.ExceptHandler) and "IterDone" in norm(h.type or ast.Constant(None))]
    chk.need(len(hs) == 1, "C08.R1: end-of-run handler (except IterDone) of Plugin.iter not found")
    h = hs[0]
    inh = lambda st: enclosing(st, (ast.ExceptHandler,)) is h
    raises = [n for n in cfg.stmt_nodes() if isinstance(n.stmt, ast.Raise) and inh(n.stmt)]
    a1 = [n for n in raises if has_fact(cfg, n, "self._fetch_chunk(L_d, iters)", True)]
    ok = bool(a1) and all(enclosing(n.stmt, (ast.For,)) is not None and "iters" in norm(enclosing(n.stmt, (ast.For,)).iter) for n in a1)
    chk.check(ok, "C08.R1", it, h, "at the end of the run the inputs are not all checked for undelivered chunks", site_text="Plugin.iter: every input re-fetched at the end; raise if one still delivers", site={"function": it.qualname, "guard": "last-fetch"})
    SW = _effective_save_when(it.node, inh)
    chk.check(SW is not None, "C08.R1", it, None, "effective save policy of the plugin is not the maximum over its outputs", site_text="Plugin.iter: save_when = max over outputs")
    a2 = []
    for n in raises:
        if SW and has_fact(cfg, n, f"{SW} > strax.SaveWhen.EXPLICIT", True) and has_fact(cfg, n, "len(L_b)", True):
            a2.append(n)
    chk.check(bool(a2), "C08.R1", it, h, "rows left in the input buffer at the end of the run are dropped silently for plugins whose results are saved", site_text="Plugin.iter: raise on left-over buffer if save_when > EXPLICIT", site={"function": it.qualname, "guard": "leftover"})
    for n in a2:
        lp = enclosing(n.stmt, (ast.For,))
        chk.check(lp is not None and "self.input_buffer.items()" in norm(lp.iter), "C08.R1", it, n.stmt, "left-over check does not cover every input buffer", site_text="Plugin.iter: left-over check over all input buffers", nontrivial=False)
    # (d) trim loop = the while loop that contains the trimming split
    wl = [n for n in walk_body(it.node) if isinstance(n, ast.While) and "trim_split" in R and any(x is R["trim_split"] for x in ast.walk(n))]
    chk.check(len(wl) == 1 and wl[0].orelse and any(isinstance(x, ast.Raise) for x in wl[0].orelse), "C08.R1", it, wl[0] if wl else None, "trim loop gives up silently after its passes: inputs with different ends would be computed", site_text="Plugin.iter: trim loop `else: raise`", site={"function": it.qualname, "guard": "trim-else"})
    if wl:
        brk = [x for x in ast.walk(wl[0]) if isinstance(x, ast.Break)]
        ok = bool(brk) and "AE" in R and all(has_fact(cfg, cfg.node_of(b), f"len(set({R['AE']})) <= 1", True) for b in brk)
        chk.check(ok, "C08.R1", it, wl[0], "trim loop is left although the inputs do not end at one time", site_text="Plugin.iter: trim loop left only when all inputs end together")
        cnt = pmatch("L_n > 0", wl[0].test)
        dec = [x for x in ast.walk(wl[0]) if cnt and isinstance(x, ast.AugAssign) and norm(x.target) == cnt["L_n"] and isinstance(x.op, ast.Sub)]
        chk.check(bool(dec), "C08.R1", it, wl[0], "trim loop has no progress counter", site_text="Plugin.iter: passes counted down", nontrivial=False)
    # (b) _fetch_chunk
    fc = repo.func("Plugin._fetch_chunk", PLUGIN)
    fcfg = cfg_of(fc)
    rb = [n for n in fcfg.stmt_nodes() if isinstance(n.stmt, ast.Raise) and enclosing(n.stmt, (ast.ExceptHandler,)) is not None]
    okb = False
    for n in rb:
        facts = fcfg.guard_facts(n)
        if ("check_end_not_before is not None", True) in facts and ("self.input_buffer[d].end < check_end_not_before", True) in facts:
            okb = True
    chk.check(okb, "C08.R1", fc, None, "a dependency that ends before the time the other inputs require is accepted silently", site_text="_fetch_chunk: raise if exhausted before check_end_not_before", site={"function": fc.qualname, "guard": "premature-end"})
    calls = [c for c in calls_in(it.node) if call_name(c) == "self._fetch_chunk" and enclosing(c, (ast.While,)) is not None and R["TCE"] in norm(enclosing(c, (ast.While,)).test)]
    chk.check(bool(calls) and all(kw(c, "check_end_not_before") is not None and norm(kw(c, "check_end_not_before")) == R["TCE"] for c in calls), "C08.R1", it, None, "other inputs are fetched without requiring that they reach the pacemaker's end", site_text="Plugin.iter: _fetch_chunk(..., check_end_not_before=<end of this call>)")
    # (c) do_compute
    dc = repo.func("Plugin.do_compute", PLUGIN)
    dcfg = cfg_of(dc)
    trd = find(dc.node, "L_tr = {L_k: (L_v.start, L_v.end) for L_k, L_v in kwargs.items()}")
    chk.check(bool(trd), "C08.R1", dc, None, "time ranges compared are not (start, end) of each input", site_text="do_compute: ranges = {k: (v.start, v.end)}")
    TR = trd[0][1]["L_tr"] if trd else None
    SW2 = _effective_save_when(dc.node)
    rc = [n for n in dcfg.stmt_nodes() if isinstance(n.stmt, ast.Raise) and TR and SW2 and has_fact(dcfg, n, f"len(set({TR}.values())) != 1", True) and has_fact(dcfg, n, f"{SW2} <= strax.SaveWhen.EXPLICIT", False)]
    chk.check(bool(rc), "C08.R1", dc, None, "inputs covering different time ranges are computed without error for plugins whose results are saved", site_text="do_compute: raise on inconsistent time ranges if save_when > EXPLICIT", site={"function": dc.qualname, "guard": "time-range"})
    ri = [n for n in dcfg.stmt_nodes() if isinstance(n.stmt, ast.Raise) and has_fact(dcfg, n, "isinstance(L_v, strax.Chunk)", False)]
    chk.check(bool(ri), "C08.R1", dc, None, "non-chunk inputs are accepted by do_compute", site_text="do_compute: raise on non-Chunk input", nontrivial=False)


def r2_merge(chk, repo):
    chk.describe("C08.R2", "same-kind inputs are row-aligned and merged by Chunk.merge over dependencies_by_kind() in both code paths")
    for q, p in (("Plugin.iter", PLUGIN), ("ParallelSourcePlugin.do_compute", PSP)):
        f = repo.func(q, p)
        ms = [c for c in calls_in(f.node) if (call_name(c) or "").endswith("Chunk.merge")]
        ok = False
        for c in ms:
            comp = enclosing(c, (ast.DictComp, ast.For))
            it = None
            if isinstance(comp, ast.DictComp):
                it = norm(comp.generators[0].iter)
            elif isinstance(comp, ast.For):
                it = norm(comp.iter)
            if it and "dependencies_by_kind().items()" in it:
                ok = True
        chk.check(ok, "C08.R2", f, None, f"{q} does not merge same-kind inputs with Chunk.merge over dependencies_by_kind()", site_text=f"{q}: Chunk.merge per data kind", site={"function": q})
    # Chunk.merge: on a field-name collision the LAST chunk wins, and the order of the chunks is the
    # order of depends_on: the data arrays are merged in the order given (never re-sorted)
    mg = repo.func("Chunk.merge", "strax/chunk.py")
    CH = mg.params[1]
    ma = [c for c in calls_in(mg.node) if (call_name(c) or "").endswith("merge_arrs") and c.args]
    okm = False
    if len(ma) == 1 and isinstance(ma[0].args[0], ast.ListComp):
        lc = ma[0].args[0]
        okm = norm(lc.generators[0].iter) == CH and norm(lc.elt) == f"{norm(lc.generators[0].target)}.data"
    resorted = [st for st in walk_body(mg.node) if isinstance(st, ast.Assign) and norm(st.targets[0]) == CH and "sorted(" in norm(st.value)] + [st for st in walk_body(mg.node) if isinstance(st, ast.Expr) and norm(st.value).startswith(f"{CH}.sort(")]
    chk.check(okm and not resorted, "C08.R2", mg, resorted[0] if resorted else (stmt_of(ma[0]) if ma else None), "Chunk.merge does not merge the data arrays in the order the chunks were given (depends_on order): on a shared field name another dependency's values win", site_text="Chunk.merge: merge_arrs([c.data for c in chunks]) in the given order", site={"function": mg.qualname, "rule": "merge order"})
    # every inlined plugin gets the merge of *its own* dependencies of a kind (not a merge cached under the kind)
    psp0 = repo.func("ParallelSourcePlugin.do_compute", PSP)
    kl = [n for n in walk_body(psp0.node) if isinstance(n, ast.For) and "dependencies_by_kind().items()" in norm(n.iter) and isinstance(n.target, ast.Tuple) and len(n.target.elts) == 2]
    okp = False
    for lp in kl:
        KIND, DS = norm(lp.target.elts[0]), norm(lp.target.elts[1])
        for st in lp.body:
            if isinstance(st, ast.Assign) and isinstance(st.targets[0], ast.Subscript) and norm(st.targets[0].slice) == KIND:
                v = st.value
                okp = isinstance(v, ast.Call) and (call_name(v) or "").endswith("Chunk.merge") and v.args and isinstance(v.args[0], ast.ListComp) and norm(v.args[0].generators[0].iter) == DS
    chk.check(okp, "C08.R2", psp0, kl[0] if kl else None, "an inlined plugin's input of a kind is not `Chunk.merge` over its own dependencies of that kind (e.g. a merge cached per kind from another plugin): plugins with different dependencies of the same kind are handed the wrong rows", site_text="ParallelSourcePlugin.do_compute: compute_kwargs[kind] = Chunk.merge([results[d] for d in d_of_kind])", site={"function": psp0.qualname, "rule": "own dependencies merged"})
    gk = repo.func("group_by_kind", "strax/utils.py")
    loops = [n for n in walk_body(gk.node) if isinstance(n, ast.For) and norm(n.iter) == gk.params[0]]
    okg = False
    for lp in loops:
        apps = [c for st in lp.body for c in calls_in(st) if isinstance(c.func, ast.Attribute) and c.func.attr == "append" and c.args and norm(c.args[0]) == norm(lp.target) and isinstance(c.func.value, ast.Subscript)]
        okg = okg or bool(apps)
    usesgb = any((call_name(c) or "").endswith("groupby") for c in calls_in(gk.node))
    chk.check(okg and not usesgb, "C08.R2", gk, None, "group_by_kind does not collect *every* data type of a kind (a per-kind list appended to for each data type); e.g. itertools.groupby only groups neighbours, so same-kind dependencies that are not adjacent in depends_on are dropped from the merge without an error", site_text="group_by_kind: for d in dtypes: by_kind[kind(d)].append(d)", site={"function": gk.qualname, "rule": "all data types of a kind"})
    # an inlined multi-output plugin is computed once per chunk: all its outputs are stored
    psp = repo.func("ParallelSourcePlugin.do_compute", PSP)
    rc = [st for st in walk_body(psp.node) if isinstance(st, ast.Assign) and isinstance(st.value, ast.Call) and isinstance(st.value.func, ast.Attribute) and st.value.func.attr == "do_compute" and isinstance(st.targets[0], ast.Name)]
    oka = False
    if len(rc) == 1:
        RV = rc[0].targets[0].id
        pcfg = cfg_of(psp)
        for lp in [x for x in walk_body(psp.node) if isinstance(x, ast.For) and norm(x.iter) in (RV, f"{RV}.keys()", f"{RV}.items()")]:
            st0 = [x for x in lp.body if isinstance(x, ast.Assign) and isinstance(x.targets[0], ast.Subscript)]
            if st0 and any(t.endswith(".multi_output") and p_ is True for t, p_ in pcfg.guard_facts(pcfg.node_of(lp))):
                oka = True
    chk.check(oka, "C08.R2", psp, rc[0] if rc else None, "the result of an inlined multi-output plugin is not stored for all of its outputs: the plugin is computed again (on the same rows) for every further output", site_text="ParallelSourcePlugin.do_compute: for d in r: results[d] = r[d] for multi-output plugins", site={"function": psp.qualname, "rule": "all outputs stored"})
    it = repo.func("Plugin.iter", PLUGIN)
    R = _roles(it)
    subs = [c for c in calls_in(it.node) if (call_name(c) or "").endswith(".submit") or call_name(c) == "self._iter_compute"]
    chk.check(bool(subs) and "MERGED" in R and all(any(k.arg is None and norm(k.value) == R["MERGED"] for k in c.keywords) for c in subs), "C08.R2", it, None, "compute is not called with the merged inputs", site_text="Plugin.iter: compute(**<merged inputs>)")
    if "merge_assign" in R and "IN" in R:
        chk.check(f"{R['IN']}[" in norm(R["merge_assign"].value), "C08.R2", it, R["merge_assign"], "merged inputs are not built from the trimmed inputs of this call", site_text="Plugin.iter: merge over the inputs of this call", nontrivial=False)


def r3_splits(chk, repo):
    chk.describe("C08.R3", "every split in Plugin.iter may move earlier, gives its left part to this call and puts its right part back in front of the buffer; fetches append to the buffer")
    it = repo.func("Plugin.iter", PLUGIN)
    R = _roles(it)
    sp = [n for n in walk_body(it.node) if isinstance(n, ast.Assign) and isinstance(n.value, ast.Call) and isinstance(n.value.func, ast.Attribute) and n.value.func.attr == "split"]
    chk.floor("C08.R3", "split statements in Plugin.iter", len(sp), 2)
    IN = R.get("IN")
    for s in sp:
        c = s.value
        a = kw(c, "allow_early_split")
        chk.check(isinstance(a, ast.Constant) and a.value is True, "C08.R3", it, s, "input split without allow_early_split: a row straddling another input's boundary raises CannotSplit", site_text=f"Plugin.iter: `{head(s, 50)}` allow_early_split=True")
        t = kw(c, "t")
        chk.check(t is not None and norm(t) == R.get("TCE"), "C08.R3", it, s, "input is not split at the end of this compute call", site_text="split(t=<end of this call>)")
        tg = s.targets[0]
        ok = isinstance(tg, ast.Tuple) and len(tg.elts) == 2 and IN is not None and norm(tg.elts[0]).startswith(f"{IN}[")
        chk.check(ok, "C08.R3", it, s, "left part of the split does not go to the inputs of this call", site_text="left part -> inputs[d]")
        if isinstance(tg, ast.Tuple) and len(tg.elts) == 2:
            right = norm(tg.elts[1])
            if right.startswith("self.input_buffer["):
                chk.ok("C08.R3", "right part -> self.input_buffer[d]")
            else:
                back = [n for n in walk_body(it.node) if isinstance(n, ast.Assign) and norm(n.targets[0]).startswith("self.input_buffer[") and isinstance(n.value, ast.Call) and (call_name(n.value) or "").endswith("Chunk.concatenate")]
                okb = any(norm(b.value.args[0]).startswith(f"[{right}, self.input_buffer[") and enclosing(b, (ast.For,)) is enclosing(s, (ast.For,)) for b in back)
                chk.check(okb, "C08.R3", it, s, f"right part `{right}` of the split is dropped or re-buffered behind newer data", site_text="right part re-buffered in front of the buffer", site={"function": it.qualname, "construct": "re-buffer"})
    fc = repo.func("Plugin._fetch_chunk", PLUGIN)
    st = [n for n in walk_body(fc.node) if isinstance(n, ast.Assign) and norm(n.targets[0]) == "self.input_buffer[d]"]
    ok = len(st) == 1 and isinstance(st[0].value, ast.Call) and (call_name(st[0].value) or "").endswith("Chunk.concatenate") and norm(st[0].value.args[0]) == "[self.input_buffer[d], next(iters[d])]"
    chk.check(ok, "C08.R3", fc, st[0] if st else None, "a fetched chunk replaces (or is put before) what is still buffered", site_text="_fetch_chunk: buffer = concatenate([buffer, next(iters[d])])", site={"function": fc.qualname, "construct": "append"})
    rt = [n for n in walk_body(fc.node) if isinstance(n, ast.Return)]
    chk.check({norm(r.value) for r in rt} == {"True", "False"}, "C08.R3", fc, None, "_fetch_chunk no longer reports whether a chunk was fetched", site_text="_fetch_chunk: True on success, False when exhausted", nontrivial=False)
    ini = [n for n, b in find(it.node, "self.input_buffer = {L_d: None for L_d in self.depends_on}")]
    chk.check(bool(ini), "C08.R3", it, None, "input buffers are not initialised per dependency", site_text="Plugin.iter: input_buffer = {d: None for d in depends_on}", nontrivial=False)


def r4_pacemaker(chk, repo):
    chk.describe("C08.R4", "the pacemaker is the input that ends first; each call ends where the pacemaker's buffer ends and the other inputs are fetched up to there")
    it = repo.func("Plugin.iter", PLUGIN)
    cfg = cfg_of(it)
    R = _roles(it)
    PM, TCE = R.get("PM"), R.get("TCE")
    pm = [n for n in cfg.stmt_nodes() if isinstance(n.stmt, ast.Assign) and norm(n.stmt.targets[0]) == PM and isinstance(n.stmt.value, ast.Name)]
    okp = False
    for n in pm:
        for e, pol, g, b in facts_matching(cfg, n, f"self.input_buffer[{norm(n.stmt.value)}].end < L_min", True):
            if find(it.node, f"{b['L_min']} = self.input_buffer[{norm(n.stmt.value)}].end") and find(it.node, f"{b['L_min']} = float('inf')"):
                okp = True
    chk.check(okp, "C08.R4", it, None, "pacemaker is not chosen as the dependency whose first chunk ends earliest", site_text="Plugin.iter: pacemaker = argmin end of the first chunks (running minimum from +inf)")
    te = [n for n in walk_body(it.node) if isinstance(n, ast.Assign) and norm(n.targets[0]) == TCE]
    chk.check(any(norm(n.value) == f"self.input_buffer[{PM}].end" for n in te), "C08.R4", it, None, "a call does not end at the end of the pacemaker's buffered chunk", site_text="Plugin.iter: end of this call = input_buffer[pacemaker].end")
    chk.check("AE" in R and any(norm(n.value) == f"min({R['AE']} + [{TCE}])" for n in te), "C08.R4", it, None, "after early splits the call end is not lowered to the earliest input end", site_text="Plugin.iter: end of this call = min(all ends)")
    wl = [n for n in walk_body(it.node) if isinstance(n, ast.While) and pmatch(f"self.input_buffer[L_d] is None or self.input_buffer[L_d].end < {TCE}", n.test) is not None]
    chk.check(len(wl) == 1, "C08.R4", it, None, "other inputs are not fetched until they reach the end of this call", site_text="Plugin.iter: fetch while buffer.end < end of this call")
    done = [n for n in cfg.stmt_nodes() if isinstance(n.stmt, ast.Raise) and "IterDone" in norm(n.stmt.exc) and has_fact(cfg, n, f"self._fetch_chunk({PM}, iters)", False)]
    chk.check(bool(done), "C08.R4", it, None, "the run does not end when the pacemaker is exhausted", site_text="Plugin.iter: IterDone when the pacemaker delivers nothing more")
    fin = [n for n in walk_body(it.node) if isinstance(n, ast.Try) and n.finalbody and any(call_name(c) == "self.cleanup" for s in n.finalbody for c in calls_in(s))]
    chk.check(bool(fin), "C08.R4", it, None, "plugin cleanup is not run on every exit", site_text="Plugin.iter: cleanup in finally", nontrivial=False)


WITNESSES = [
    W("merged input cached per kind across inlined plugins", "C08.R2", PSP,
      "compute_kwargs[kind] = strax.Chunk.merge([results[d] for d in d_of_kind])", "compute_kwargs[kind] = results.setdefault(\"_merged_\" + kind, strax.Chunk.merge([results[d] for d in d_of_kind]))"),
    W("group_by_kind groups only neighbours", "C08.R2", "strax/utils.py",
      "deps_by_kind: ty.Dict = dict()\n    for d in dtypes:\n        p = plugins[d]\n        k = p.data_kind_for(d)\n        deps_by_kind.setdefault(k, [])\n        deps_by_kind[k].append(d)\n\n    return deps_by_kind",
      "return {kind: list(ds) for kind, ds in itertools.groupby(dtypes, key=lambda d: plugins[d].data_kind_for(d))}"),
    W("merge order follows the data type names", "C08.R2", "strax/chunk.py",
      "data = strax.merge_arrs(", "chunks = sorted(chunks, key=lambda x: x.data_type)\n        data = strax.merge_arrs("),
    W("inlined multi-output plugin stores one output per computation", "C08.R2", PSP,
      "if p.multi_output:\n                    for d in r:\n                        results[d] = r[d]\n                else:\n                    results[output_name] = r", "results[output_name] = r[output_name] if p.multi_output else r"),
    W("leftover raise deleted", "C08.R1", PLUGIN,
      "if buffer is not None and len(buffer):\n                        raise RuntimeError(f\"Plugin {d} terminated with leftover {d}: {buffer}\")", "pass"),
    W("premature-end raise deleted", "C08.R1", PLUGIN,
      "if check_end_not_before is not None and self.input_buffer[d].end < check_end_not_before:\n                raise RuntimeError(\n                    f\"Tried to get data until {check_end_not_before}, but {d} \"\n                    f\"ended prematurely at {self.input_buffer[d].end}\"\n                )", "pass"),
    W("inconsistent ranges only warn", "C08.R1", PLUGIN,
      "message = (\n                    f\"{self.__class__.__name__} got inconsistent time ranges of inputs: {tranges}\"\n                )\n                raise ValueError(message)",
      "message = (\n                    f\"{self.__class__.__name__} got inconsistent time ranges of inputs: {tranges}\"\n                )\n                warn(message)"),
    W("trim loop breaks instead of raising", "C08.R1", PLUGIN,
      "else:\n                        raise RuntimeError(\n                            f\"{self} was unable to get time-consistent \"\n                            f\"inputs after ten passess. Inputs: \\n{inputs}\\n\"\n                            f\"Input buffer:\\n{self.input_buffer}\"\n                        )", "else:\n                        pass"),
    W("last-fetch check dropped", "C08.R1", PLUGIN,
      "if self._fetch_chunk(d, iters):\n                    raise RuntimeError(f\"Plugin {d} terminated without fetching last {d}!\")", "self._fetch_chunk(d, iters)"),
    W("fetch without the end requirement", "C08.R1", PLUGIN,
      "self._fetch_chunk(d, iters, check_end_not_before=this_chunk_end)", "self._fetch_chunk(d, iters)"),
    W("same-kind inputs concatenated instead of merged", "C08.R2", PLUGIN,
      "kind: strax.Chunk.merge([inputs[d] for d in deps_of_kind])", "kind: strax.Chunk.concatenate([inputs[d] for d in deps_of_kind])"),
    W("first split strict", "C08.R3", PLUGIN,
      "inputs[d], self.input_buffer[d] = self.input_buffer[d].split(\n                            t=this_chunk_end, allow_early_split=True\n                        )",
      "inputs[d], self.input_buffer[d] = self.input_buffer[d].split(\n                            t=this_chunk_end, allow_early_split=False\n                        )"),
    W("trimmed rows discarded", "C08.R3", PLUGIN,
      "self.input_buffer[d] = strax.Chunk.concatenate(\n                                [back_to_buffer, self.input_buffer[d]],\n                                self.allow_superrun,\n                            )", "pass"),
    W("trimmed rows re-buffered behind newer data", "C08.R3", PLUGIN,
      "[back_to_buffer, self.input_buffer[d]],", "[self.input_buffer[d], back_to_buffer],"),
    W("fetched chunk replaces the buffer", "C08.R3", PLUGIN,
      "self.input_buffer[d] = strax.Chunk.concatenate(\n                [self.input_buffer[d], next(iters[d])], self.allow_superrun\n            )", "self.input_buffer[d] = next(iters[d])"),
    W("left and right parts swapped", "C08.R3", PLUGIN,
      "inputs[d], self.input_buffer[d] = self.input_buffer[d].split(", "self.input_buffer[d], inputs[d] = self.input_buffer[d].split("),
    W("pacemaker = latest-ending input", "C08.R4", PLUGIN,
      "if self.input_buffer[d].end < _end:", "if self.input_buffer[d].end > _end:"),
    W("other inputs fetched only once", "C08.R4", PLUGIN,
      "while (\n                                self.input_buffer[d] is None\n                                or self.input_buffer[d].end < this_chunk_end\n                            ):", "if (\n                                self.input_buffer[d] is None\n                            ):"),
]
