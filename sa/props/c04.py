"""C04 - a crash or I/O failure never leaves wrong data visible as valid.

Decided statically: the shape of the write protocol (everything under *_temp, rename last, markers
and metadata flushed before the rename), every asynchronous write observed before completion, the
broken-data test on every read path, savers closed while the exception is active, a failed save
recorded and re-raised.  Not decided: what the file system does at a real crash (rename atomicity is
assumed).
"""

import ast

from ..cfg import cfg_of, handler_names, is_catch_all, literals
from ..dataflow import Defs, atoms, calls_in, provenance, stmt_of
from ..dtable import table
from ..index import AnalysisError, call_name, dotted, enclosing, head, norm, walk_body
from ..resolve import resolve_callable
from ..rules import COMPOUND, catch_all_handlers, handler_body_nodes, handler_paths_pass, kw, node_calls, own_calls
from ..witness import W

FILES = "strax/storage/files.py"
COMMON = "strax/storage/common.py"
IO = "strax/io.py"
SINGLE = "strax/processors/single_thread.py"
POST = "strax/processors/post_office.py"

EXPLANATION = (
    "Static path and provenance rules over the saving code: R1 every write-mode open / save_file / "
    "makedirs of FileSaver targets the *_temp directory, the rename to the final name is the last "
    "effect of _close and is dominated by the metadata flush, save_file renames only after its "
    "with-open block; R2 the exception and writing_ended markers are stored before _close(); R3 "
    "every future returned by Saver.save flows into a pending list that is only filtered by an "
    "observing function and is completely observed before the normal-path close; R4 find() applies "
    "the broken-data tests on every read path, check_broken=False call sites form a closed table, "
    "_can_overwrite's decision table equals the specification; R5 savers are closed lexically inside "
    "except/finally so the exception is recorded; R6 a failing save is recorded and re-raised."
)
RULE_TEXT = "one obligation per (rule, site): write call, rename, marker store, pending-list rebinding, read-path test, close call site, table row"
ASSUMPTIONS = [
    "os.rename of a directory / file is atomic on the target file system",
    "strax.formatted_exception() returns a non-empty string iff an exception is being handled",
]


def run(chk):
    repo = chk.repo
    r1_temp_then_rename(chk, repo)
    r2_markers(chk, repo)
    r2b_formatted_exception(chk, repo)
    r3_futures(chk, repo)
    r3b_inlined_savers(chk, repo)
    r4_read_paths(chk, repo)
    r5_close_in_exception_context(chk, repo)
    r6_failed_save(chk, repo)


# ------------------------------------------------------------------------------------ R1
def _is_write_open(c, name):
    if name != "open":
        return False
    mode = kw(c, "mode") or (c.args[1] if len(c.args) > 1 else None)
    return isinstance(mode, ast.Constant) and isinstance(mode.value, str) and any(ch in mode.value for ch in "wax+")


def r1_temp_then_rename(chk, repo):
    chk.describe("C04.R1", "all writes of FileSaver go to the _temp directory; the final rename is last and follows the metadata flush; save_file renames after closing the temp file")
    fs = repo.cls("FileSaver")
    # tempdirname differs from dirname
    init = fs.methods.get("__init__")
    chk.need(init is not None, "C04.R1: FileSaver.__init__ not found")
    tdef = [n for n in walk_body(init.node) if isinstance(n, ast.Assign) and any(norm(t) == "self.tempdirname" for t in n.targets)]
    chk.need(tdef, "C04.R1: FileSaver.__init__ no longer defines self.tempdirname")
    v = tdef[0].value
    ok = isinstance(v, ast.BinOp) and isinstance(v.op, ast.Add) and isinstance(v.right, ast.Constant) and isinstance(v.right.value, str) and v.right.value and "dirname" in norm(v.left)
    chk.check(ok, "C04.R1", init, tdef[0], "temporary directory name is not the final name plus a non-empty suffix", site_text="FileSaver.__init__: tempdirname = dirname + '_temp'")
    n_writes = 0
    for name, f in fs.methods.items():
        defs = Defs(f.node)
        for c in (n for n in walk_body(f.node) if isinstance(n, ast.Call)):
            cn = call_name(c) or ""
            path_arg = None
            what = None
            if _is_write_open(c, cn):
                path_arg, what = c.args[0], "open(..., 'w')"
            elif cn.endswith("save_file"):
                path_arg, what = c.args[0], "save_file"
            elif cn.endswith(".submit") and c.args and (dotted(c.args[0]) or "").endswith("save_file"):
                path_arg, what = c.args[1], "submit(save_file)"
            elif cn in ("os.makedirs", "os.mkdir"):
                path_arg, what = c.args[0], cn
            if path_arg is None:
                continue
            n_writes += 1
            prov = provenance(defs, path_arg)
            ok = "self.tempdirname" in prov and "self.dirname" not in prov
            chk.check(ok, "C04.R1", f, stmt_of(c), f"{what} writes outside the temporary directory (path does not derive from self.tempdirname): a crash leaves partial data under the final name",
                      site_text=f"{f.qualname}: {what} under self.tempdirname",
                      site={"function": f.qualname, "construct": head(stmt_of(c), 160)})
    chk.floor("C04.R1", "write sites in FileSaver", n_writes, 4)
    # the temporary directory starts empty: whatever an interrupted writer left there is removed
    icfg = cfg_of(init)
    mks = [n for n in icfg.stmt_nodes() if not isinstance(n.stmt, COMPOUND) and node_calls(n, lambda c, nm: nm in ("os.makedirs", "os.mkdir") and c.args and norm(c.args[0]) == "self.tempdirname")]
    chk.check(len(mks) >= 1, "C04.R1", init, None, "FileSaver.__init__ no longer creates the temporary directory", site_text="FileSaver.__init__: makedirs(tempdirname)")

    def _fresh(n):
        if n.kind == "guard" and n.test is not None:
            return ("os.path.exists(self.tempdirname)", False) in literals(n.test, n.polarity)
        return n.kind == "stmt" and not isinstance(n.stmt, COMPOUND) and node_calls(n, lambda c, nm: nm == "shutil.rmtree" and c.args and norm(c.args[0]) == "self.tempdirname")

    for mk in mks:
        okp, path = icfg.every_path([icfg.entry], [mk], _fresh, "n")
        chk.check(okp, "C04.R1", init, mk.stmt, "the temporary directory is (re)used without removing what an interrupted writer left in it: stale chunk files / per-chunk metadata get merged into the new data",
                  site_text="FileSaver.__init__: stale tempdir removed on every path before it is created", site={"function": init.qualname, "rule": "tempdir starts empty"})
    # rename in _close
    close = fs.methods.get("_close")
    chk.need(close is not None, "C04.R1: FileSaver._close not found")
    cfg = cfg_of(close)
    renames = [n for n in cfg.stmt_nodes() if node_calls(n, lambda c, nm: nm in ("os.rename", "os.replace", "shutil.move")) and not isinstance(n.stmt, COMPOUND)]
    chk.check(len(renames) == 1, "C04.R1", close, None, f"expected exactly one rename in FileSaver._close, found {len(renames)}", site_text="FileSaver._close: single rename")
    for rn in renames:
        c = [c for c in own_calls(rn.stmt) if (call_name(c) or "") in ("os.rename", "os.replace", "shutil.move")][0]
        ok = len(c.args) == 2 and norm(c.args[0]) == "self.tempdirname" and norm(c.args[1]) == "self.dirname"
        chk.check(ok, "C04.R1", close, rn.stmt, "rename is not tempdirname -> dirname", site_text="FileSaver._close: rename(tempdirname, dirname)")
        flush = lambda n: n.kind == "stmt" and not isinstance(n.stmt, COMPOUND) and node_calls(n, lambda c, nm: nm == "self._flush_metadata")
        okp, path = cfg.every_path([cfg.entry], [rn], flush, "n")
        chk.check(okp, "C04.R1", close, rn.stmt, "directory is renamed to its final name before the final metadata (with the completion / failure markers) is flushed", site_text="FileSaver._close: _flush_metadata() on every path before the rename")
        after = cfg.reachable([rn], "n") - {rn}
        effects = [n for n in after if n.kind == "stmt" and own_calls(n.stmt)]
        chk.check(not effects, "C04.R1", close, effects[0].stmt if effects else None, "file-system work after the rename to the final name: a crash in between leaves published but incomplete data",
                  site_text="FileSaver._close: rename is the last effect")
    # nothing else in FileSaver touches self.dirname as a destination
    for name, f in fs.methods.items():
        for c in (n for n in walk_body(f.node) if isinstance(n, ast.Call)):
            cn = call_name(c) or ""
            if cn in ("os.rename", "os.replace", "shutil.move", "shutil.copytree", "shutil.copy") and f is not close:
                chk.fail("C04.R1", f, stmt_of(c), "rename/move outside FileSaver._close")
    # save_file
    sf = repo.func("save_file", IO)
    scfg = cfg_of(sf)
    defs = Defs(sf.node)
    opens = [c for c in (n for n in walk_body(sf.node) if isinstance(n, ast.Call)) if _is_write_open(c, call_name(c) or "")]
    chk.floor("C04.R1", "write-mode opens in save_file", len(opens), 1)
    for c in opens:
        prov = provenance(defs, c.args[0])
        chk.check("str:_temp" in prov, "C04.R1", sf, stmt_of(c), "save_file opens the final file name for writing", site_text="save_file: writes <file>_temp")
    rns = [n for n in scfg.stmt_nodes() if not isinstance(n.stmt, COMPOUND) and node_calls(n, lambda c, nm: nm in ("os.rename", "os.replace"))]
    chk.floor("C04.R1", "renames in save_file", len(rns), 1)
    for rn in rns:
        w = enclosing(rn.stmt, (ast.With,))
        chk.check(w is None or enclosing(w, (ast.FunctionDef,)) is not sf.node, "C04.R1", sf, rn.stmt, "chunk file is renamed to its final name while the temp file is still open (unflushed data)", site_text="save_file: rename after the with-open block")
        withs = [n for n in scfg.stmt_nodes() if isinstance(n.stmt, ast.With) and any(_is_write_open(c, call_name(c) or "") for c in own_calls(n.stmt))]
        dom = scfg.dominators("n")
        chk.check(any(wn in dom[rn] for wn in withs), "C04.R1", sf, rn.stmt, "rename not preceded by writing the temp file", site_text="save_file: write dominates rename")
        c = [c for c in own_calls(rn.stmt) if (call_name(c) or "") in ("os.rename", "os.replace")][0]
        p0, p1 = provenance(defs, c.args[0]), provenance(defs, c.args[1])
        chk.check("str:_temp" in p0 and "str:_temp" not in p1, "C04.R1", sf, rn.stmt, "rename direction is not temp -> final", site_text="save_file: rename(temp_fn, final_fn)")


# ------------------------------------------------------------------------------------ R2
def r2_markers(chk, repo):
    chk.describe("C04.R2", "Saver.close stores the exception marker (from the active exception) and writing_ended before publishing with _close()")
    close = repo.func("Saver.close", COMMON)
    cfg = cfg_of(close)
    defs = Defs(close.node)
    pubs = [n for n in cfg.stmt_nodes() if not isinstance(n.stmt, COMPOUND) and node_calls(n, lambda c, nm: nm == "self._close")]
    chk.need(len(pubs) >= 1, "C04.R2: Saver.close no longer calls self._close()")

    def md_store(key):
        out = []
        for n in cfg.stmt_nodes():
            if isinstance(n.stmt, ast.Assign):
                for t in n.stmt.targets:
                    if isinstance(t, ast.Subscript) and norm(t.value) == "self.md" and isinstance(t.slice, ast.Constant) and t.slice.value == key:
                        out.append(n)
        return out

    ended = md_store("writing_ended")
    exc = md_store("exception")
    chk.check(bool(ended), "C04.R2", close, None, "completion marker writing_ended is never stored", site_text="Saver.close: md['writing_ended'] stored")
    chk.check(bool(exc), "C04.R2", close, None, "failure marker exception is never stored", site_text="Saver.close: md['exception'] stored")
    dom = cfg.dominators("n")
    for p in pubs:
        chk.check(any(e in dom[p] for e in ended), "C04.R2", close, p.stmt, "_close() (publication) is reachable without the completion marker having been stored", site_text="Saver.close: writing_ended dominates _close()")
        # exception marker: every path from entry to _close passes the `if exc_info` decision
        for e in exc:
            gs = [g for g in cfg.dominating_guards(e) if g.test is not None]
            tests = {norm(g.test) for g in gs}
            prov = set()
            for g in gs:
                prov |= provenance(defs, g.test)
            def precondition(g):
                sib = [x for x in cfg.guards_of(g.owner, not g.polarity)]
                return bool(sib) and cfg.exit_return not in cfg.reachable(sib, "n")

            gs = [g for g in gs if not precondition(g)]
            prov = set()
            for g in gs:
                prov |= provenance(defs, g.test)
            chk.check("call:formatted_exception" in prov and len(gs) == 1, "C04.R2", close, e.stmt, "exception marker is not stored exactly when an exception is active (guard must derive from formatted_exception() only)",
                      site_text="Saver.close: md['exception'] stored iff formatted_exception() is non-empty")
            chk.check("call:formatted_exception" in provenance(defs, e.stmt.value), "C04.R2", close, e.stmt, "exception marker does not carry the formatted active exception", site_text="Saver.close: marker value is formatted_exception()")
            owner = gs[0].owner if gs else None
            if owner is not None:
                hn = cfg.node_of(owner)
                chk.check(hn in dom[p], "C04.R2", close, p.stmt, "_close() can run before the failure marker decision", site_text="Saver.close: exception decision dominates _close()")
    # who may write the completion marker
    n_sites = 0
    for m in repo.modules.values():
        for f in m.functions.values():
            for n in walk_body(f.node):
                if isinstance(n, ast.Assign):
                    for t in n.targets:
                        if isinstance(t, ast.Subscript) and isinstance(t.slice, ast.Constant) and t.slice.value == "writing_ended":
                            n_sites += 1
                            chk.check(f is close, "C04.R2", f, n, "completion marker written outside Saver.close", site_text=f"{f.qualname}: only Saver.close writes writing_ended")
    chk.floor("C04.R2", "writing_ended stores", n_sites, 1)


# ------------------------------------------------------------------------------------ R3
def _observing_filter(repo, func, call):
    """Is `call` a call to a function that observes .result()/.exception() of completed futures?"""
    for g in resolve_callable(repo, func, call.func):
        obs = [c for c in (n for n in walk_body(g.node) if isinstance(n, ast.Call)) if isinstance(c.func, ast.Attribute) and c.func.attr in ("result", "exception")]
        if obs:
            return g
    return None


def r3_futures(chk, repo):
    chk.describe("C04.R3", "every future returned by Saver.save is kept until observed: the pending list is only filtered by a function that calls result()/exception(), and is fully observed before the normal-path close")
    sf = repo.func("Saver.save_from", COMMON)
    cfg = cfg_of(sf)
    defs = Defs(sf.node)
    saves = [n for n in walk_body(sf.node) if isinstance(n, ast.Call) and call_name(n) == "self.save"]
    chk.need(len(saves) >= 1, "C04.R3: Saver.save_from no longer calls self.save")
    fut_names = set()
    for c in saves:
        st = stmt_of(c)
        if isinstance(st, ast.Assign) and isinstance(st.targets[0], ast.Name):
            fut_names.add(st.targets[0].id)
        else:
            chk.fail("C04.R3", sf, st, "future returned by self.save(...) is discarded")
    # the pending list: receives the future
    pend = set()
    for n in walk_body(sf.node):
        if isinstance(n, ast.AugAssign) and isinstance(n.target, ast.Name) and any(isinstance(x, ast.Name) and x.id in fut_names for x in ast.walk(n.value)):
            pend.add(n.target.id)
        if isinstance(n, ast.Call) and isinstance(n.func, ast.Attribute) and n.func.attr == "append" and isinstance(n.func.value, ast.Name) and any(isinstance(x, ast.Name) and x.id in fut_names for a in n.args for x in ast.walk(a)):
            pend.add(n.func.value.id)
        if isinstance(n, ast.Assign) and isinstance(n.targets[0], ast.Name) and isinstance(n.value, ast.BinOp) and any(isinstance(x, ast.Name) and x.id in fut_names for x in ast.walk(n.value)):
            pend.add(n.targets[0].id)
    chk.check(len(pend) == 1, "C04.R3", sf, None, f"futures returned by save() are not collected in a pending list (found {sorted(pend)})", site_text="Saver.save_from: futures collected in one pending list")
    if len(pend) != 1:
        return
    P = pend.pop()
    observers = []
    for val, st, how in defs.defs.get(P, []):
        if how == "aug":
            chk.ok("C04.R3", f"Saver.save_from: `{head(st, 60)}` adds to {P}", nontrivial=False)
            continue
        if isinstance(val, (ast.List, ast.Tuple)) and not val.elts:
            chk.ok("C04.R3", f"Saver.save_from: `{head(st, 60)}` initialises {P}", nontrivial=False)
            continue
        if isinstance(val, ast.BinOp) and isinstance(val.op, ast.Add) and norm(val.left) == P:
            chk.ok("C04.R3", f"Saver.save_from: `{head(st, 60)}` adds to {P}", nontrivial=False)
            continue
        g = _observing_filter(repo, sf, val) if isinstance(val, ast.Call) and any(norm(a) == P for a in val.args) else None
        chk.check(g is not None, "C04.R3", sf, st, f"`{P}` is rebound by something that does not observe the outcome of the futures it drops: a failed chunk write is lost and the data is marked complete",
                  site_text=f"Saver.save_from: `{head(st, 60)}` filters through an observing function",
                  site={"function": sf.qualname, "construct": head(st, 160)})
        if g is not None:
            observers.append((st, g))
            _check_observer(chk, g)
    # normal path: after the main loop, wait + observing filter before close
    loops = [n for n in walk_body(sf.node) if isinstance(n, ast.While) and any(call_name(c) == "next" for c in calls_in(n))]
    chk.need(len(loops) == 1, "C04.R3: main loop of Saver.save_from not found")
    gf = cfg.guards_of(loops[0], False)
    closes = [n for n in cfg.stmt_nodes() if not isinstance(n.stmt, COMPOUND) and node_calls(n, lambda c, nm: nm == "self.close")]
    obs_nodes = [n for n in cfg.stmt_nodes() for st, g in observers if n.stmt is st]
    wait_nodes = [n for n in cfg.stmt_nodes() if not isinstance(n.stmt, COMPOUND) and node_calls(n, lambda c, nm: nm.split(".")[-1] == "wait" and c.args and norm(c.args[0]) == P)]
    close_f = repo.func("Saver.close", COMMON)
    close_observes = [c for c in (n for n in walk_body(close_f.node) if isinstance(n, ast.Call)) if isinstance(c.func, ast.Attribute) and c.func.attr in ("result", "exception")]
    if close_observes:
        chk.ok("C04.R3", "Saver.close observes the outcome of the futures it waited for")
    else:
        def wait_then_observe(n):
            return n in obs_nodes and any(w in cfg.dominators("n").get(n, ()) and w in cfg.reachable(gf, "n") for w in wait_nodes)

        ok, path = cfg.every_path(gf, closes, wait_then_observe, "n")
        chk.check(ok and bool(gf), "C04.R3", sf, loops[0], "on the normal path the saver is closed (data marked complete) without first waiting for and observing all pending writes",
                  site_text="Saver.save_from: loop exit -> wait(pending) -> observing filter -> close")
    # close waits for what it is given
    ccfg = cfg_of(close_f)
    waits = [n for n in ccfg.stmt_nodes() if not isinstance(n.stmt, COMPOUND) and node_calls(n, lambda c, nm: nm.split(".")[-1] == "wait")]
    pubs = [n for n in ccfg.stmt_nodes() if not isinstance(n.stmt, COMPOUND) and node_calls(n, lambda c, nm: nm == "self._close")]
    chk.check(bool(waits), "C04.R3", close_f, None, "Saver.close does not wait for the pending futures it is given", site_text="Saver.close: waits for wait_for")
    raises = [st for st in walk_body(close_f.node) if isinstance(st, ast.Raise) and "not_done" in norm(enclosing(st, (ast.If,)).test if enclosing(st, (ast.If,)) else st)]
    chk.check(bool(raises), "C04.R3", close_f, None, "Saver.close does not fail when writes did not complete in time", site_text="Saver.close: raises if futures are not done")
    for c in closes:
        call = [x for x in own_calls(c.stmt) if call_name(x) == "self.close"][0]
        wf = kw(call, "wait_for") or (call.args[0] if call.args else None)
        chk.check(wf is not None and norm(wf) == P, "C04.R3", sf, c.stmt, "saver closed without waiting for the pending writes", site_text=f"Saver.save_from: close(wait_for={P})")


def _check_observer(chk, g):
    """In the observing filter every element that is dropped has been observed."""
    keeps = [n for n in walk_body(g.node) if isinstance(n, ast.Call) and isinstance(n.func, ast.Attribute) and n.func.attr == "append"]
    obs = [n for n in walk_body(g.node) if isinstance(n, ast.Call) and isinstance(n.func, ast.Attribute) and n.func.attr in ("result", "exception")]
    cfg = cfg_of(g)
    loops = [n for n in walk_body(g.node) if isinstance(n, ast.For)]
    ok = False
    for lp in loops:
        # every iteration either observes or keeps
        hdr = cfg.node_of(lp)
        gt = cfg.guards_of(lp, True)
        def acts(n):
            return n.kind == "stmt" and not isinstance(n.stmt, COMPOUND) and any(isinstance(c.func, ast.Attribute) and c.func.attr in ("result", "exception", "append") for c in own_calls(n.stmt))
        okp, _ = cfg.every_path(gt, [hdr], acts, "n")
        ok = ok or okp
    chk.check(ok and bool(obs), "C04.R3", g, None, "observing filter can drop a future without calling result()/exception() on it", site_text=f"{g.qualname}: each future is either kept or observed")


# ------------------------------------------------------------------------------------ R4
def r4_read_paths(chk, repo):
    chk.describe("C04.R4", "find() rejects data with an exception marker or without writing_ended on every read path; check_broken=False only where listed; _can_overwrite equals its specification")
    find = repo.func("StorageFrontend.find", COMMON)
    cfg = cfg_of(find)
    rets = [n for n in cfg.stmt_nodes() if isinstance(n.stmt, ast.Return) and n.stmt.value is not None]
    chk.need(rets, "C04.R4: StorageFrontend.find has no return")
    decisions = [n for n in cfg.stmt_nodes() if isinstance(n.stmt, ast.If) and {"write", "check_broken"} <= {x.id for x in ast.walk(n.stmt.test) if isinstance(x, ast.Name)}]
    chk.check(len(decisions) == 1, "C04.R4", find, None, "cannot find the single `not write and check_broken` decision in find()", site_text="find: one read-path decision")
    if len(decisions) == 1:
        d = decisions[0]
        lits = literals(d.stmt.test, True)
        chk.check(lits == {("write", False), ("check_broken", True)}, "C04.R4", find, d.stmt, "broken-data check is not applied exactly to reads with check_broken (condition changed)", site_text="find: check applies iff not write and check_broken")
        dom = cfg.dominators("n")
        final = [r for r in rets if enclosing(r.stmt, (ast.Try, ast.If)) is None]
        chk.check(bool(final) and all(d in dom[r] for r in final), "C04.R4", find, final[0].stmt if final else None, "a read path of find() returns without passing the broken-data decision", site_text="find: decision dominates the return")
        # the two raises under it; `meta` = the local holding the metadata of the found key
        from ..pattern import find as pfind, pmatch
        md = [(n, b) for n, b in pfind(find.node, "L_meta = self._get_backend(L_bn).get_metadata(L_bk)")]
        chk.check(len(md) == 1, "C04.R4", find, None, "metadata inspected by the broken-data check is not that of the data being returned", site_text="find: meta = get_metadata(backend_key) of the found backend")
        META = md[0][1]["L_meta"] if md else "meta"
        if md:
            BK = md[0][1]["L_bk"]
            final_names = {x.id for r_ in final for x in ast.walk(r_.stmt.value) if isinstance(x, ast.Name)}
            chk.check(BK in final_names, "C04.R4", find, md[0][0], "metadata inspected is not that of the key that is returned", site_text="find: inspected key is the returned key", nontrivial=False)
        dtrue = cfg.guards_of(d.stmt, True)
        expected = {
            "exception": {(f"'exception' in {META}", True)},
            "writing_ended": {(f"'writing_ended' not in {META}", True), ("allow_incomplete", False)},
        }
        for key, want in expected.items():
            hit = False
            for n in cfg.stmt_nodes():
                if isinstance(n.stmt, ast.Raise) and "DataNotAvailable" in norm(n.stmt.exc):
                    inner = [g for g in cfg.dominating_guards(n) if g.test is not None and any(t in dom[g] for t in dtrue) and g not in dtrue]
                    facts = set()
                    for g in inner:
                        facts |= literals(g.test, g.polarity)
                    # an earlier sibling test that raised contributes its negation: ignore those
                    facts = {(t, p) for t, p in facts if not (t == f"'exception' in {META}" and p is False)}
                    if inner and facts == want:
                        hit = True
            chk.check(hit, "C04.R4", find, None, f"find() does not raise DataNotAvailable exactly when the metadata {'has an exception marker' if key == 'exception' else 'lacks writing_ended and incomplete data is not allowed'}",
                      site_text=f"find: raise DataNotAvailable on the {key} test",
                      site={"function": find.qualname, "construct": f"raise on {key}"})
    # check_broken=False call sites
    ALLOWED = {"StorageFrontend.get_metadata": "needed to inspect broken data (and used by _can_overwrite)"}
    n = 0
    for m in repo.modules.values():
        for f in m.functions.values():
            for c in (x for x in walk_body(f.node) if isinstance(x, ast.Call)):
                v = kw(c, "check_broken")
                if v is None:
                    continue
                n += 1
                if isinstance(v, ast.Constant) and v.value is True:
                    chk.ok("C04.R4", f"{f.qualname}: check_broken=True", nontrivial=False)
                    continue
                chk.check(f.qualname in ALLOWED, "C04.R4", f, stmt_of(c), "broken-data check switched off at a call site that is not in the reviewed table", site_text=f"{f.qualname}: check_broken=False ({ALLOWED.get(f.qualname, '')})")
    chk.floor("C04.R4", "check_broken call sites", n, 1)
    # loaders go through find(write=False) with the default check
    ld = repo.func("StorageFrontend.loader", COMMON)
    finds = [c for c in (x for x in walk_body(ld.node) if isinstance(x, ast.Call)) if call_name(c) == "self.find"]
    chk.check(len(finds) == 1 and kw(finds[0], "check_broken") is None and (kw(finds[0], "write") is None or norm(kw(finds[0], "write")) == "False"), "C04.R4", ld, None,
              "StorageFrontend.loader does not look data up through the checked find()", site_text="StorageFrontend.loader: find(write=False) with the broken-data check")
    # _can_overwrite decision table
    co = repo.func("StorageFrontend._can_overwrite", COMMON)
    from ..pattern import local_defined_as
    MD, _a, _b = local_defined_as(co.node, "self.get_metadata(key)")
    chk.check(MD is not None, "C04.R4", co, None, "_can_overwrite does not inspect the metadata of the existing data", site_text="_can_overwrite: metadata = self.get_metadata(key)")
    MD = MD or "metadata"
    rows = 0
    for ov in ("never", "if_broken", "always"):
        for ended in (False, True):
            for exc in (False, True):
                def oracle(text, node, ov=ov, ended=ended, exc=exc):
                    if text.startswith("self.overwrite == "):
                        return text == f"self.overwrite == '{ov}'"
                    if text == f"'writing_ended' in {MD}":
                        return ended
                    if text == f"'writing_ended' not in {MD}":
                        return not ended
                    if text == f"'exception' in {MD}":
                        return exc
                    if text == f"'exception' not in {MD}":
                        return not exc
                    return None
                from ..dtable import run as drun
                out = drun(co.node, oracle)
                want = True if ov == "always" else (False if ov == "never" else (not (ended and not exc)))
                rows += 1
                chk.check(out == ("return", want), "C04.R4", co, None, f"_can_overwrite(overwrite={ov!r}, writing_ended={ended}, exception={exc}) gives {out}, specification says {want}: "
                          + ("complete valid data could be destroyed" if out == ("return", True) else "broken data cannot be repaired by a retry"),
                          site_text=f"_can_overwrite[{ov}, ended={ended}, exception={exc}] = {want}",
                          site={"function": co.qualname, "row": f"{ov}/{ended}/{exc}"})
    chk.exhaustive = True
    # DataDirectory._find: write path guarded by _can_overwrite; temp dir only with allow_incomplete
    df = repo.func("DataDirectory._find", FILES)
    dcfg = cfg_of(df)
    from ..pattern import facts_matching as _fm, find as _pf
    hits = []
    for n in dcfg.stmt_nodes():
        if isinstance(n.stmt, ast.Raise) and "DataExistsError" in norm(n.stmt.exc) and {("write", True), ("self._can_overwrite(key)", False)} <= dcfg.guard_facts(n):
            for e, pol, g, b in _fm(dcfg, n, "L_ex", True):
                if _pf(df.node, f"{b['L_ex']} = os.path.exists(L_dir)"):
                    hits.append(n)
    chk.check(bool(hits), "C04.R4", df, None, "DataDirectory._find(write=True) does not refuse to overwrite existing data that may not be overwritten", site_text="DataDirectory._find: raise DataExistsError if exists and not _can_overwrite")
    ddefs = Defs(df.node)
    n_temp = 0
    for n in dcfg.stmt_nodes():
        if isinstance(n.stmt, ast.Assign) and not isinstance(n.stmt.value, ast.Constant):
            prov = atoms(n.stmt.value)
            for x in ast.walk(n.stmt.value):
                if isinstance(x, ast.Name) and ddefs.single(x.id) is not None:
                    prov |= atoms(ddefs.single(x.id))
            if "str:_temp" in prov:
                n_temp += 1
                chk.check(("allow_incomplete", True) in dcfg.guard_facts(n), "C04.R4", df, n.stmt, "a key for the temporary (incomplete) directory is built without allow_incomplete", site_text="DataDirectory._find: _temp directory only under allow_incomplete")
    chk.floor("C04.R4", "temp-directory lookups in DataDirectory._find", n_temp, 1)


# ------------------------------------------------------------------------------------ R5
def r5_close_in_exception_context(chk, repo):
    chk.describe("C04.R5", "on failure paths savers are closed lexically inside an except/finally, so formatted_exception() is non-empty and the failure marker is written")
    n = 0
    for m in repo.modules.values():
        for f in m.functions.values():
            for c in (x for x in walk_body(f.node) if isinstance(x, ast.Call)):
                if (call_name(c) or "").split(".")[-1] == "kill_spies":
                    n += 1
                    h = enclosing(c, (ast.ExceptHandler,))
                    chk.check(h is not None and enclosing(h, (ast.FunctionDef,)) is f.node, "C04.R5", f, stmt_of(c), "kill_spies() (which closes the savers) is called outside an except block: no exception is active, so the data is marked complete",
                              site_text=f"{f.qualname}: kill_spies() inside `{head(h, 40) if h else '?'}`")
                    if h is not None:
                        names = handler_names(h) or []
                        chk.check("GeneratorExit" not in names, "C04.R5", f, stmt_of(c), "savers closed while only GeneratorExit is active (formatted as an unhelpful marker); expected the RuntimeError wrapper", site_text=f"{f.qualname}: active exception is not a bare GeneratorExit", nontrivial=False)
    chk.floor("C04.R5", "kill_spies call sites", n, 2)
    # Spy.kill -> close ; SaverSpy.close -> saver.close
    spy_kill = repo.func("Spy.kill", POST)
    chk.check(any(call_name(c) == "self.close" for c in calls_in(spy_kill.node)), "C04.R5", spy_kill, None, "Spy.kill does not close the spy", site_text="Spy.kill -> self.close()")
    ks = repo.func("PostOffice.kill_spies", POST)
    chk.check(any((call_name(c) or "").endswith(".kill") for c in calls_in(ks.node)), "C04.R5", ks, None, "kill_spies does not kill the spies", site_text="PostOffice.kill_spies -> spy.kill(reason)")
    sc = repo.func("SaverSpy.close", SINGLE)
    chk.check(any(call_name(c) == "self.saver.close" for c in calls_in(sc.node)), "C04.R5", sc, None, "SaverSpy.close does not close its saver", site_text="SaverSpy.close -> saver.close()")
    # save_from: close calls are in handlers / finally
    sf = repo.func("Saver.save_from", COMMON)
    for c in (x for x in walk_body(sf.node) if isinstance(x, ast.Call)):
        if call_name(c) == "self.close":
            st = stmt_of(c)
            t = enclosing(st, (ast.Try,))
            inside = False
            p = st
            while p is not None and p is not sf.node:
                par = getattr(p, "_parent", None)
                if isinstance(par, ast.ExceptHandler):
                    inside = True
                if isinstance(par, ast.Try) and any(p is x for x in par.finalbody):
                    inside = True
                p = par
            chk.check(inside, "C04.R5", sf, st, "Saver.save_from closes the saver outside except/finally: a failure would not be recorded in the metadata", site_text="Saver.save_from: close() in except/finally")
    # the saver must be closed on every exit of save_from
    cfg = cfg_of(sf)
    closes = lambda n: n.kind == "stmt" and not isinstance(n.stmt, COMPOUND) and node_calls(n, lambda c, nm: nm == "self.close")
    guard_closed = lambda n: n.kind == "guard" and n.test is not None and ("self.closed", True) in literals(n.test, n.polarity)
    tries = [t for t in walk_body(sf.node) if isinstance(t, ast.Try) and t.finalbody]
    chk.need(tries, "C04.R5: Saver.save_from has no try/finally any more")
    starts = cfg.nodes_of(tries[0].body[0])
    ok, path = cfg.every_path(starts, [cfg.exit_return, cfg.exit_raise], lambda n: closes(n) or guard_closed(n), "nrx")
    chk.check(ok, "C04.R5", sf, None, "Saver.save_from can exit (normally or by exception) without closing the saver: the temp directory is left without markers", site_text="Saver.save_from: every exit passes close() (or finds it closed)")


def r2b_formatted_exception(chk, repo):
    """Saver.close records a failure iff formatted_exception() is non-empty: it may be empty only when
    nothing (or a StopIteration) is being handled - not for KeyboardInterrupt / SystemExit /
    GeneratorExit, which interrupt a save just as well."""
    f = repo.func("formatted_exception", "strax/utils.py")
    cfg = cfg_of(f)
    empties = [n for n in cfg.stmt_nodes() if isinstance(n.stmt, ast.Return) and isinstance(n.stmt.value, ast.Constant) and n.stmt.value.value == ""]
    chk.check(len(empties) >= 1, "C04.R2", f, None, "formatted_exception never returns an empty string", site_text="formatted_exception: empty for no exception")
    for n in empties:
        gs = [g for g in cfg.dominating_guards(n) if g.test is not None and g.owner is enclosing(n.stmt, (ast.If,))]
        names = {x.id for g in gs for x in ast.walk(g.test) if isinstance(x, ast.Name)} | {x.attr for g in gs for x in ast.walk(g.test) if isinstance(x, ast.Attribute)}
        broad = names & {"Exception", "BaseException", "KeyboardInterrupt", "SystemExit", "GeneratorExit"}
        chk.check(not broad, "C04.R2", f, n.stmt, f"formatted_exception returns an empty string depending on {sorted(broad)}: an interrupted save (Ctrl-C, sys.exit, generator closed) is then finalised without a failure marker and the partial data is visible as valid", site_text="formatted_exception: empty only for no exception / StopIteration", site={"function": f.qualname, "rule": "only None and StopIteration are not recorded"})


def r3b_inlined_savers(chk, repo):
    """Savers inlined into a multiprocess source plugin write inside the compute futures; cleanup()
    must look at those futures before it closes the savers as complete."""
    f = repo.func("ParallelSourcePlugin.cleanup", "strax/plugins/parrallel_source_plugin.py")
    cfg = cfg_of(f)
    WF = f.params[1]
    closes = [n for n in cfg.stmt_nodes() if not isinstance(n.stmt, COMPOUND) and node_calls(n, lambda c, nm: nm.endswith(".close") and any(k.arg == "wait_for" for k in c.keywords))]
    chk.check(len(closes) >= 1, "C04.R3", f, None, "ParallelSourcePlugin.cleanup no longer closes the inlined savers", site_text="ParallelSourcePlugin.cleanup: closes the inlined savers")

    def observes(n):
        return n.kind == "stmt" and isinstance(n.stmt, ast.For) and norm(n.stmt.iter) == WF and any(isinstance(c.func, ast.Attribute) and c.func.attr in ("result", "exception") for st in n.stmt.body for c in calls_in(st))

    for n in closes:
        if enclosing(n.stmt, (ast.ExceptHandler,)) is not None:
            chk.ok("C04.R3", "ParallelSourcePlugin.cleanup: savers closed inside the failure handler (exception marker recorded)")
            continue
        ok, _p = cfg.every_path([cfg.entry], [n], observes, "n")
        chk.check(ok, "C04.R3", f, n.stmt, "the inlined savers are closed as complete without the outcome of the computations (which contain their writes) having been looked at: a chunk write that failed in a worker process leaves data that is reported as stored with a chunk missing",
                  site_text="ParallelSourcePlugin.cleanup: futures observed (result()) before the normal-path close", site={"function": f.qualname, "rule": "futures observed before close"})


# ------------------------------------------------------------------------------------ R6
def failure_recorded(chk, repo, rule):
    sf = repo.func("Saver.save_from", COMMON)
    cfg = cfg_of(sf)
    hs = catch_all_handlers(sf.node)
    chk.check(len(hs) >= 1, rule, sf, None, "Saver.save_from has no handler for failures of save()", site_text="Saver.save_from: catch-all handler present")
    for h in hs:
        body = handler_body_nodes(cfg, h)
        rec = [n for n in body if n.kind == "stmt" and isinstance(n.stmt, ast.Assign) and any(norm(t) == "self.got_exception" for t in n.stmt.targets) and norm(n.stmt.value) == h.name]
        chk.check(bool(rec), rule, sf, h, "caught exception is not recorded in got_exception (the processor cannot report the failed save)", site_text="Saver.save_from: got_exception = e")
        hentry = cfg.nodes_of(h)
        outside = {m for n in list(body) + hentry for m, k in cfg.succ[n] if m not in body and m not in hentry}
        already = lambda n: n.kind == "guard" and n.test is not None and ("self.got_exception is None", False) in literals(n.test, n.polarity)
        okr, _ = cfg.every_path(hentry, outside, lambda n: n in rec or already(n), "nrx")
        chk.check(bool(rec) and okr, rule, sf, h, "the handler can be left (for instance by the exception that source.throw() re-raises) before the failure is recorded in got_exception: the processor's final saver check sees nothing", site_text="Saver.save_from: got_exception recorded on every way out of the handler", site={"function": sf.qualname, "rule": "recorded before anything in the handler can raise"})
        ok, _ = handler_paths_pass(cfg, h, lambda n: False, "n")
        chk.check(ok, rule, sf, h, "handler can complete normally: the failed save is not re-raised", site_text="Saver.save_from: handler always raises")


    # a failure of close() itself on the way out (final metadata write, final rename) is recorded too
    fins = [t for t in walk_body(sf.node) if isinstance(t, ast.Try) and t.finalbody]
    closes = [c for t in fins for st in t.finalbody for c in calls_in(st) if call_name(c) == "self.close"]
    chk.check(bool(closes), rule, sf, None, "Saver.save_from no longer closes the saver in a finally block", site_text="Saver.save_from: close() in finally")
    for c in closes:
        okc = False
        cur = stmt_of(c)
        t = enclosing(cur, (ast.Try,))
        while t is not None and t not in fins:
            if any(cur is x or any(cur is y for y in ast.walk(x)) for x in t.body):
                for h in t.handlers:
                    if h.type is None or norm(h.type) in ("Exception", "BaseException"):
                        stores = [x for x in ast.walk(h) if isinstance(x, ast.Assign) and any(norm(tg) == "self.got_exception" for tg in x.targets) and h.name and norm(x.value) == h.name]
                        ends = h.body and isinstance(h.body[-1], ast.Raise)
                        if stores and ends:
                            okc = True
            t = enclosing(t, (ast.Try,))
        chk.check(okc, rule, sf, stmt_of(c), "a failure of close() on the way out of save_from (final metadata write, rename of the temporary directory) leaves the saver thread without being recorded in got_exception: the processor's final check sees nothing and the failed save is reported as a success",
                  site_text="Saver.save_from: close() in finally is wrapped - failure recorded, then re-raised", site={"function": sf.qualname, "rule": "close failure recorded"})


def r6_failed_save(chk, repo):
    chk.describe("C04.R6", "a failing save is recorded on the saver and re-raised; a closed saver refuses further chunks")
    failure_recorded(chk, repo, "C04.R6")
    ads = repo.func("Context._add_saver", "strax/context.py")
    hs_ = [h for t in walk_body(ads.node) if isinstance(t, ast.Try) for h in t.handlers]
    chk.check(len(hs_) >= 1, "C04.R6", ads, None, "Context._add_saver no longer skips frontends that cannot save", site_text="_add_saver: except DataNotAvailable")
    for h in hs_:
        names = handler_names(h)
        swallow = not any(isinstance(x, ast.Raise) for x in ast.walk(h))
        chk.check(not swallow or (names is not None and set(n_.split(".")[-1] for n_ in names) <= {"DataNotAvailable"}), "C04.R6", ads, h, f"_add_saver swallows {sorted(names) if names else 'every exception'} while a saver is being created: an I/O error at that point (temp directory, first metadata write) silently drops the saver, nothing is stored and the request reports success",
                  site_text="_add_saver: only DataNotAvailable (frontend cannot save) is skipped", site={"function": ads.qualname, "rule": "saver construction failures surface"})
    sv = repo.func("Saver.save", COMMON)
    scfg = cfg_of(sv)
    hits = [n for n in scfg.stmt_nodes() if isinstance(n.stmt, ast.Raise) and ("self.closed", True) in scfg.guard_facts(n)]
    chk.check(bool(hits), "C04.R6", sv, None, "save() accepts chunks after the saver was closed (they would be lost silently)", site_text="Saver.save: raises when closed")
    cl = repo.func("Saver.close", COMMON)
    ccfg = cfg_of(cl)
    hits = [n for n in ccfg.stmt_nodes() if isinstance(n.stmt, ast.Raise) and ("self.closed", True) in ccfg.guard_facts(n)]
    chk.check(bool(hits), "C04.R6", cl, None, "double close is not rejected", site_text="Saver.close: raises when already closed", nontrivial=False)


WITNESSES = [
    W("interrupts are not recorded as failures", "C04.R2", "strax/utils.py",
      "if exc_info[0] in [None, StopIteration]:", "if exc_info[0] is None or not issubclass(exc_info[0], Exception) or exc_info[0] is StopIteration:"),
    W("inlined savers closed without looking at the futures (the original defect)", "C04.R3", "strax/plugins/parrallel_source_plugin.py",
      "for f in wait_for:\n                f.result()", "pass"),
    W("I/O errors while creating a saver are skipped", "C04.R6", "strax/context.py",
      "except strax.DataNotAvailable:\n                # This frontend cannot save. Too bad.", "except (strax.DataNotAvailable, OSError):\n                # This frontend cannot save. Too bad."),
    W("close failure not recorded (the original defect)", "C04.R6", COMMON,
      "try:\n                    self.close(wait_for=pending)\n                except Exception as e:\n                    # Closing (last metadata, final rename) can fail too:\n                    # log it for the final check, unless we are failing already\n                    if self.got_exception is None:\n                        self.got_exception = e\n                    raise",
      "self.close(wait_for=pending)"),
    W("close failure recorded but swallowed", "C04.R6", COMMON,
      "if self.got_exception is None:\n                        self.got_exception = e\n                    raise\n", "if self.got_exception is None:\n                        self.got_exception = e\n"),
    W("failure recorded only after throwing it back", "C04.R6", COMMON,
      "self.got_exception = e\n            # Throw the exception back into the mailbox\n            # (hoping that it is still listening...)\n            source.throw(e)",
      "source.throw(e)\n            self.got_exception = e"),
    W("stale temp directory reused", "C04.R1", FILES,
      "shutil.rmtree(self.tempdirname)\n        os.makedirs(self.tempdirname)", "pass\n        os.makedirs(self.tempdirname, exist_ok=True)"),
    W("write a chunk under the final directory", "C04.R1", FILES,
      "fn = os.path.join(self.tempdirname, filename)", "fn = os.path.join(self.dirname, filename)"),
    W("rename before the final metadata flush", "C04.R1", FILES,
      "self._flush_metadata()\n\n        os.rename(self.tempdirname, self.dirname)",
      "os.rename(self.tempdirname, self.dirname)\n        self._flush_metadata()"),
    W("save_file renames inside the with block", "C04.R1", IO,
      "result = _save_file(write_file, data, compressor)\n        os.rename(temp_fn, final_fn)",
      "result = _save_file(write_file, data, compressor)\n            os.rename(temp_fn, final_fn)"),
    W("save_file writes the final name directly", "C04.R1", IO,
      "with open(temp_fn, mode=\"wb\") as write_file:", "with open(final_fn, mode=\"wb\") as write_file:"),
    W("per-chunk metadata json written to the final dir", "C04.R1", FILES,
      'fn = f"{self.tempdirname}/metadata_{filename}.json"', 'fn = f"{self.dirname}/metadata_{filename}.json"'),
    W("exception marker stored after _close", "C04.R2", COMMON,
      "exc_info = strax.formatted_exception()\n        if exc_info:\n            self.md[\"exception\"] = exc_info\n",
      "exc_info = None\n"),
    W("writing_ended stored after publication", "C04.R2", COMMON,
      "self.md[\"writing_ended\"] = time.time()\n\n        self._close()",
      "self._close()\n        self.md[\"writing_ended\"] = time.time()"),
    W("drop completed futures unobserved (the original defect)", "C04.R3", COMMON,
      "pending = self._check_done(pending)\n                    if new_f is not None:",
      "pending = [f for f in pending if not f.done()]\n                    if new_f is not None:"),
    W("no final observation before close", "C04.R3", COMMON,
      "done, _ = wait(pending, timeout=self.timeout)\n            pending = self._check_done(pending)\n",
      "pass\n"),
    W("observer forgets to call result", "C04.R3", COMMON,
      "if f.done():\n                f.result()\n            else:", "if f.done():\n                pass\n            else:"),
    W("close without waiting", "C04.R3", COMMON,
      "if not self.closed:\n                try:\n                    self.close(wait_for=pending)", "if not self.closed:\n                try:\n                    self.close()"),
    W("drop the exception-marker test in find", "C04.R4", COMMON,
      "if \"exception\" in meta:\n                exc = meta[\"exception\"]\n                raise DataNotAvailable(\n                    f\"Data in {backend_name} {backend_key} corrupted due to \"\n                    f\"exception during writing: {exc}.\"\n                )",
      "pass"),
    W("writing_ended test only when fuzzy", "C04.R4", COMMON,
      "if \"writing_ended\" not in meta and not allow_incomplete:", "if \"writing_ended\" not in meta and not allow_incomplete and fuzzy_for:"),
    W("loader skips the broken check", "C04.R4", COMMON,
      "backend, backend_key = self.find(\n            key,\n            write=False,\n            allow_incomplete=allow_incomplete,\n            fuzzy_for=fuzzy_for,\n            fuzzy_for_options=fuzzy_for_options,\n        )\n        return self._get_backend(backend).loader(",
      "backend, backend_key = self.find(\n            key,\n            write=False,\n            check_broken=False,\n            allow_incomplete=allow_incomplete,\n            fuzzy_for=fuzzy_for,\n            fuzzy_for_options=fuzzy_for_options,\n        )\n        return self._get_backend(backend).loader("),
    W("if_broken overwrites complete data", "C04.R4", COMMON,
      "return not (\"writing_ended\" in metadata and \"exception\" not in metadata)",
      "return not (\"writing_ended\" in metadata and \"exception\" in metadata)"),
    W("never behaves like always", "C04.R4", COMMON,
      "return not (\"writing_ended\" in metadata and \"exception\" not in metadata)\n        return False",
      "return not (\"writing_ended\" in metadata and \"exception\" not in metadata)\n        return True"),
    W("savers closed under a bare GeneratorExit", "C04.R5", SINGLE,
      "try:\n                raise RuntimeError(\"Exception in caller, see log for details\")\n            except RuntimeError:\n                self.post_office.kill_spies()",
      "self.post_office.kill_spies()"),
    W("kill_spies outside any handler", "C04.R5", SINGLE,
      "try:\n            yield from final_generator\n",
      "self.post_office.kill_spies()\n        try:\n            yield from final_generator\n"),
    W("Spy.kill does nothing", "C04.R5", POST,
      '"""Called when closing the spy prematurely, e.g. during exception handling."""\n        self.close()',
      '"""Called when closing the spy prematurely, e.g. during exception handling."""\n        pass'),
    W("save_from leaves the saver open on failure", "C04.R5", COMMON,
      "finally:\n            if not self.closed:\n                try:\n                    self.close(wait_for=pending)", "finally:\n            if False:\n                try:\n                    self.close(wait_for=pending)"),
    W("got_exception not recorded", "C04.R6", COMMON,
      "self.got_exception = e\n", "pass\n"),
    W("save accepts chunks after close", "C04.R6", COMMON,
      "if self.closed:\n            raise RuntimeError(f\"Attmpt to save to {self.md} saver, which is already closed!\")",
      "pass"),
]
