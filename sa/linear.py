"""Linear forms: read `int(end - 2 * w[1] - 1)` as {end: 1, w[1]: -2, 1: -1}.

Used for rules about *signs*: a limit must lie at least one window before a boundary, whatever the
window is.  Names are inlined through their reaching definitions by the caller (pass `resolve`)."""

import ast

from .index import AnalysisError, norm

PASS_THROUGH = {"int", "float", "np.int64", "round"}


def linear(expr, resolve=None, depth=6):
    """{symbol text: coefficient, "1": constant}.  Symbols are the normalised text of maximal
    non-arithmetic sub-expressions.  `resolve(name_node)` may return an expression to inline."""

    def add(a, b, k=1):
        out = dict(a)
        for s, c in b.items():
            out[s] = out.get(s, 0) + k * c
        return {s: c for s, c in out.items() if c != 0 or s == "1"}

    def rec(e, d):
        if isinstance(e, ast.Constant) and isinstance(e.value, (int, float)) and not isinstance(e.value, bool):
            return {"1": e.value}
        if isinstance(e, ast.UnaryOp) and isinstance(e.op, ast.USub):
            return add({}, rec(e.operand, d), -1)
        if isinstance(e, ast.UnaryOp) and isinstance(e.op, ast.UAdd):
            return rec(e.operand, d)
        if isinstance(e, ast.BinOp) and isinstance(e.op, ast.Add):
            return add(rec(e.left, d), rec(e.right, d))
        if isinstance(e, ast.BinOp) and isinstance(e.op, ast.Sub):
            return add(rec(e.left, d), rec(e.right, d), -1)
        if isinstance(e, ast.BinOp) and isinstance(e.op, ast.Mult):
            l, r = rec(e.left, d), rec(e.right, d)
            if set(l) <= {"1"}:
                return add({}, r, l.get("1", 0))
            if set(r) <= {"1"}:
                return add({}, l, r.get("1", 0))
            raise AnalysisError(f"not linear: {norm(e)}")
        if isinstance(e, ast.Call) and len(e.args) == 1 and not e.keywords:
            fn = norm(e.func)
            if fn in PASS_THROUGH:
                return rec(e.args[0], d)
        if isinstance(e, ast.Name) and resolve is not None and d > 0:
            v = resolve(e)
            if v is not None:
                return rec(v, d - 1)
        return {norm(e): 1}

    return rec(expr, depth)
