"""Statement-level control-flow graph with guard pseudo-nodes.

Edge kinds:
  'n'  normal control flow
  'r'  explicit `raise` statement transferring control (to a handler or to the raise exit)
  'x'  implicit exception: any statement may raise (to the innermost handlers / raise exit)

Node kinds:
  'entry', 'return' (normal exit: explicit return or falling off the end), 'raise' (exceptional
  exit), 'stmt' (simple statement or header of a compound one), 'guard' (true/false edge of an
  If/While test, or has-item/exhausted edge of a For), 'handler' (entry of an except clause),
  'join' (structural no-op).

`finally` bodies are duplicated per continuation (normal / return / raise / break / continue), so an
AST statement may map to several CFG nodes: use `nodes_of(stmt)`.
"""

import ast

from .index import AnalysisError, N, norm, head

CATCH_ALL = {"Exception", "BaseException"}

_RAISING = (ast.Call, ast.Subscript, ast.BinOp, ast.Yield, ast.YieldFrom, ast.Await, ast.Starred)


def may_raise(exprs):
    """Can evaluating these expressions raise?  Plain names, attributes, constants, boolean
    operators and comparisons of those are taken not to (an over-approximation would only add
    infeasible exception paths)."""
    for e in exprs:
        if e is None:
            continue
        for x in ast.walk(e):
            if isinstance(x, _RAISING):
                return True
    return False


class Node:
    __slots__ = ("id", "kind", "stmt", "test", "polarity", "owner", "label")

    def __init__(self, id, kind, stmt=None, test=None, polarity=None, owner=None, label=""):
        self.id = id
        self.kind = kind
        self.stmt = stmt
        self.test = test
        self.polarity = polarity
        self.owner = owner
        self.label = label

    @property
    def lineno(self):
        s = self.stmt or self.owner
        return getattr(s, "lineno", 0)

    def __repr__(self):
        if self.kind == "stmt":
            return f"<{self.id}:{head(self.stmt, 60)}>"
        if self.kind == "guard":
            t = norm(self.test) if self.test is not None else "<iter>"
            return f"<{self.id}:guard {'+' if self.polarity else '-'} {t[:60]}>"
        return f"<{self.id}:{self.kind}{' ' + self.label if self.label else ''}>"


def handler_names(h):
    """Names an except clause catches; None for a bare except."""
    if h.type is None:
        return None
    t = h.type
    elts = t.elts if isinstance(t, ast.Tuple) else [t]
    out = []
    for e in elts:
        if isinstance(e, ast.Attribute):
            out.append(e.attr)
        elif isinstance(e, ast.Name):
            out.append(e.id)
        else:
            out.append(norm(e))
    return out


def is_catch_all(h):
    names = handler_names(h)
    return names is None or any(n in CATCH_ALL for n in names)


def raised_name(stmt):
    """Class name raised by a `raise X(...)` / `raise X` statement, or None (re-raise/unknown)."""
    e = stmt.exc
    if e is None:
        return None
    if isinstance(e, ast.Call):
        e = e.func
    if isinstance(e, ast.Attribute):
        return e.attr
    if isinstance(e, ast.Name):
        return e.id
    return None


class _Ctx:
    """Where abrupt completions go, at some point in the function."""

    def __init__(self, ret, exc, brk=None, cont=None, handlers=None):
        self.ret = ret  # callable(node, kind) connecting a `return`
        self.exc = exc  # callable(node, kind, raised) connecting a raise / implicit exception
        self.brk = brk
        self.cont = cont


class CFG:
    def __init__(self, fnode):
        self.fnode = fnode
        self.nodes = []
        self.succ = {}
        self.pred = {}
        self._of = {}
        self.entry = self._new("entry")
        self.exit_return = self._new("return")
        self.exit_raise = self._new("raise")
        body = fnode.body if isinstance(fnode.body, list) else [ast.Expr(fnode.body)]
        ctx = _Ctx(
            ret=lambda n, k="n": self._edge(n, self.exit_return, k),
            exc=lambda n, k, raised=None: self._edge(n, self.exit_raise, k),
        )
        outs = self._block(body, [self.entry], ctx)
        for o in outs:
            self._edge(o, self.exit_return, "n")
        self._dom_cache = {}
        self._pdom_cache = {}

    # -------------------------------------------------------------- construction
    def _new(self, kind, **kw):
        n = Node(len(self.nodes), kind, **kw)
        self.nodes.append(n)
        self.succ[n] = []
        self.pred[n] = []
        if kind == "stmt" and kw.get("stmt") is not None:
            self._of.setdefault(id(kw["stmt"]), []).append(n)
        return n

    def _edge(self, a, b, kind="n"):
        if (b, kind) not in self.succ[a]:
            self.succ[a].append((b, kind))
            self.pred[b].append((a, kind))

    def _connect(self, preds, node):
        for p in preds:
            self._edge(p, node, "n")

    def _block(self, stmts, preds, ctx):
        for st in stmts:
            preds = self._stmt(st, preds, ctx)
        return preds

    def _stmt(self, st, preds, ctx):
        if isinstance(st, (ast.FunctionDef, ast.AsyncFunctionDef, ast.ClassDef)):
            n = self._new("stmt", stmt=st)
            self._connect(preds, n)
            return [n]
        if isinstance(st, ast.If):
            h = self._new("stmt", stmt=st)
            self._connect(preds, h)
            if may_raise([st.test]):
                ctx.exc(h, "x")
            gt = self._new("guard", test=st.test, polarity=True, owner=st)
            gf = self._new("guard", test=st.test, polarity=False, owner=st)
            self._edge(h, gt)
            self._edge(h, gf)
            out = self._block(st.body, [gt], ctx)
            out += self._block(st.orelse, [gf], ctx)
            return out
        if isinstance(st, (ast.While, ast.For, ast.AsyncFor)):
            h = self._new("stmt", stmt=st)
            self._connect(preds, h)
            if not isinstance(st, ast.While) or may_raise([st.test]):
                ctx.exc(h, "x")
            is_while = isinstance(st, ast.While)
            test = st.test if is_while else None
            gt = self._new("guard", test=test, polarity=True, owner=st)
            self._edge(h, gt)
            infinite = (
                is_while and isinstance(st.test, ast.Constant) and bool(st.test.value) is True
            )
            breaks = []
            lctx = _Ctx(
                ret=ctx.ret,
                exc=ctx.exc,
                brk=lambda n: breaks.append(n),
                cont=lambda n: self._edge(n, h),
            )
            body_out = self._block(st.body, [gt], lctx)
            for o in body_out:
                self._edge(o, h)
            out = []
            if not infinite:
                gf = self._new("guard", test=test, polarity=False, owner=st)
                self._edge(h, gf)
                out = self._block(st.orelse, [gf], ctx)
            return out + breaks
        if isinstance(st, (ast.With, ast.AsyncWith)):
            h = self._new("stmt", stmt=st)
            self._connect(preds, h)
            ctx.exc(h, "x")
            return self._block(st.body, [h], ctx)
        if isinstance(st, ast.Try) or (hasattr(ast, "TryStar") and isinstance(st, ast.TryStar)):
            return self._try(st, preds, ctx)
        if isinstance(st, ast.Match):
            raise AnalysisError(f"match statement at line {st.lineno} not supported by the CFG")
        # simple statements
        n = self._new("stmt", stmt=st)
        self._connect(preds, n)
        if isinstance(st, ast.Return):
            if st.value is not None and may_raise([st.value]):
                ctx.exc(n, "x")
            ctx.ret(n)
            return []
        if isinstance(st, ast.Raise):
            ctx.exc(n, "r", raised_name(st))
            return []
        if isinstance(st, ast.Break):
            if ctx.brk is None:
                raise AnalysisError("break outside loop")
            ctx.brk(n)
            return []
        if isinstance(st, ast.Continue):
            ctx.cont(n)
            return []
        is_doc = isinstance(st, ast.Expr) and isinstance(st.value, ast.Constant)
        if not is_doc and not isinstance(
            st, (ast.Pass, ast.Global, ast.Nonlocal, ast.Import, ast.ImportFrom)
        ):
            has_yield = any(isinstance(x, (ast.Yield, ast.YieldFrom)) for x in ast.walk(st))
            if may_raise([st]) or isinstance(st, (ast.Delete, ast.Assert, ast.AugAssign)):
                ctx.exc(n, "x", "GeneratorExit" if has_yield else None)
        return [n]

    def _try(self, st, preds, ctx):
        has_final = bool(st.finalbody)
        final_copies = {}

        def through_finally(tag, cont):
            """Return a function(node, kind, raised) routing an abrupt completion through a copy
            of the finally body (one copy per continuation and edge kind) and then to `cont`."""
            if not has_final:
                return cont

            def route(n, kind="n", raised=None):
                key = (tag, kind)
                if key not in final_copies:
                    j = self._new("join", label=f"finally[{tag}/{kind}]", owner=st)
                    final_copies[key] = j
                    outs = self._block(st.finalbody, [j], ctx)
                    for o in outs:
                        cont(o, kind, None)
                self._edge(n, final_copies[key], kind)

            return route

        outer_ret = through_finally("return", lambda n, k="n", r=None: ctx.ret(n, k))
        outer_exc = through_finally("raise", lambda n, k="n", r=None: ctx.exc(n, k, r))
        outer_brk = through_finally("break", lambda n, k="n", r=None: ctx.brk(n)) if ctx.brk else None
        outer_cont = (
            through_finally("continue", lambda n, k="n", r=None: ctx.cont(n)) if ctx.cont else None
        )

        hentries = []
        for h in st.handlers:
            hn = self._new("handler", owner=h, stmt=None, label=head(h, 40))
            self._of.setdefault(id(h), []).append(hn)
            hentries.append((h, hn))
        any_catch_all = any(is_catch_all(h) for h in st.handlers)

        def body_exc(n, kind, raised=None):
            if kind == "r" and raised is not None:
                exact = [hn for h, hn in hentries if (handler_names(h) or []) and raised in handler_names(h)]
                if exact:
                    self._edge(n, exact[0], "r")
                    return
            for h, hn in hentries:
                self._edge(n, hn, kind)
            catches_base = any(
                handler_names(h) is None or "BaseException" in handler_names(h)
                or "GeneratorExit" in handler_names(h) for h in st.handlers
            )
            if not any_catch_all or (raised == "GeneratorExit" and not catches_base):
                outer_exc(n, kind, raised)

        bctx = _Ctx(
            ret=lambda n, k="n": outer_ret(n, k),
            exc=body_exc,
            brk=(lambda n: outer_brk(n)) if outer_brk else None,
            cont=(lambda n: outer_cont(n)) if outer_cont else None,
        )
        body_out = self._block(st.body, preds, bctx)
        # else / handlers run outside the protection of this try's handlers
        hctx = _Ctx(
            ret=lambda n, k="n": outer_ret(n, k),
            exc=lambda n, kind, raised=None: outer_exc(n, kind, raised),
            brk=(lambda n: outer_brk(n)) if outer_brk else None,
            cont=(lambda n: outer_cont(n)) if outer_cont else None,
        )
        outs = self._block(st.orelse, body_out, hctx)
        for h, hn in hentries:
            outs += self._block(h.body, [hn], hctx)
        if has_final:
            j = self._new("join", label="finally[normal]", owner=st)
            self._connect(outs, j)
            outs = self._block(st.finalbody, [j], ctx)
        return outs

    # -------------------------------------------------------------- queries
    def nodes_of(self, stmt):
        """CFG nodes of an AST statement (or ExceptHandler)."""
        return list(self._of.get(id(stmt), []))

    def node_of(self, stmt):
        ns = self.nodes_of(stmt)
        if not ns:
            raise AnalysisError(f"statement not in CFG: {head(stmt)}")
        return ns[0]

    def guards_of(self, stmt, polarity):
        return [n for n in self.nodes if n.kind == "guard" and n.owner is stmt and n.polarity is polarity]

    def stmt_nodes(self):
        return [n for n in self.nodes if n.kind == "stmt"]

    def successors(self, n, kinds="n"):
        return [m for m, k in self.succ[n] if k in kinds]

    def predecessors(self, n, kinds="n"):
        return [m for m, k in self.pred[n] if k in kinds]

    def reachable(self, srcs, kinds="n", avoid=None):
        """Nodes reachable from srcs following `kinds`, never entering nodes in `avoid`
        (a set or predicate).  srcs themselves are included (even if in avoid)."""
        if avoid is None:
            blocked = lambda n: False
        elif callable(avoid):
            blocked = avoid
        else:
            blocked = lambda n: n in avoid
        seen = set(srcs)
        stack = list(srcs)
        while stack:
            n = stack.pop()
            for m, k in self.succ[n]:
                if k in kinds and m not in seen and not blocked(m):
                    seen.add(m)
                    stack.append(m)
        return seen

    def reaching(self, dsts, kinds="n", avoid=None):
        """Nodes from which some dst is reachable (backward)."""
        if avoid is None:
            blocked = lambda n: False
        elif callable(avoid):
            blocked = avoid
        else:
            blocked = lambda n: n in avoid
        seen = set(dsts)
        stack = list(dsts)
        while stack:
            n = stack.pop()
            for m, k in self.pred[n]:
                if k in kinds and m not in seen and not blocked(m):
                    seen.add(m)
                    stack.append(m)
        return seen

    def live_nodes(self, kinds="nrx"):
        return self.reachable([self.entry], kinds)

    def dominators(self, kinds="n"):
        """node -> set of dominators (including itself), over edges of `kinds` from entry."""
        if kinds in self._dom_cache:
            return self._dom_cache[kinds]
        live = self.reachable([self.entry], kinds)
        order = [n for n in self.nodes if n in live]
        dom = {n: set(order) for n in order}
        dom[self.entry] = {self.entry}
        changed = True
        while changed:
            changed = False
            for n in order:
                if n is self.entry:
                    continue
                ps = [p for p, k in self.pred[n] if k in kinds and p in live]
                if not ps:
                    new = {n}
                else:
                    new = set.intersection(*(dom[p] for p in ps)) | {n}
                if new != dom[n]:
                    dom[n] = new
                    changed = True
        self._dom_cache[kinds] = dom
        return dom

    def postdominators(self, kinds="n", exits=None):
        """node -> set of post-dominators w.r.t. a virtual exit joining `exits`
        (default: the normal return exit)."""
        exits = tuple(exits) if exits is not None else (self.exit_return,)
        key = (kinds, exits)
        if key in self._pdom_cache:
            return self._pdom_cache[key]
        can = self.reaching(list(exits), kinds)
        order = [n for n in self.nodes if n in can]
        pdom = {n: set(order) for n in order}
        for e in exits:
            pdom[e] = {e}
        changed = True
        while changed:
            changed = False
            for n in reversed(order):
                if n in exits:
                    continue
                ss = [s for s, k in self.succ[n] if k in kinds and s in can]
                if not ss:
                    new = {n}
                else:
                    new = set.intersection(*(pdom[s] for s in ss)) | {n}
                if new != pdom[n]:
                    pdom[n] = new
                    changed = True
        self._pdom_cache[key] = pdom
        return pdom

    def dominated_by(self, node, pred, kinds="n"):
        """Dominators of node (excluding itself) that satisfy pred."""
        dom = self.dominators(kinds)
        if node not in dom:
            # code that is only reachable through an exception edge (handler / finally bodies)
            dom = self.dominators("nrx")
            if node not in dom:
                return []
        return [d for d in dom[node] if d is not node and pred(d)]

    def every_path(self, srcs, dsts, through, kinds="n"):
        """True iff every path (over `kinds`) from any src to any dst passes a node satisfying
        `through` strictly after the src.  Returns (ok, witness_path or None)."""
        dsts = set(dsts)
        for s in srcs:
            prev = {s: None}
            stack = [s]
            while stack:
                n = stack.pop()
                for m, k in self.succ[n]:
                    if k not in kinds or m in prev:
                        continue
                    if through(m):
                        continue
                    prev[m] = n
                    if m in dsts:
                        path = [m]
                        while prev[path[-1]] is not None:
                            path.append(prev[path[-1]])
                        return False, list(reversed(path))
                    stack.append(m)
        return True, None

    # -------------------------------------------------------------- facts
    def guard_facts(self, node, kinds="n"):
        """Literal facts (text, polarity) known to hold at `node`, from dominating guard nodes.
        Facts are about the moment the guard was evaluated (no kill analysis): callers use them for
        tests of parameters and attributes that are not reassigned in between."""
        facts = FactSet()
        for g in self.dominated_by(node, lambda d: d.kind == "guard" and d.test is not None, kinds):
            facts |= literals(g.test, g.polarity)
        if node.kind == "guard" and node.test is not None:
            facts |= literals(node.test, node.polarity)
        return facts

    def guard_literals(self, node, kinds="n"):
        """[(expr node, polarity, guard node)] for all literals of guards dominating node."""
        out = []
        for g in self.dominating_guards(node, kinds):
            if g.test is not None:
                for e, pol in literal_nodes(g.test, g.polarity):
                    out.append((e, pol, g))
        return out

    def dominating_guards(self, node, kinds="n"):
        gs = self.dominated_by(node, lambda d: d.kind == "guard", kinds)
        if node.kind == "guard":
            gs.append(node)
        return sorted(gs, key=lambda g: g.id)


class FactSet(set):
    """Set of (canonical text, polarity); membership tests canonicalise the probe, so rules may
    write `("self.start > self.end", True) in facts` in any equivalent spelling."""

    def __contains__(self, item):
        if set.__contains__(self, item):
            return True
        try:
            t, p = item
            return set.__contains__(self, (N(t), p))
        except Exception:
            return False

    def __le__(self, other):
        return all(x in other for x in self)


def literals(test, polarity):
    """Decompose a test known to be `polarity` into literal facts {(text, bool)}."""
    out = FactSet()

    def rec(e, pol):
        if isinstance(e, ast.UnaryOp) and isinstance(e.op, ast.Not):
            rec(e.operand, not pol)
            return
        if isinstance(e, ast.BoolOp):
            conj = isinstance(e.op, ast.And)
            if (conj and pol) or (not conj and not pol):
                for v in e.values:
                    rec(v, pol)
                return
        out.add((norm(e), pol))

    rec(test, polarity)
    return out


def literal_nodes(test, polarity):
    """Like literals(), but returns [(expr node, polarity)]."""
    out = []

    def rec(e, pol):
        if isinstance(e, ast.UnaryOp) and isinstance(e.op, ast.Not):
            rec(e.operand, not pol)
            return
        if isinstance(e, ast.BoolOp):
            conj = isinstance(e.op, ast.And)
            if (conj and pol) or (not conj and not pol):
                for v in e.values:
                    rec(v, pol)
                return
        out.append((e, pol))

    rec(test, polarity)
    return out


_CACHE = {}


def cfg_of(func):
    """CFG of a FuncInfo (cached per node identity)."""
    key = id(func.node)
    if key not in _CACHE:
        _CACHE[key] = (func.node, CFG(func.node))
    return _CACHE[key][1]
