"""Local, flow-insensitive data flow: definitions of locals, provenance of expressions, inlining."""

import ast

from .index import dotted, norm, walk_body


class Defs:
    """All bindings of local names in one function (flow-insensitive)."""

    def __init__(self, fnode):
        self.fnode = fnode
        self.defs = {}  # name -> list of (value_expr or None, binding stmt, how)
        a = fnode.args
        self.params = [x.arg for x in a.posonlyargs + a.args + a.kwonlyargs]
        if a.vararg:
            self.params.append(a.vararg.arg)
        if a.kwarg:
            self.params.append(a.kwarg.arg)
        body = fnode.body if isinstance(fnode.body, list) else []
        for st in body:
            for n in _walk_stmt(st):
                self._collect(n)

    def _bind(self, target, value, stmt, how):
        if isinstance(target, ast.Name):
            self.defs.setdefault(target.id, []).append((value, stmt, how))
        elif isinstance(target, (ast.Tuple, ast.List)):
            vals = None
            if isinstance(value, (ast.Tuple, ast.List)) and len(value.elts) == len(target.elts):
                vals = value.elts
            for i, t in enumerate(target.elts):
                if isinstance(t, ast.Starred):
                    t = t.value
                self._bind(t, vals[i] if vals else value, stmt, how if vals else how + "-unpack")
        # attribute / subscript targets are not local bindings

    def _collect(self, n):
        if isinstance(n, ast.Assign):
            for t in n.targets:
                self._bind(t, n.value, n, "assign")
        elif isinstance(n, ast.AnnAssign) and n.value is not None:
            self._bind(n.target, n.value, n, "assign")
        elif isinstance(n, ast.AugAssign):
            self._bind(n.target, n, n, "aug")
        elif isinstance(n, (ast.For, ast.AsyncFor)):
            self._bind(n.target, n.iter, n, "iter")
        elif isinstance(n, (ast.With, ast.AsyncWith)):
            for it in n.items:
                if it.optional_vars is not None:
                    self._bind(it.optional_vars, it.context_expr, n, "with")
        elif isinstance(n, ast.ExceptHandler):
            if n.name:
                self.defs.setdefault(n.name, []).append((n.type, n, "except"))
        elif isinstance(n, ast.NamedExpr):
            self._bind(n.target, n.value, n, "assign")
        elif isinstance(n, ast.comprehension):
            self._bind(n.target, n.iter, n, "iter")
        elif isinstance(n, (ast.FunctionDef, ast.AsyncFunctionDef)):
            self.defs.setdefault(n.name, []).append((None, n, "def"))

    def single(self, name):
        """The unique defining expression of a single-assignment local, else None."""
        ds = self.defs.get(name, [])
        if len(ds) == 1 and name not in self.params and ds[0][2] == "assign":
            return ds[0][0]
        return None


def _walk_stmt(node):
    """node and all descendants, entering comprehensions and lambdas but not nested defs."""
    yield node
    if isinstance(node, (ast.FunctionDef, ast.AsyncFunctionDef, ast.ClassDef)):
        return
    for c in ast.iter_child_nodes(node):
        yield from _walk_stmt(c)


def atoms(expr, include_calls=True):
    """Semantic atoms an expression mentions: dotted names ('self.killed', 'chunk.start'),
    attribute names ('.start'), called names ('call:len'), and string constants ('str:time')."""
    out = set()
    for n in ast.walk(expr):
        if isinstance(n, ast.Attribute):
            d = dotted(n)
            if d:
                out.add(d)
            out.add("." + n.attr)
        elif isinstance(n, ast.Name):
            out.add(n.id)
        elif isinstance(n, ast.Constant) and isinstance(n.value, str):
            out.add("str:" + n.value)
        elif isinstance(n, ast.Call) and include_calls:
            d = dotted(n.func)
            if d:
                out.add("call:" + d)
                out.add("call:" + d.split(".")[-1])
            elif isinstance(n.func, ast.Attribute):
                out.add("call:" + n.func.attr)
    return out


def provenance(defs, expr, depth=6):
    """Atoms the value of expr may depend on, following local definitions transitively."""
    seen_names = set()
    out = set()

    def rec(e, d):
        a = atoms(e)
        out.update(a)
        if d <= 0:
            return
        for n in ast.walk(e):
            if isinstance(n, ast.Name) and n.id not in seen_names and n.id in defs.defs:
                seen_names.add(n.id)
                for val, _stmt, how in defs.defs[n.id]:
                    if val is None:
                        continue
                    if how == "aug":
                        rec(val.value, d - 1)
                    else:
                        rec(val, d - 1)

    rec(expr, depth)
    return out


def clone(expr):
    """Fresh copy of an expression (without the parent links of the indexed tree)."""
    return ast.parse(ast.unparse(expr), mode="eval").body


class _Inliner(ast.NodeTransformer):
    def __init__(self, defs, depth):
        self.defs = defs
        self.depth = depth
        self.active = set()

    def visit_Name(self, node):
        if isinstance(node.ctx, ast.Load) and node.id not in self.active and len(self.active) < self.depth:
            val = self.defs.single(node.id)
            if val is not None:
                self.active.add(node.id)
                res = self.visit(clone(val))
                self.active.discard(node.id)
                return res
        return node


def inline(defs, expr, depth=4):
    """Copy of expr with single-assignment locals replaced by their definitions."""
    return _Inliner(defs, depth).visit(clone(expr))


def assigned_attrs(fnode, base="self"):
    """Attribute names stored on `base` in the function body: {attr: [stmt,...]}."""
    out = {}
    for n in walk_body(fnode):
        targets = []
        if isinstance(n, ast.Assign):
            targets = n.targets
        elif isinstance(n, (ast.AugAssign, ast.AnnAssign)):
            targets = [n.target]
        elif isinstance(n, ast.Delete):
            targets = n.targets
        for t in targets:
            for sub in ast.walk(t) if isinstance(t, (ast.Tuple, ast.List)) else [t]:
                if (
                    isinstance(sub, ast.Attribute)
                    and isinstance(sub.value, ast.Name)
                    and sub.value.id == base
                ):
                    out.setdefault(sub.attr, []).append(n)
    return out


def stmt_of(node):
    """Innermost enclosing statement of an expression node."""
    n = node
    while n is not None and not isinstance(n, ast.stmt):
        n = getattr(n, "_parent", None)
    return n


def calls_in(node, enter_nested=False):
    """Call nodes under node (optionally not entering nested function definitions)."""
    out = []
    stack = [node]
    while stack:
        n = stack.pop()
        if isinstance(n, ast.Call):
            out.append(n)
        for c in ast.iter_child_nodes(n):
            if not enter_nested and isinstance(c, (ast.FunctionDef, ast.AsyncFunctionDef, ast.ClassDef)):
                continue
            stack.append(c)
    return out


# ---------------------------------------------------------------------------- reaching definitions
class Reaching:
    """Flow-sensitive reaching definitions of local names over a CFG (may analysis).

    A definition is (name, value expr or None, binding statement, how).  `at(node)` gives the
    definitions that may reach the *entry* of a CFG node."""

    def __init__(self, cfg, kinds="nrx"):
        self.cfg = cfg
        self.gen = {}
        self.kill_names = {}
        for n in cfg.nodes:
            g = []
            if n.kind == "stmt":
                g = list(_node_defs(n.stmt))
            elif n.kind == "handler" and n.owner is not None and getattr(n.owner, "name", None):
                g = [(n.owner.name, n.owner.type, n.owner, "except")]
            self.gen[n] = g
            self.kill_names[n] = {d[0] for d in g if d[3] not in ("aug", "iter-unpack", "assign-unpack")}
        params = []
        a = cfg.fnode.args
        for x in a.posonlyargs + a.args + a.kwonlyargs:
            params.append(x.arg)
        if a.vararg:
            params.append(a.vararg.arg)
        if a.kwarg:
            params.append(a.kwarg.arg)
        self.params = params
        self.IN = {n: set() for n in cfg.nodes}
        out = {n: set() for n in cfg.nodes}
        out[cfg.entry] = {(p, None, None, "param") for p in params}
        work = list(cfg.nodes)
        while work:
            n = work.pop()
            inn = set()
            for p, k in cfg.pred[n]:
                if k in kinds:
                    inn |= out[p]
            self.IN[n] = inn
            if n is cfg.entry:
                new = out[n]
            else:
                kills = self.kill_names[n]
                new = {d for d in inn if d[0] not in kills} | set(self.gen[n])
            if new != out[n]:
                out[n] = new
                for m, k in cfg.succ[n]:
                    if k in kinds and m not in work:
                        work.append(m)
        self.OUT = out

    def defs_of(self, node, name):
        return [d for d in self.IN[node] if d[0] == name]

    def provenance(self, node, expr, depth=6):
        """Atoms expr may depend on at `node`, following the definitions that reach it."""
        out = set()
        seen = set()

        def rec(e, at, d):
            out.update(atoms(e))
            if d <= 0:
                return
            for x in ast.walk(e):
                if isinstance(x, ast.Name):
                    for df in self.defs_of(at, x.id):
                        key = (id(df[2]), x.id)
                        if key in seen or df[1] is None:
                            continue
                        seen.add(key)
                        val = df[1].value if df[3] == "aug" else df[1]
                        src_nodes = self.cfg.nodes_of(df[2]) if isinstance(df[2], ast.stmt) else []
                        rec(val, src_nodes[0] if src_nodes else at, d - 1)

        rec(expr, node, depth)
        return out


def _node_defs(stmt):
    """Definitions generated by the CFG node of `stmt` itself (header only for compound ones)."""
    d = Defs.__new__(Defs)
    d.defs = {}
    d.params = []
    if isinstance(stmt, (ast.If, ast.While)):
        for x in ast.walk(stmt.test):
            if isinstance(x, ast.NamedExpr):
                d._collect(x)
    elif isinstance(stmt, (ast.For, ast.AsyncFor)):
        d._bind(stmt.target, stmt.iter, stmt, "iter")
    elif isinstance(stmt, (ast.With, ast.AsyncWith)):
        for it in stmt.items:
            if it.optional_vars is not None:
                d._bind(it.optional_vars, it.context_expr, stmt, "with")
    elif isinstance(stmt, (ast.FunctionDef, ast.AsyncFunctionDef, ast.ClassDef)):
        d.defs[stmt.name] = [(None, stmt, "def")]
    elif isinstance(stmt, ast.Try):
        pass
    else:
        for x in _walk_stmt(stmt):
            if isinstance(x, (ast.Assign, ast.AnnAssign, ast.AugAssign, ast.NamedExpr)):
                d._collect(x)
    for name, lst in d.defs.items():
        for val, st, how in lst:
            yield (name, val, st, how)
