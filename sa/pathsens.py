"""Small path-sensitive abstract interpreter over the statement CFG.

State = abstract values of tracked local names + literal facts about names that are never
reassigned in the function (parameters, single-assignment locals).  A path is pruned when it passes
a guard whose literals contradict the facts collected so far; this removes the infeasible
combinations of correlated tests (`if a or b: ... if not b: ...`) that a path-insensitive analysis
would report.  States are memoised per node, so the exploration is bounded by nodes x states.
"""

import ast

from .cfg import literal_nodes
from .index import norm


def stable_names(fnode):
    """Names that are bound at most once in the function (parameters never rebound, or locals with
    a single binding): facts about them stay valid along a path."""
    counts = {}
    a = fnode.args
    for x in a.posonlyargs + a.args + a.kwonlyargs:
        counts[x.arg] = 1
    if a.vararg:
        counts[a.vararg.arg] = 1
    if a.kwarg:
        counts[a.kwarg.arg] = 1
    body = fnode.body if isinstance(fnode.body, list) else []

    def walk(n):
        if isinstance(n, (ast.FunctionDef, ast.AsyncFunctionDef, ast.ClassDef)):
            counts[n.name] = counts.get(n.name, 0) + 1
            return
        if isinstance(n, ast.Name) and isinstance(n.ctx, (ast.Store, ast.Del)):
            counts[n.id] = counts.get(n.id, 0) + 1
        for c in ast.iter_child_nodes(n):
            walk(c)

    for st in body:
        walk(st)
    return {k for k, v in counts.items() if v <= 1}


def _fact_key(e, stable):
    """Canonical (text, flip) of a literal if it only talks about stable names, else None.
    `x is None` / `x is not None` / `not x` are folded onto one key."""
    names = {n.id for n in ast.walk(e) if isinstance(n, ast.Name)}
    if not names or not names <= stable:
        return None
    if any(isinstance(n, ast.Call) for n in ast.walk(e)):
        # isinstance(x, T) on a stable name is a pure test; other calls may have effects
        if not (isinstance(e, ast.Call) and isinstance(e.func, ast.Name) and e.func.id == "isinstance"):
            return None
    if isinstance(e, ast.Compare) and len(e.ops) == 1 and isinstance(e.comparators[0], ast.Constant) and e.comparators[0].value is None:
        if isinstance(e.ops[0], ast.Is):
            return (norm(e.left) + " is None", False)
        if isinstance(e.ops[0], ast.IsNot):
            return (norm(e.left) + " is None", True)
    return (norm(e), False)


def explore(cfg, transfer=None, visit=None, kinds="nr", follow_handlers=True, max_states=200000):
    """Depth-first exploration of (node, state).  `transfer(node, env)` returns the new env dict
    (tracked values) or None to stop the path; `visit(node, env, facts)` is called for every
    reached (node, state)."""
    stable = stable_names(cfg.fnode)
    start = (cfg.entry, frozenset(), frozenset())
    seen = {start}
    stack = [start]
    n_states = 0
    while stack:
        node, envf, factsf = stack.pop()
        n_states += 1
        if n_states > max_states:
            raise RuntimeError("state explosion in path-sensitive exploration")
        env = dict(envf)
        facts = dict(factsf)
        if node.kind == "guard" and node.test is not None:
            feasible = True
            for e, pol in literal_nodes(node.test, node.polarity):
                k = _fact_key(e, stable)
                if k is None:
                    continue
                text, flip = k
                val = (not pol) if flip else pol
                if text in facts and facts[text] != val:
                    feasible = False
                    break
                facts[text] = val
                # `x is None` true implies `x` falsy; `x` truthy implies `x is None` false
                if text.endswith(" is None"):
                    base = text[: -len(" is None")]
                    if val:
                        if facts.get(base) is True:
                            feasible = False
                            break
                        facts[base] = False
                elif val and facts.get(text + " is None") is True:
                    feasible = False
                    break
                elif val:
                    facts[text + " is None"] = False
            if not feasible:
                continue
        if visit is not None:
            visit(node, env, facts)
        if transfer is not None:
            env = transfer(node, env, facts)
            if env is None:
                continue
        nenv, nfacts = frozenset(env.items()), frozenset(facts.items())
        for m, k in cfg.succ[node]:
            if k not in kinds:
                if not (follow_handlers and m.kind == "handler"):
                    continue
            key = (m, nenv, nfacts)
            if key not in seen:
                seen.add(key)
                stack.append(key)
    return n_states
