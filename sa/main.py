"""Command line driver: parse /repo, run one property's rules, witnesses, evidence, exit code."""

import argparse
import importlib
import json
import os
import sys
import time
import traceback

from .index import AnalysisError, Repo
from .report import Check, VERIF, write_replay
from . import witness as witness_mod

PROPS = [f"C{i:02d}" for i in range(1, 20)]


SHARED_RULES = {"saver_guards", "single_producer", "failure_recorded", "plugin_capacity", "destructive_calls", "decompressors_drain", "planning_roles"}


def _guard(fn):
    """Rule functions run independently: an anchor that vanished for one rule (AnalysisError) is
    recorded and the other rules still run, so that a violation elsewhere is still reported."""
    import functools
    import re

    if getattr(fn, "_guarded", False):
        return fn

    @functools.wraps(fn)
    def wrapper(chk, *a, **k):
        try:
            return fn(chk, *a, **k)
        except AnalysisError as e:
            if hasattr(chk, "defer"):
                chk.defer(str(e))
                return None
            raise

    wrapper._guarded = True
    return wrapper


def load_prop(pid):
    import re
    import types

    mod = importlib.import_module(f"sa.props.{pid.lower()}")
    for name, val in list(vars(mod).items()):
        if isinstance(val, types.FunctionType) and val.__module__ == mod.__name__ and (re.match(r"r\d+_", name) or name in SHARED_RULES):
            setattr(mod, name, _guard(val))
    return mod


def run_rules(pid, repo, tier, quiet=True):
    mod = load_prop(pid)
    chk = Check(pid, repo, tier=tier, quiet=quiet)
    mod.run(chk)
    return chk, mod


def run_one(pid, tier, root, replay=None, seed=0):
    t0 = time.time()
    repo = Repo(root)
    if repo.duplicate_classes:
        raise AnalysisError(f"duplicate class names, resolver assumption broken: {repo.duplicate_classes}")
    chk, mod = run_rules(pid, repo, tier, quiet=False)

    wres = {"run": 0, "detected": 0, "skipped": [], "undetected": []}
    fixtures = getattr(mod, "fixtures", None)
    if fixtures is not None:
        fx = fixtures()
        chk.note("fixtures", fx)
        bad = [f for f in fx if not f["fired"]]
        if bad:
            raise AnalysisError(f"positive fixtures did not fire: {bad}")
    neg = {}
    if tier == "thorough":
        wres = witness_mod.run_witnesses(pid, mod, root, chk)
        neg = witness_mod.run_negative(pid, root, chk, repo)
        chk.note("negative_witnesses", neg)
    chk.note("witnesses", wres)

    deferred = list(getattr(chk, "deferred", []))
    new, known = chk.split_findings()
    cov = chk.coverage(mod.EXPLANATION, mod.RULE_TEXT)
    ev = {
        "property_id": pid,
        "tier": tier,
        "seed": seed,
        "level": "other",
        "coverage": cov,
        "assumptions": list(getattr(mod, "ASSUMPTIONS", [])) + chk.assumptions,
        "wall_s": round(time.time() - t0, 3),
        "violations": len(new),
        "known_findings": [k["what_fails"] for _f, k in known],
        "findings": [f.as_dict() for f in new],
    }
    evdir = os.environ.get("VERIF_EVIDENCE_DIR") or os.path.join(VERIF, "evidence")
    os.makedirs(evdir, exist_ok=True)
    with open(os.path.join(evdir, f"{pid}.json"), "w") as fh:
        json.dump(ev, fh, indent=1, sort_keys=True)
        fh.write("\n")

    st = repo.stats()
    print(
        f"[{pid}] tier={tier} analysed {st['modules']} modules / {st['classes']} classes / "
        f"{st['functions']} functions from {root}"
    )
    for rule in sorted(chk.rules):
        r = chk.rules[rule]
        print(f"[{pid}] {rule}: {r['discharged']}/{r['obligations']} obligations discharged"
              + (f" - {r['description']}" if r["description"] else ""))
    if tier == "thorough":
        print(
            f"[{pid}] witnesses: {wres['detected']}/{wres['run']} detected, "
            f"{len(wres['skipped'])} skipped"
        )
    for f, k in known:
        print(f"KNOWN-FINDING: property={pid} {k['what_fails']} [{f.rule} at {f.loc}]")
    rc = 0
    if replay:
        with open(replay) as fh:
            want = json.load(fh)
        still = [f for f in chk.findings if f.rule == want.get("rule") and f.site == want.get("site")]
        if still:
            f = still[0]
            print(f"  {f.rule} {f.loc} {f.func}: {f.construct}\n    -> {f.message}")
            print(f"VIOLATION property={pid} replay={replay}")
            return 1
        print(f"[{pid}] replayed construct is no longer in violation")
        return 0
    for f in new:
        path = write_replay(f, root)
        print(f"  {f.rule} {f.loc} {f.func}: {f.construct}\n    -> {f.message}")
        print(f"VIOLATION property={pid} replay={path}")
        rc = 1
    if tier == "thorough":
        print(f"[{pid}] negative witnesses (behaviour-preserving rewrites of the whole package): "
              + ", ".join(f"{k}: {'silent' if not v else 'ALARM'}" for k, v in neg.items()))
    bad_neg = [f"{k}: {x}" for k, v in neg.items() for x in v]
    for d in deferred:
        print(f"ANALYSIS-ERROR: property={pid} {d}")
    if deferred and rc == 0:
        return 2
    if wres["undetected"] or bad_neg:
        for w in wres["undetected"]:
            print(f"ANALYSIS-ERROR: witness not detected (rule vacuous?): {w}")
        for w in bad_neg:
            print(f"ANALYSIS-ERROR: rule fires on a behaviour-preserving rewrite (rule brittle): {w}")
        return 2 if rc == 0 else rc
    if rc == 0:
        print(f"[{pid}] held: {cov['discharged']}/{cov['obligations']} obligations, "
              f"{len(known)} known finding(s), {ev['wall_s']} s")
    return rc


def main(argv):
    ap = argparse.ArgumentParser()
    ap.add_argument("prop")
    ap.add_argument("--tier", default=os.environ.get("VERIF_TIER", "quick"))
    ap.add_argument("--replay")
    ap.add_argument("--root", default=os.environ.get("VERIF_REPO", "/repo"))
    a = ap.parse_args(argv)
    tier = a.tier if a.tier in ("quick", "thorough") else "quick"
    try:
        seed = int(os.environ.get("VERIF_SEED", "0"))
    except ValueError:
        seed = 0
    pids = PROPS if a.prop == "all" else [a.prop.upper()]
    worst = 0
    for pid in pids:
        try:
            rc = run_one(pid, tier, a.root, a.replay, seed)
        except AnalysisError as e:
            print(f"ANALYSIS-ERROR: property={pid} {e}")
            rc = 2
        except ModuleNotFoundError as e:
            print(f"ANALYSIS-ERROR: property={pid} no check implemented ({e})")
            rc = 2
        except Exception:
            print(f"ANALYSIS-ERROR: property={pid} internal error\n{traceback.format_exc()}")
            rc = 2
        worst = max(worst, rc) if rc != 1 else (1 if worst != 2 else 2)
    sys.stdout.flush()
    return worst
