"""Reusable rule building blocks on top of the CFG / data flow engine."""

import ast

from .cfg import cfg_of, is_catch_all, handler_names, literals
from .dataflow import Defs, Reaching, atoms, calls_in, provenance, stmt_of
from .index import AnalysisError, call_name, dotted, enclosing, head, norm, walk_body

COMPOUND = (ast.If, ast.While, ast.For, ast.AsyncFor, ast.With, ast.AsyncWith, ast.Try, ast.FunctionDef, ast.AsyncFunctionDef, ast.ClassDef)


def own_exprs(stmt):
    """The expressions a CFG statement node itself evaluates (header only for compound ones)."""
    if isinstance(stmt, (ast.If, ast.While)):
        return [stmt.test]
    if isinstance(stmt, (ast.For, ast.AsyncFor)):
        return [stmt.iter]
    if isinstance(stmt, (ast.With, ast.AsyncWith)):
        return [it.context_expr for it in stmt.items]
    if isinstance(stmt, (ast.Try, ast.FunctionDef, ast.AsyncFunctionDef, ast.ClassDef)):
        return []
    return [stmt]


def own_calls(stmt):
    out = []
    for e in own_exprs(stmt):
        out += calls_in(e)
    return out


def node_calls(node, pred):
    """Does CFG node (statement header) contain a call satisfying pred(call, dotted_name)?"""
    if node.kind != "stmt":
        return False
    for c in own_calls(node.stmt):
        if pred(c, call_name(c) or ""):
            return True
    return False


def loop_body_calls(node, pred):
    """A `for` statement whose body (at any depth) calls pred: used for 'for m in ...: m.kill()'."""
    if node.kind != "stmt" or not isinstance(node.stmt, (ast.For, ast.AsyncFor)):
        return False
    for s in node.stmt.body:
        for c in calls_in(s):
            if pred(c, call_name(c) or ""):
                return True
    return False


def handler_body_nodes(cfg, handler):
    ids = set()
    for st in handler.body:
        for sub in ast.walk(st):
            ids.add(id(sub))
    out = set()
    for n in cfg.nodes:
        s = n.stmt if n.kind == "stmt" else n.owner
        if s is not None and id(s) in ids:
            out.add(n)
    return out


def handler_paths_pass(cfg, handler, through, kinds="n"):
    """Every path through the handler body that leaves it normally (falls out of the handler or
    returns) passes a node satisfying `through`.  Paths ending in raise conform by definition.
    Returns (ok, offending path)."""
    entry = cfg.nodes_of(handler)
    body = handler_body_nodes(cfg, handler)
    dsts = set()
    for n in list(body) + entry:
        for m, k in cfg.succ[n]:
            if k in kinds and m not in body and m.kind != "raise":
                dsts.add(m)
    if not dsts:
        return True, None
    return cfg.every_path(entry, dsts, through, kinds)


def catch_all_handlers(fnode):
    out = []
    for n in walk_body(fnode):
        if isinstance(n, ast.ExceptHandler) and is_catch_all(n):
            out.append(n)
    return out


def find_calls(fnode, pred):
    out = []
    for n in walk_body(fnode):
        if isinstance(n, ast.Call) and pred(n, call_name(n) or ""):
            out.append(n)
    return out


def guards_text(cfg, node, kinds="n"):
    return sorted({(t, p) for g in cfg.dominating_guards(node, kinds) if g.test is not None for t, p in literals(g.test, g.polarity)})


def raise_guards(func):
    """All `raise` statements of a function with the guard facts that dominate them and the atoms
    (provenance through locals) of those guard tests: [(raise stmt, facts, atoms)]."""
    cfg = cfg_of(func)
    defs = Defs(func.node)
    out = []
    for n in cfg.stmt_nodes():
        if isinstance(n.stmt, ast.Raise):
            gs = cfg.dominating_guards(n, "n")
            facts = set()
            at = set()
            for g in gs:
                if g.test is not None:
                    facts |= literals(g.test, g.polarity)
                    at |= provenance(defs, g.test)
            out.append((n.stmt, facts, at, n))
    return out


def has_raise_guard(func, need_atoms, exc_names=None):
    """Is there a raise in func whose dominating guard tests (through local provenance) mention all
    atoms in need_atoms?  Returns the matching raise statements."""
    hits = []
    for st, facts, at, n in raise_guards(func):
        if all(a in at for a in need_atoms):
            if exc_names:
                e = st.exc
                nm = None
                if isinstance(e, ast.Call):
                    nm = (dotted(e.func) or "").split(".")[-1]
                elif e is not None:
                    nm = (dotted(e) or "").split(".")[-1]
                if nm not in exc_names:
                    continue
            hits.append(st)
    return hits


def every_path_to_exit_passes(func, through, kinds="n", exits=("return",)):
    cfg = cfg_of(func)
    dsts = []
    if "return" in exits:
        dsts.append(cfg.exit_return)
    if "raise" in exits:
        dsts.append(cfg.exit_raise)
    return cfg.every_path([cfg.entry], dsts, through, kinds)


def kw(call, name, default=None):
    for k in call.keywords:
        if k.arg == name:
            return k.value
    return default


def const_value(node, default=None):
    if isinstance(node, ast.Constant):
        return node.value
    return default


_REACH = {}


def reaching(func):
    key = id(func.node)
    if key not in _REACH:
        _REACH[key] = (func.node, Reaching(cfg_of(func)))
    return _REACH[key][1]


def prov_at(func, node_or_expr, expr=None):
    """Flow-sensitive provenance of `expr` at the statement that contains it (or at the given
    CFG node / statement)."""
    cfg = cfg_of(func)
    if expr is None:
        expr = node_or_expr
        st = stmt_of(expr)
        nodes = cfg.nodes_of(st)
    elif isinstance(node_or_expr, ast.AST):
        nodes = cfg.nodes_of(node_or_expr)
    else:
        nodes = [node_or_expr]
    if not nodes:
        raise AnalysisError(f"statement of `{norm(expr)[:60]}` not in the CFG of {func.qualname}")
    out = set()
    r = reaching(func)
    for n in nodes:
        out |= r.provenance(n, expr)
    return out


def endtime_accumulators(func):
    """Loop-carried locals of `func` that take a value derived from an end time inside a loop:
    [(name, assign stmt, is_running_max)].  A local is loop-carried when it is also defined outside
    that loop (initialised before it).  `is_running_max` is True when the assignment has the form
    `L = max(L, ...)` / `np.maximum(L, ...)`."""
    from .dataflow import Defs, provenance
    from .pattern import pmatch
    out = []
    fnode = func.node
    defs = Defs(fnode)
    loops = [n for n in walk_body(fnode) if isinstance(n, (ast.For, ast.While))]
    for lp in loops:
        inside = {id(x) for st in lp.body for x in ast.walk(st)}
        for st in walk_body(lp):
            if not (isinstance(st, ast.Assign) and len(st.targets) == 1 and isinstance(st.targets[0], ast.Name)):
                continue
            if id(st) not in inside:
                continue
            L = st.targets[0].id
            a = provenance(defs, st.value)
            if not ({"call:endtime", "str:endtime"} & a):
                continue
            outside = [x for x in walk_body(fnode) if isinstance(x, ast.Assign) and id(x) not in inside and any(isinstance(t, ast.Name) and t.id == L for t in x.targets)]
            if not outside:
                continue
            ok = any(pmatch(pat, st.value) is not None for pat in (f"max({L}, ___)", f"max(___, {L})", f"np.maximum({L}, ___)", f"np.maximum(___, {L})"))
            out.append((L, st, ok))
    return out


def passthrough_generators(func):
    """Nested (or the function itself) generator loops of the form `x = next(g) ... yield x`:
    [(FuncInfo-like node, take stmt, item name, loop)].  `func` is a FuncInfo; nested defs are
    searched through its AST."""
    out = []
    for fn in [n for n in ast.walk(func.node) if isinstance(n, (ast.FunctionDef, ast.AsyncFunctionDef))]:
        for st in walk_body(fn):
            if isinstance(st, ast.Assign) and len(st.targets) == 1 and isinstance(st.targets[0], ast.Name) and isinstance(st.value, ast.Call) and isinstance(st.value.func, ast.Name) and st.value.func.id == "next" and st.value.args:
                lp = enclosing(st, (ast.While, ast.For))
                if lp is None or enclosing(lp, (ast.FunctionDef, ast.AsyncFunctionDef)) is not fn:
                    continue
                if not any(isinstance(x, ast.Yield) for x in walk_body(fn)):
                    continue
                out.append((fn, st, st.targets[0].id, lp))
    return out


def passthrough_conserves(fn, take, item, loop):
    """Every in-loop path from the take to the next round passes `yield <item>`; returns (ok, why)."""
    from .cfg import CFG
    cfg = CFG(fn)
    tn = cfg.node_of(take)
    ln = cfg.node_of(loop)
    inside = {id(x) for st_ in loop.body for x in ast.walk(st_)}
    in_loop = lambda n: id(n.stmt if n.kind == "stmt" else n.owner) in inside
    is_fwd = lambda n: n.kind == "stmt" and isinstance(n.stmt, ast.Expr) and isinstance(n.stmt.value, ast.Yield) and isinstance(n.stmt.value.value, ast.Name) and n.stmt.value.value.id == item
    ok, path = cfg.every_path([tn], [ln], lambda n: is_fwd(n) or (n is not ln and not in_loop(n)), "n")
    return ok, path


def on_every_iteration(cfg, loop, stmts):
    """Every path through one iteration of `loop` (from the first statement of its body back to the
    loop head, leaving the loop counts as conforming) executes one of `stmts`."""
    nodes = [cfg.node_of(x) for x in stmts]
    if not nodes:
        return False
    ln = cfg.node_of(loop)
    first = cfg.nodes_of(loop.body[0])
    if any(b in nodes for b in first):
        return True
    inside = {id(x) for st_ in loop.body for x in ast.walk(st_)}

    def in_loop(n):
        return id(n.stmt if n.kind == "stmt" else n.owner) in inside

    return cfg.every_path(first, [ln], lambda n: n in nodes or (n is not ln and not in_loop(n)), "n")[0]


def stale_loop_locals(func, loop):
    """Locals that are bound only inside `loop` (never before it) and can be read in an iteration
    before anything was bound to them in *that* iteration: the value then comes from an earlier
    iteration (another record, another channel).  Returns [(name, reading stmt)]."""
    cfg = cfg_of(func)
    inside = {id(x) for st in loop.body for x in ast.walk(st)}
    bound_inside, bound_outside = {}, set()
    for st in walk_body(func.node):
        names = []
        if isinstance(st, (ast.Assign, ast.AnnAssign, ast.AugAssign)):
            tgs = st.targets if isinstance(st, ast.Assign) else [st.target]
            for t in tgs:
                for x in ast.walk(t):
                    if isinstance(x, ast.Name) and isinstance(x.ctx, ast.Store):
                        names.append(x.id)
        elif isinstance(st, (ast.For, ast.AsyncFor)):
            for x in ast.walk(st.target):
                if isinstance(x, ast.Name):
                    names.append(x.id)
        for nm in names:
            if id(st) in inside and not isinstance(st, ast.AugAssign):
                bound_inside.setdefault(nm, []).append(st)
            elif id(st) not in inside:
                bound_outside.add(nm)
    bound_outside |= set(func.params)
    if isinstance(loop, (ast.For, ast.AsyncFor)):
        for x in ast.walk(loop.target):
            if isinstance(x, ast.Name):
                bound_outside.add(x.id)
    out = []
    ln = cfg.node_of(loop)
    first = cfg.nodes_of(loop.body[0])

    def in_loop(n):
        return id(n.stmt if n.kind == "stmt" else n.owner) in inside

    for nm, binds in bound_inside.items():
        if nm in bound_outside:
            continue
        bnodes = set()
        for b in binds:
            bnodes.update(cfg.nodes_of(b))
        if any(b in first for b in bnodes):
            continue
        reads = []
        for n in cfg.nodes:
            if not in_loop(n) or n in bnodes:
                continue
            exprs = [n.test] if n.kind == "guard" and n.test is not None else own_exprs(n.stmt) if n.kind == "stmt" and not isinstance(n.stmt, (ast.FunctionDef, ast.ClassDef)) else []
            for e in exprs:
                if any(isinstance(x, ast.Name) and x.id == nm and isinstance(x.ctx, ast.Load) for x in ast.walk(e)):
                    reads.append(n)
                    break
        # a binding statement that also reads the name (x = f(x)) counts as a read first
        for b in binds:
            val = getattr(b, "value", None)
            if val is not None and any(isinstance(x, ast.Name) and x.id == nm for x in ast.walk(val)):
                reads += cfg.nodes_of(b)
        for r in reads:
            if r in first and r not in bnodes:
                out.append((nm, r.stmt if r.kind == "stmt" else r.owner))
                break
            ok, _p = cfg.every_path(first, [r], lambda n: n in bnodes or (n is not ln and not in_loop(n)) or n is ln, "n")
            if not ok and not (r in first):
                out.append((nm, r.stmt if r.kind == "stmt" else r.owner))
                break
    return out


def dropped_parameters(chk, repo, rule, paths, skip=()):
    """A parameter that its function never reads is an argument that silently has no effect (a wrapper
    that forgets to pass an option on).  `skip` lists (qualname, parameter) pairs reviewed as interface
    placeholders."""
    chk.describe(rule, "every parameter of the functions in " + ", ".join(p.split("/")[-1] for p in paths) + " is used: an option a caller passes is never silently dropped")
    n = 0
    for path in paths:
        for f in repo.module(path).functions.values():
            if f.parent_func is not None:
                continue
            used = {x.id for x in ast.walk(f.node) if isinstance(x, ast.Name) and isinstance(x.ctx, ast.Load)}
            for p in f.params:
                if p in ("self", "cls") or p.startswith("_") or (f.qualname, p) in skip:
                    continue
                n += 1
                chk.check(p in used, rule, f, None, f"parameter `{p}` of {f.qualname} is never used: what callers pass for it (e.g. a window, a threshold, a flag) has no effect", site_text=f"{f.qualname}: parameter {p} used", site={"function": f.qualname, "parameter": p}, nontrivial=False)
    chk.floor(rule, "parameters inspected", n, 20)
