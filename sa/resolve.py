"""Callee resolution without type information, restricted to cases that are exact in strax:
nested / module-level / exported functions by name, self methods through the MRO, and methods whose
name is defined in exactly one class hierarchy."""

import ast

from .index import dotted


def module_level(repo, name):
    """Module-level functions / classes named `name` anywhere in the package."""
    out = []
    for m in repo.modules.values():
        f = m.functions.get(name)
        if f is not None and f.cls is None and f.parent_func is None:
            out.append(f)
    return out


def methods_named(repo, name):
    """All methods called `name`, grouped: {root class name: [FuncInfo, ...]}."""
    groups = {}
    for c in repo.classes.values():
        if name in c.methods and c.methods[name].parent_func is None:
            root = repo.mro(c)[-1].name if repo.mro(c) else c.name
            # root of the hierarchy that defines the method first
            defining = [k for k in repo.mro(c) if name in k.methods]
            root = defining[-1].name
            groups.setdefault(root, []).append(c.methods[name])
    return groups


def resolve_callable(repo, func, expr):
    """List of FuncInfo that `expr` (a callee expression or a callable value) may denote.
    Empty list = unresolved."""
    if isinstance(expr, ast.Call):
        cn = dotted(expr.func) or ""
        if cn.split(".")[-1] == "partial" and expr.args:
            return resolve_callable(repo, func, expr.args[0])
        return []
    if isinstance(expr, ast.Name):
        f = func
        while f is not None:
            for g in f.module.functions.values():
                if g.parent_func is f and g.name == expr.id:
                    return [g]
            f = f.parent_func
        g = func.module.functions.get(expr.id)
        if g is not None and g.parent_func is None and g.cls is None:
            return [g]
        cands = module_level(repo, expr.id)
        return cands if len(cands) == 1 else []
    if isinstance(expr, ast.Attribute):
        base = dotted(expr.value)
        if base == "strax" or (base or "").startswith("strax."):
            cands = module_level(repo, expr.attr)
            if len(cands) == 1:
                return cands
            if expr.attr in repo.classes:
                init = repo.resolve_method(repo.classes[expr.attr], "__init__")
                return [init] if init else []
            return []
        if base == "self" and func.cls is not None:
            m = repo.resolve_method(func.cls, expr.attr)
            if m is not None:
                out = [m]
                for sub in repo.subclasses(func.cls, strict=True):
                    if expr.attr in sub.methods and sub.methods[expr.attr] not in out:
                        out.append(sub.methods[expr.attr])
                return out
        if base == "super()" and func.cls is not None:
            for c in repo.mro(func.cls)[1:]:
                if expr.attr in c.methods:
                    return [c.methods[expr.attr]]
            return []
        groups = methods_named(repo, expr.attr)
        if len(groups) == 1:
            return list(groups.values())[0]
        return []
    return []
