"""Lock regions and lock-protected functions for a monitor-style class (one lock attribute)."""

import ast

from .index import dotted, enclosing, walk_body


def is_lock_with(node, lock_attr="_lock"):
    if not isinstance(node, (ast.With, ast.AsyncWith)):
        return False
    for it in node.items:
        d = dotted(it.context_expr)
        if d and d.split(".")[-1] == lock_attr:
            return True
    return False


def lock_receiver(with_node, lock_attr="_lock"):
    for it in with_node.items:
        d = dotted(it.context_expr)
        if d and d.split(".")[-1] == lock_attr:
            return ".".join(d.split(".")[:-1])
    return None


def enclosing_lock_with(node, lock_attr="_lock"):
    """Innermost `with X._lock:` lexically enclosing node inside the same function, or None."""
    n = getattr(node, "_parent", None)
    while n is not None:
        if isinstance(n, (ast.FunctionDef, ast.AsyncFunctionDef, ast.Lambda)):
            return None
        if is_lock_with(n, lock_attr):
            # the context expression itself is evaluated before the lock is taken
            return n
        n = getattr(n, "_parent", None)
    return None


def owner_func_node(node):
    return enclosing(node, (ast.FunctionDef, ast.AsyncFunctionDef, ast.Lambda))


class Monitor:
    """Lockset facts for the methods (and nested functions) of one class in one module, plus the
    module-level functions of that module."""

    def __init__(self, repo, cls_name, lock_attr="_lock", config_phase=()):
        self.repo = repo
        self.config_phase = set(config_phase)
        self.cls = repo.cls(cls_name)
        self.mod = self.cls.module
        self.lock_attr = lock_attr
        # all functions in the module that belong to the class (methods + nested) or module level
        self.funcs = [f for f in self.mod.functions.values()]
        self.method_names = {}
        for f in self.funcs:
            if f.cls is self.cls and f.parent_func is None:
                self.method_names.setdefault(f.name, []).append(f)
        self.properties = {
            name
            for name, fs in self.method_names.items()
            for f in fs
            if any(dotted(d) == "property" for d in f.node.decorator_list)
        }
        self._sites = self._collect_sites()
        self.protected = self._fixpoint()

    # ----------------------------------------------------------------
    def _collect_sites(self):
        """function -> list of (site node, containing FuncInfo)."""
        sites = {f: [] for f in self.funcs}
        by_node = {id(f.node): f for f in self.funcs}
        for f in self.funcs:
            nested = {g.name: g for g in self.funcs if g.parent_func is f}
            for n in walk_body(f.node):
                # nested function used by name (called, or passed e.g. to wait_for)
                if isinstance(n, ast.Name) and isinstance(n.ctx, ast.Load) and n.id in nested:
                    sites[nested[n.id]].append((n, f))
                # method / property of the monitor class on any receiver
                if isinstance(n, ast.Attribute) and isinstance(n.ctx, ast.Load):
                    if n.attr in self.method_names and not (
                        isinstance(n.value, ast.Call) and dotted(n.value.func) == "super"
                    ):
                        for g in self.method_names[n.attr]:
                            sites[g].append((n, f))
        return sites

    def lexically_held(self, node):
        return enclosing_lock_with(node, self.lock_attr) is not None

    def _fixpoint(self):
        protected = set()
        changed = True
        while changed:
            changed = False
            for f in self.funcs:
                if f in protected or f.qualname in self.config_phase:
                    continue
                if any(isinstance(x, (ast.Yield, ast.YieldFrom)) for x in walk_body(f.node)):
                    continue  # calling a generator function does not run its body
                sites = [(n, g) for n, g in self._sites[f] if g.qualname not in self.config_phase]
                if not sites:
                    continue
                if all(self.lexically_held(n) or g in protected for n, g in sites):
                    protected.add(f)
                    changed = True
        return protected

    def held(self, node, func):
        """Is the monitor lock held when `node` (in FuncInfo func) executes?"""
        return self.lexically_held(node) or func in self.protected

    def sites(self, func):
        return self._sites.get(func, [])
