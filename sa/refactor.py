"""Behaviour-preserving source transformations, used as *negative* witnesses: every check must stay
silent on a tree that was only reformatted / alpha-renamed / had its comparisons mirrored.

  reformat  : ast.unparse of every module (drops comments, changes line breaks and quoting)
  rename    : consistent renaming of local variables (not parameters) inside every function
  mirror    : `a < b` -> `b > a`, `a == b` -> `b == a` ... for two-operand comparisons whose
              operands are side-effect free (names, attributes, subscripts, constants)
  logging   : a `pass`-equivalent statement inserted at the start of every function body
"""

import ast
import builtins

BUILTINS = set(dir(builtins))


class _Renamer(ast.NodeTransformer):
    def __init__(self, mapping):
        self.mapping = mapping

    def visit_Name(self, node):
        if node.id in self.mapping:
            return ast.copy_location(ast.Name(id=self.mapping[node.id], ctx=node.ctx), node)
        return node

    def visit_ExceptHandler(self, node):
        self.generic_visit(node)
        if node.name in self.mapping:
            node.name = self.mapping[node.name]
        return node

    def visit_Global(self, node):
        return node

    def visit_Nonlocal(self, node):
        node.names = [self.mapping.get(n, n) for n in node.names]
        return node


def _function_locals(fn):
    """Names that are safe to rename inside fn: stored somewhere in fn (or nested scopes), not a
    parameter of fn or of any nested function / lambda, not declared global, not a nested def/class
    name that is looked up by attribute, and not dunder."""
    params = set()
    stored = set()
    banned = set()
    for n in ast.walk(fn):
        if isinstance(n, (ast.FunctionDef, ast.AsyncFunctionDef, ast.Lambda)):
            a = n.args
            for x in a.posonlyargs + a.args + a.kwonlyargs:
                params.add(x.arg)
            if a.vararg:
                params.add(a.vararg.arg)
            if a.kwarg:
                params.add(a.kwarg.arg)
            if n is not fn and not isinstance(n, ast.Lambda):
                banned.add(n.name)  # nested function names stay (qualified names are anchors)
        elif isinstance(n, ast.ClassDef):
            banned.add(n.name)
        elif isinstance(n, ast.Global):
            banned.update(n.names)
        elif isinstance(n, ast.Name) and isinstance(n.ctx, (ast.Store, ast.Del)):
            stored.add(n.id)
        elif isinstance(n, ast.ExceptHandler) and n.name:
            stored.add(n.name)
        elif isinstance(n, ast.Call) and isinstance(n.func, ast.Name) and n.func.id in ("locals", "eval", "exec", "vars"):
            return set()
        elif isinstance(n, ast.keyword) and n.arg == "local_dict":
            return set()
    return {s for s in stored if s not in params and s not in banned and not s.startswith("__") and s != "_" and s != "self"}


def rename_locals(tree, suffix="_rn"):
    """Rename locals of every top-level function / method (nested scopes are renamed consistently
    with their enclosing function)."""

    def process(body):
        for node in body:
            if isinstance(node, (ast.FunctionDef, ast.AsyncFunctionDef)):
                names = _function_locals(node)
                mapping = {n: n + suffix for n in names}
                if mapping:
                    new_body = [_Renamer(mapping).visit(s) for s in node.body]
                    node.body = new_body
            elif isinstance(node, ast.ClassDef):
                process(node.body)
            elif isinstance(node, (ast.If, ast.Try, ast.With)):
                process(getattr(node, "body", []))
                process(getattr(node, "orelse", []) or [])
                for h in getattr(node, "handlers", []) or []:
                    process(h.body)

    process(tree.body)
    return tree


_MIRROR = {ast.Lt: ast.Gt, ast.Gt: ast.Lt, ast.LtE: ast.GtE, ast.GtE: ast.LtE, ast.Eq: ast.Eq, ast.NotEq: ast.NotEq}


def _pure(e):
    return all(isinstance(x, (ast.Name, ast.Attribute, ast.Subscript, ast.Constant, ast.Load, ast.Slice, ast.UnaryOp, ast.USub, ast.BinOp, ast.Add, ast.Sub, ast.Mult, ast.Index if hasattr(ast, "Index") else ast.Load)) for x in ast.walk(e))


class _Mirror(ast.NodeTransformer):
    def visit_Compare(self, node):
        self.generic_visit(node)
        if len(node.ops) == 1 and type(node.ops[0]) in _MIRROR and _pure(node.left) and _pure(node.comparators[0]):
            return ast.copy_location(ast.Compare(left=node.comparators[0], ops=[_MIRROR[type(node.ops[0])]()], comparators=[node.left]), node)
        return node


def mirror_comparisons(tree):
    return ast.fix_missing_locations(_Mirror().visit(tree))


def add_noop(tree):
    for n in ast.walk(tree):
        if isinstance(n, (ast.FunctionDef, ast.AsyncFunctionDef)):
            i = 1 if (n.body and isinstance(n.body[0], ast.Expr) and isinstance(n.body[0].value, ast.Constant) and isinstance(n.body[0].value.value, str)) else 0
            n.body.insert(i, ast.parse("_verif_noop = None").body[0])
    return ast.fix_missing_locations(tree)


TRANSFORMS = {
    "reformat": lambda t: t,
    "rename": rename_locals,
    "mirror": mirror_comparisons,
    "noop": add_noop,
}


def transform_sources(repo_root, modules, which):
    """{relpath: new source} for all given modules (relpath -> source)."""
    out = {}
    for rel, src in modules.items():
        tree = ast.parse(src)
        tree = TRANSFORMS[which](tree)
        ast.fix_missing_locations(tree)
        new = ast.unparse(tree)
        compile(new, rel, "exec")
        out[rel] = new
    return out
