"""Program index: parse every module of the package from the current working tree.

Nothing here imports or executes strax.  All later analyses work on this index.
"""

import ast
import os
import re


class AnalysisError(Exception):
    """The analysis itself cannot proceed (anchor vanished, parse error, ...): exit code 2."""


EXCLUDED = ("strax/testutils.py",)


class FuncInfo:
    __slots__ = ("module", "qualname", "node", "cls", "parent_func", "path")

    def __init__(self, module, qualname, node, cls, parent_func):
        self.module = module
        self.qualname = qualname
        self.node = node
        self.cls = cls  # ClassInfo or None (innermost enclosing class, even for nested functions)
        self.parent_func = parent_func  # FuncInfo of the enclosing function, or None
        self.path = module.relpath

    @property
    def name(self):
        return self.node.name if hasattr(self.node, "name") else "<lambda>"

    @property
    def params(self):
        a = self.node.args
        names = [x.arg for x in a.posonlyargs + a.args + a.kwonlyargs]
        if a.vararg:
            names.append(a.vararg.arg)
        if a.kwarg:
            names.append(a.kwarg.arg)
        return names

    @property
    def loc(self):
        return f"{self.path}:{self.node.lineno}"

    def __repr__(self):
        return f"<func {self.path}::{self.qualname}>"


class ClassInfo:
    __slots__ = ("module", "name", "node", "base_names", "methods", "attrs", "qualname")

    def __init__(self, module, name, node, qualname):
        self.module = module
        self.name = name
        self.qualname = qualname
        self.node = node
        self.base_names = [base_name(b) for b in node.bases]
        self.methods = {}  # name -> FuncInfo
        self.attrs = {}  # class-level simple assignments: name -> value node

    def __repr__(self):
        return f"<class {self.name}>"


class ModuleInfo:
    __slots__ = ("relpath", "source", "tree", "functions", "classes", "assigns", "imports")

    def __init__(self, relpath, source, tree):
        self.relpath = relpath
        self.source = source
        self.tree = tree
        self.functions = {}  # qualname -> FuncInfo
        self.classes = {}  # name -> ClassInfo
        self.assigns = {}  # module-level NAME = value
        self.imports = {}  # local name -> dotted origin


def base_name(node):
    """Last component of a base-class expression (strax.Plugin -> Plugin)."""
    if isinstance(node, ast.Name):
        return node.id
    if isinstance(node, ast.Attribute):
        return node.attr
    if isinstance(node, ast.Subscript):
        return base_name(node.value)
    return ast.unparse(node)


def set_parents(tree):
    for parent in ast.walk(tree):
        for child in ast.iter_child_nodes(parent):
            child._parent = parent
    tree._parent = None


class Repo:
    """Parsed view of <root>/strax.  `overrides` maps relpath -> source text (for witnesses)."""

    def __init__(self, root="/repo", overrides=None, package="strax"):
        self.root = root
        self.package = package
        self.modules = {}
        self.classes = {}  # name -> ClassInfo (class names are unique in strax; checked)
        self.functions = []  # all FuncInfo
        self._by_qual = {}
        overrides = overrides or {}
        pkg_dir = os.path.join(root, package)
        if not os.path.isdir(pkg_dir):
            raise AnalysisError(f"package directory {pkg_dir} not found")
        paths = []
        for dirpath, dirnames, filenames in os.walk(pkg_dir):
            dirnames[:] = sorted(d for d in dirnames if d != "__pycache__")
            for fn in sorted(filenames):
                if fn.endswith(".py"):
                    rel = os.path.relpath(os.path.join(dirpath, fn), root)
                    paths.append(rel)
        for rel in overrides:
            if rel not in paths:
                paths.append(rel)
        for rel in paths:
            if rel in EXCLUDED:
                continue
            if rel in overrides:
                src = overrides[rel]
            else:
                with open(os.path.join(root, rel), encoding="utf-8") as f:
                    src = f.read()
            try:
                tree = ast.parse(src, filename=rel)
            except SyntaxError as e:
                raise AnalysisError(f"cannot parse {rel}: {e}")
            set_parents(tree)
            mod = ModuleInfo(rel, src, tree)
            self.modules[rel] = mod
            self._index_module(mod)
        dup = [n for n in self._class_dups]
        self.duplicate_classes = dup

    _class_dups = ()

    # ------------------------------------------------------------------ indexing
    def _index_module(self, mod):
        dups = list(self._class_dups)

        def visit(body, prefix, cls, parent_func):
            for node in body:
                if isinstance(node, (ast.FunctionDef, ast.AsyncFunctionDef)):
                    q = f"{prefix}{node.name}"
                    # same name defined twice (property + setter): keep both, suffix the later
                    key = q
                    k = 2
                    while key in mod.functions:
                        key = f"{q}#{k}"
                        k += 1
                    fi = FuncInfo(mod, key, node, cls, parent_func)
                    mod.functions[key] = fi
                    self.functions.append(fi)
                    self._by_qual.setdefault(key, []).append(fi)
                    if cls is not None and parent_func is None and prefix == cls.qualname + ".":
                        cls.methods.setdefault(node.name, fi)
                        if key != q:
                            # property setter etc: remember under decorated name
                            cls.methods[key.split(".")[-1]] = fi
                    node._func = fi
                    visit_nested(node, key + ".", cls, fi)
                elif isinstance(node, ast.ClassDef):
                    qn = f"{prefix}{node.name}"
                    ci = ClassInfo(mod, node.name, node, qn)
                    if node.name in self.classes:
                        dups.append(node.name)
                    else:
                        self.classes[node.name] = ci
                    mod.classes[node.name] = ci
                    node._cls = ci
                    for st in node.body:
                        if isinstance(st, ast.Assign):
                            for t in st.targets:
                                if isinstance(t, ast.Name):
                                    ci.attrs[t.id] = st.value
                        elif isinstance(st, ast.AnnAssign) and isinstance(st.target, ast.Name):
                            if st.value is not None:
                                ci.attrs[st.target.id] = st.value
                    visit(node.body, qn + ".", ci, None)
                elif isinstance(node, (ast.If, ast.Try, ast.With, ast.For, ast.While)):
                    # definitions under module-level control flow (try: import ... etc.)
                    for field in ("body", "orelse", "finalbody"):
                        visit(getattr(node, field, []) or [], prefix, cls, parent_func)
                    for h in getattr(node, "handlers", []) or []:
                        visit(h.body, prefix, cls, parent_func)

        def visit_nested(fnode, prefix, cls, fi):
            # all defs nested anywhere in the function body
            for st in fnode.body:
                for sub in walk_no_nested_defs_top(st):
                    if isinstance(sub, (ast.FunctionDef, ast.AsyncFunctionDef, ast.ClassDef)):
                        visit([sub], prefix, cls, fi)

        visit(mod.tree.body, "", None, None)
        self._class_dups = tuple(dups)

        for node in mod.tree.body:
            if isinstance(node, ast.Assign):
                for t in node.targets:
                    if isinstance(t, ast.Name):
                        mod.assigns[t.id] = node.value
            elif isinstance(node, ast.Import):
                for a in node.names:
                    mod.imports[a.asname or a.name.split(".")[0]] = a.name
            elif isinstance(node, ast.ImportFrom):
                for a in node.names:
                    mod.imports[a.asname or a.name] = f"{node.module or ''}.{a.name}"

    # ------------------------------------------------------------------ lookup
    def module(self, relpath):
        if relpath not in self.modules:
            raise AnalysisError(f"anchor module {relpath} not found")
        return self.modules[relpath]

    def func(self, qualname, path=None):
        """Unique function by qualified name (optionally restricted to a module)."""
        cands = self._by_qual.get(qualname, [])
        if path is not None:
            cands = [f for f in cands if f.path == path]
        if len(cands) != 1:
            where = f" in {path}" if path else ""
            raise AnalysisError(
                f"anchor function {qualname}{where}: expected exactly one, found {len(cands)}"
            )
        return cands[0]

    def has_func(self, qualname, path=None):
        cands = self._by_qual.get(qualname, [])
        if path is not None:
            cands = [f for f in cands if f.path == path]
        return len(cands) == 1

    def cls(self, name):
        if name not in self.classes:
            raise AnalysisError(f"anchor class {name} not found")
        return self.classes[name]

    def mro(self, cls):
        """Linearised bases (single inheritance chains in strax; multiple bases are walked DFS)."""
        out, seen = [], set()

        def rec(c):
            if c.name in seen:
                return
            seen.add(c.name)
            out.append(c)
            for b in c.base_names:
                if b in self.classes:
                    rec(self.classes[b])

        rec(cls)
        return out

    def subclasses(self, cls, strict=False):
        out = []
        for c in self.classes.values():
            if c is cls and strict:
                continue
            if cls in self.mro(c):
                out.append(c)
        return out

    def resolve_method(self, cls, name):
        """FuncInfo of method `name` looked up through the MRO of cls, or None."""
        for c in self.mro(cls):
            if name in c.methods:
                return c.methods[name]
        return None

    def class_attr(self, cls, name):
        """Value node of class attribute `name` through the MRO, with the defining class."""
        for c in self.mro(cls):
            if name in c.attrs:
                return c, c.attrs[name]
        return None, None

    def stats(self):
        return {
            "modules": len(self.modules),
            "classes": len(self.classes),
            "functions": len(self.functions),
        }


def walk_no_nested_defs_top(node):
    """Yield node and descendants; nested function/class definitions are yielded, not entered."""
    yield node
    if isinstance(node, (ast.FunctionDef, ast.AsyncFunctionDef, ast.ClassDef, ast.Lambda)):
        return
    for child in ast.iter_child_nodes(node):
        yield from walk_no_nested_defs_top(child)


def walk_body(fnode, enter_lambdas=True):
    """All nodes of a function's own body, not descending into nested defs/classes."""
    stack = list(reversed(fnode.body)) if hasattr(fnode, "body") and isinstance(fnode.body, list) else [fnode.body]
    while stack:
        n = stack.pop()
        yield n
        if isinstance(n, (ast.FunctionDef, ast.AsyncFunctionDef, ast.ClassDef)):
            continue
        if isinstance(n, ast.Lambda) and not enter_lambdas:
            continue
        stack.extend(reversed(list(ast.iter_child_nodes(n))))


class _Canon(ast.NodeTransformer):
    """Canonical form of two-operand comparisons, so that `b > a` and `a < b`, `x == 1` and
    `1 == x` have one text: > and >= are mirrored to < and <=; for == / != a constant operand goes
    to the right, otherwise the operands are ordered by their text."""

    def visit_Compare(self, node):
        self.generic_visit(node)
        if len(node.ops) != 1:
            return node
        op, l, r = node.ops[0], node.left, node.comparators[0]
        if isinstance(op, ast.Gt):
            return ast.Compare(left=r, ops=[ast.Lt()], comparators=[l])
        if isinstance(op, ast.GtE):
            return ast.Compare(left=r, ops=[ast.LtE()], comparators=[l])
        if isinstance(op, (ast.Eq, ast.NotEq)):
            lc, rc = isinstance(l, ast.Constant), isinstance(r, ast.Constant)
            swap = (lc and not rc) or (lc == rc and ast.unparse(r) < ast.unparse(l))
            if swap:
                return ast.Compare(left=r, ops=[op], comparators=[l])
        return node


def _needs_canon(node):
    for x in ast.walk(node):
        if isinstance(x, ast.Compare) and len(x.ops) == 1 and isinstance(x.ops[0], (ast.Gt, ast.GtE, ast.Eq, ast.NotEq)):
            return True
    return False


_NORM_CACHE = {}


def norm(node):
    """Normalised text of a statement/expression (no positions; comparisons in canonical form)."""
    if isinstance(node, str):
        return re.sub(r"\s+", " ", node).strip()
    if node is None:
        return "<nothing>"  # e.g. the value of a bare `return`: equal to no expected text
    key = id(node)
    hit = _NORM_CACHE.get(key)
    if hit is not None and hit[0] is node:
        return hit[1]
    try:
        if _needs_canon(node):
            clone = ast.parse(ast.unparse(node))
            clone = _Canon().visit(clone)
            ast.fix_missing_locations(clone)
            text = ast.unparse(clone)
        else:
            text = ast.unparse(node)
    except Exception:
        text = ast.dump(node)
    if len(_NORM_CACHE) < 200000:
        _NORM_CACHE[key] = (node, text)
    return text


def N(text):
    """Canonical text of an expression given as source text (use for expected values in rules)."""
    return norm(ast.parse(text, mode="eval").body)


def head(node, n=110):
    """One-line description of a statement (header only for compound statements)."""
    if isinstance(node, (ast.If, ast.While)):
        kw = "if" if isinstance(node, ast.If) else "while"
        s = f"{kw} {norm(node.test)}:"
    elif isinstance(node, ast.For):
        s = f"for {norm(node.target)} in {norm(node.iter)}:"
    elif isinstance(node, ast.With):
        s = "with " + ", ".join(norm(i) for i in node.items) + ":"
    elif isinstance(node, ast.Try):
        s = "try:"
    elif isinstance(node, (ast.FunctionDef, ast.AsyncFunctionDef)):
        s = f"def {node.name}(...)"
    elif isinstance(node, ast.ExceptHandler):
        s = "except " + (norm(node.type) if node.type else "") + ":"
    else:
        s = norm(node)
    s = " ".join(s.split())
    return s if len(s) <= n else s[: n - 3] + "..."


def dotted(node):
    """Dotted name of a Name/Attribute chain ('self._lock', 'strax.Chunk.merge') or None."""
    parts = []
    while isinstance(node, ast.Attribute):
        parts.append(node.attr)
        node = node.value
    if isinstance(node, ast.Name):
        parts.append(node.id)
        return ".".join(reversed(parts))
    if isinstance(node, ast.Call) and isinstance(node.func, ast.Name) and node.func.id == "super":
        parts.append("super()")
        return ".".join(reversed(parts))
    return None


def call_name(call):
    """Dotted callee of a Call node, or None."""
    return dotted(call.func) if isinstance(call, ast.Call) else None


def enclosing(node, types):
    n = getattr(node, "_parent", None)
    while n is not None:
        if isinstance(n, types):
            return n
        n = getattr(n, "_parent", None)
    return None


def enclosing_func(node):
    return enclosing(node, (ast.FunctionDef, ast.AsyncFunctionDef, ast.Lambda))
