#!/bin/bash
# usage: eval_seed.sh <patch.diff> [json-out]
# Apply a seeded change to /repo, run all quick checks (evidence redirected to a scratch directory so
# that the committed evidence keeps describing the unchanged tree), undo the change, print which
# properties raise.  Never run while something else (a test run) is using /repo's working tree.
set -u
patch=$1
jout=${2:-}
cd /repo
if ! git diff --quiet; then echo "REPO DIRTY"; exit 3; fi
if ! git apply --check "$patch" 2>/dev/null; then echo "PATCH DOES NOT APPLY"; exit 4; fi
git apply "$patch"
ev=$(mktemp -d /tmp/seedev.XXXXXX)
out=""
rules=""
for i in $(seq -w 1 19); do
  r=$(VERIF_EVIDENCE_DIR=$ev /venv/bin/python /verif/check C$i --tier quick 2>&1)
  rc=$?
  if [ $rc -eq 1 ]; then
    out="$out C$i"
    echo "$r" | grep -B2 "^VIOLATION" | grep -v "^VIOLATION\|^--" | cut -c1-260
    rules="$rules $(echo "$r" | grep -oE "^  C[0-9]+\.R[0-9a-z]+" | sort -u | tr -d ' ' | tr '\n' ' ')"
  fi
  if [ $rc -eq 2 ]; then out="$out C$i(exit2)"; echo "$r" | grep "ANALYSIS-ERROR" | cut -c1-200; fi
done
git checkout -- . ; git clean -fdq strax 2>/dev/null
rm -rf $ev
echo "RULES:$rules"
echo "RAISED:$out"
if [ -n "$jout" ]; then printf '{"raised": "%s", "rules": "%s"}\n' "$(echo $out)" "$(echo $rules)" > $jout; fi
