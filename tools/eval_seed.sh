#!/bin/bash
# usage: eval_seed.sh <patch.diff> : apply to /repo, run all quick checks, undo; print which properties raise
set -u
patch=$1
cd /repo
if ! git diff --quiet; then echo "REPO DIRTY"; exit 3; fi
if ! git apply --check "$patch" 2>/dev/null; then echo "PATCH DOES NOT APPLY"; exit 4; fi
git apply "$patch"
out=""
for i in $(seq -w 1 18); do
  r=$(/venv/bin/python /verif/check C$i --tier quick 2>&1)
  rc=$?
  if [ $rc -eq 1 ]; then out="$out C$i"; echo "$r" | grep -B2 "^VIOLATION" | grep -v "^VIOLATION\|^--" | cut -c1-260; fi
  if [ $rc -eq 2 ]; then out="$out C$i(exit2)"; echo "$r" | grep "ANALYSIS-ERROR" | cut -c1-200; fi
done
git checkout -- . ; git clean -fdq strax 2>/dev/null
echo "RAISED:$out"
