#!/venv/bin/python
"""Keep a confirmed seeded change under /verif/seeded/<id>/.

    keep_seed.py <prop> <k> <srcdir> <confirm.json> <eval.json> [--also C06/m3 ...]

Writes patch.diff, demo.py, notes.md (the author's) and meta.json: which property it breaks, what it
needs in order to manifest (from the author's notes), what was run to confirm it, and which of the
checks in /verif raise on it.
"""

import json
import os
import re
import shutil
import sys


def needs_section(notes):
    lines = notes.splitlines()
    out, on = [], False
    for ln in lines:
        if re.match(r"^#+ ", ln) or re.match(r"^\*\*[^*]+\*\*\s*$", ln):
            if on:
                break
            if re.search(r"need|manifest", ln, re.I):
                on = True
                continue
        elif on:
            out.append(ln)
    return "\n".join(out).strip()


def main():
    prop, k, src, conf, ev = sys.argv[1:6]
    also = sys.argv[7:] if len(sys.argv) > 6 and sys.argv[6] == "--also" else []
    dst = os.path.join(os.path.dirname(os.path.abspath(__file__)), "..", "seeded", f"{prop}-{k}")
    os.makedirs(dst, exist_ok=True)
    for fn in ("patch.diff", "demo.py", "notes.md"):
        if os.path.exists(os.path.join(src, fn)):
            shutil.copy(os.path.join(src, fn), os.path.join(dst, fn))
    notes = open(os.path.join(src, "notes.md")).read() if os.path.exists(os.path.join(src, "notes.md")) else ""
    c = json.load(open(conf))
    e = json.load(open(ev))
    meta = {
        "property": prop,
        "origin": f"fresh sub-agent given only the text of {prop} and a scratch worktree; delivered as {os.path.basename(os.path.dirname(src.rstrip('/')))}/{os.path.basename(src.rstrip('/'))}",
        "same_change_also_proposed_for": also,
        "needs_to_manifest": needs_section(notes),
        "confirmed_by": {
            "how": "tools/confirm_seed.sh in a scratch worktree of /repo HEAD: demo.py on the clean tree, demo.py with the patch, the pinned suite with the patch (PYTHONPATH=<worktree>), compared with a clean run of the pinned suite on the same HEAD",
            "demo_exit_clean": c["demo_clean_rc"],
            "demo_exit_patched": c["demo_patched_rc"],
            "suite_passes_with_patch": c["passes"],
            "suite_passes_reference": c["ref_passes"],
            "tests_lost": c["lost"],
            "tests_lost_rerun": c.get("lost_rerun", ""),
        },
        "detected_by": {"properties_raising": e["raised"].split(), "rules": sorted(set(e["rules"].split()))},
    }
    json.dump(meta, open(os.path.join(dst, "meta.json"), "w"), indent=1)
    print(dst, meta["detected_by"])


if __name__ == "__main__":
    main()
