#!/opt/veriftools/pyvenv/bin/python
"""Validate MANIFEST.json and evidence/*.json against the schemas (tooling venv has jsonschema)."""
import glob, json, sys
import jsonschema
ok = True
m = json.load(open('/verif/MANIFEST.json'))
jsonschema.validate(m, json.load(open('/root/.vp/MANIFEST.schema.json')))
es = json.load(open('/root/.vp/EVIDENCE.schema.json'))
for c in m['checks']:
    try:
        e = json.load(open(c['evidence_file']))
        jsonschema.validate(e, es)
        assert e['property_id'] == c['property_id']
    except Exception as ex:
        ok = False
        print('BAD', c['evidence_file'], str(ex)[:300])
print('manifest ok;', len(m['checks']), 'checks;', 'evidence ok' if ok else 'EVIDENCE PROBLEMS')
sys.exit(0 if ok else 1)
