#!/bin/bash
# usage: rerun_lost.sh <name> <dir with patch.diff>
# Re-run, in isolation, the tests a loaded confirmation run lost (timing tests); updates /tmp/seedconf/<name>.json
set -u
name=$1
dir=$2
wt=/tmp/cs_$name
ids=$(/venv/bin/python - "$name" <<'PY'
import json, sys, os
c = json.load(open(f"/tmp/seedconf/{sys.argv[1]}.json"))
out = []
for t in c["lost"]:
    mod, _, test = t.partition("::")
    parts = mod.split(".")
    # tests.test_x[.Class]
    path = "tests/" + parts[1] + ".py"
    rest = parts[2:] + [test]
    out.append(path + "::" + "::".join(rest))
print(" ".join(out))
PY
)
[ -z "$ids" ] && { echo "$name: nothing lost"; exit 0; }
git -C /repo worktree remove --force $wt >/dev/null 2>&1
git -C /repo worktree add --detach $wt HEAD >/dev/null 2>&1
cd $wt && git apply $dir/patch.diff
PYTHONPATH=$wt /venv/bin/python -m pytest -q -p no:cacheprovider --timeout=900 $ids > /tmp/seedconf/$name.rerun.log 2>&1
rc=$?
cd /; git -C /repo worktree remove --force $wt
/venv/bin/python - "$name" "$rc" <<'PY'
import json, sys
n, rc = sys.argv[1], int(sys.argv[2])
p = f"/tmp/seedconf/{n}.json"
c = json.load(open(p))
tail = open(f"/tmp/seedconf/{n}.rerun.log").read().strip().splitlines()[-1]
c["lost_rerun"] = f"re-run in isolation with the patch applied: exit {rc}: {tail}"
c["confirmed"] = c["demo_clean_rc"] == 0 and c["demo_patched_rc"] != 0 and rc == 0
json.dump(c, open(p, "w"), indent=1)
print(n, c["confirmed"], c["lost_rerun"])
PY
