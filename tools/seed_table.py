#!/venv/bin/python
"""Markdown table of the kept seeded changes (from seeded/*/meta.json), for DESIGN.md section 11."""
import glob, json, os
base = os.path.join(os.path.dirname(os.path.abspath(__file__)), "..", "seeded")
print("| seeded change | property | also proposed for | confirmed (demo clean/patched, suite) | raised by |")
print("|---|---|---|---|---|")
for d in sorted(glob.glob(os.path.join(base, "*"))):
    m = json.load(open(os.path.join(d, "meta.json")))
    c = m["confirmed_by"]
    suite = f"{c['suite_passes_with_patch']}/{c['suite_passes_reference']}" + (" (+ lost tests re-run: pass)" if c.get("tests_lost") else "")
    print(f"| {os.path.basename(d)} | {m['property']} | {', '.join(m['same_change_also_proposed_for']) or '-'} | {c['demo_exit_clean']}/{c['demo_exit_patched']}, {suite} | {', '.join(m['detected_by']['rules']) or 'NOT DETECTED'} |")
