#!/bin/bash
# keep every confirmed seeded change of round 1 (/tmp/seedout) and round 2 (/tmp/seedout2) under /verif/seeded
cd /verif
for j in /tmp/seedconf/*.json; do
  n=$(basename $j .json)             # C02_m1  or  R2_C02_m1
  ok=$(/venv/bin/python -c "import json;print(json.load(open('$j'))['confirmed'])")
  [ "$ok" = "True" ] || { echo "not confirmed: $n"; continue; }
  case $n in
    R2_*) p=$(echo $n | cut -d_ -f2); m=$(echo $n | cut -d_ -f3); src=/tmp/seedout2/$p/$m; k="r2-${m#m}";;
    R3_*) p=$(echo $n | cut -d_ -f2); m=$(echo $n | cut -d_ -f3); src=/tmp/seedout3/$p/$m; k="r3-${m#m}";;
    R4_*) p=$(echo $n | cut -d_ -f2); m=$(echo $n | cut -d_ -f3); src=/tmp/seedout4/$p/$m; k="r4-${m#m}";;
    *)    p=$(echo $n | cut -d_ -f1); m=$(echo $n | cut -d_ -f2); src=/tmp/seedout/$p/$m; k="${m#m}";;
  esac
  [ -f $src/eval.json ] || { echo "no eval: $n"; continue; }
  also=""
  case $n in C04_m3) also="--also C06/m2";; C05_m1) also="--also C06/m3";; C07_m1) also="--also C08/m3";; esac
  /venv/bin/python tools/keep_seed.py $p $k $src $j $src/eval.json $also
done
