#!/venv/bin/python
"""Mutation survey of the checker (a development aid, not a registered check).

For one property, take the functions its anchors point at (line ranges of the pinned snapshot mapped
to qualified names, looked up again in the current tree), generate first-order mutants of those
functions with the classic operators (comparison boundary / negation, and<->or, negated test,
statement deleted, adjacent statements swapped, constants, +/-), and run the property's rules (or all
18) on each mutant *in memory*.  Prints the survivors - constructs the rules do not look at - for
manual triage: equivalent / irrelevant to the property / genuine hole in the rule.

    tools/mutation_survey.py C05 [--all-props] [--funcs a,b] [--root /repo] [--jobs 16] [--out file]
"""

import argparse
import ast
import copy
import json
import multiprocessing
import os
import subprocess
import sys

sys.path.insert(0, os.path.join(os.path.dirname(os.path.abspath(__file__)), ".."))
sys.setrecursionlimit(10000)

from sa.index import AnalysisError, Repo  # noqa: E402
from sa.main import run_rules  # noqa: E402

PINNED = "2c83970"
CMP = {ast.Lt: ast.LtE, ast.LtE: ast.Lt, ast.Gt: ast.GtE, ast.GtE: ast.Gt, ast.Eq: ast.NotEq, ast.NotEq: ast.Eq,
       ast.Is: ast.IsNot, ast.IsNot: ast.Is, ast.In: ast.NotIn, ast.NotIn: ast.In}
CMP2 = {ast.Lt: ast.Gt, ast.Gt: ast.Lt, ast.LtE: ast.GtE, ast.GtE: ast.LtE}
SIMPLE = (ast.Expr, ast.Assign, ast.AugAssign, ast.AnnAssign)


def anchored_functions(prop, root):
    """{relpath: set(qualnames)} for the anchors of a property."""
    out = {}
    a = prop["anchors"]
    entries = list(a.get("mechanism", [])) + list(a.get("state", []))
    for e in entries:
        for part in e.get("where", "").split(", "):
            part = part.strip()
            if ":" not in part:
                continue
            path, ranges = part.split(":", 1)
            try:
                src = subprocess.run(["git", "-C", root, "show", f"{PINNED}:{path}"], capture_output=True, text=True, check=True).stdout
            except subprocess.CalledProcessError:
                continue
            tree = ast.parse(src)
            spans = []

            def walk(body, prefix):
                for n in body:
                    if isinstance(n, (ast.FunctionDef, ast.AsyncFunctionDef)):
                        q = prefix + n.name
                        spans.append((q, n.lineno, n.end_lineno))
                        walk(n.body, q + ".")
                    elif isinstance(n, ast.ClassDef):
                        walk(n.body, prefix + n.name + ".")

            walk(tree.body, "")
            for r in ranges.split(","):
                r = r.strip()
                if not r:
                    continue
                lo, _, hi = r.partition("-")
                try:
                    lo = int(lo)
                    hi = int(hi or lo)
                except ValueError:
                    continue
                for q, s, e_ in spans:
                    if s <= hi and e_ >= lo:
                        # innermost functions only get their own entry; outer ones are included too
                        out.setdefault(path, set()).add(q)
    return out


def find_func(tree, qual):
    parts = qual.split(".")
    body = tree.body
    node = None
    for p in parts:
        node = None
        for n in body:
            if isinstance(n, (ast.FunctionDef, ast.AsyncFunctionDef, ast.ClassDef)) and n.name == p:
                node = n
                break
        if node is None:
            return None
        body = node.body
    return node if isinstance(node, (ast.FunctionDef, ast.AsyncFunctionDef)) else None


def own_nodes(fn):
    """Nodes of fn in a deterministic order, not entering nested defs (they are listed separately)."""
    out = []
    stack = list(reversed(fn.body))
    while stack:
        n = stack.pop()
        out.append(n)
        if isinstance(n, (ast.FunctionDef, ast.AsyncFunctionDef, ast.ClassDef)):
            continue
        stack.extend(reversed(list(ast.iter_child_nodes(n))))
    return out


def is_docstring(n, fn):
    return isinstance(n, ast.Expr) and isinstance(n.value, ast.Constant) and isinstance(n.value.value, str)


def is_log_or_print(n):
    if isinstance(n, ast.Expr) and isinstance(n.value, ast.Call):
        t = ast.unparse(n.value.func)
        return t == "print" or ".log." in t or t.startswith("log.") or t.startswith("warnings.") or t.endswith(".debug") or t.endswith(".info")
    return False


def mutation_points(fn):
    """[(index into own_nodes, operator name, description)]"""
    pts = []
    nodes = own_nodes(fn)
    for i, n in enumerate(nodes):
        ln = getattr(n, "lineno", 0)
        if isinstance(n, ast.Compare) and len(n.ops) == 1:
            t = type(n.ops[0])
            if t in CMP:
                pts.append((i, "cmp", f"L{ln} `{ast.unparse(n)[:70]}`: {t.__name__}->{CMP[t].__name__}"))
            if t in CMP2:
                pts.append((i, "cmp2", f"L{ln} `{ast.unparse(n)[:70]}`: {t.__name__}->{CMP2[t].__name__}"))
        elif isinstance(n, ast.BoolOp):
            pts.append((i, "boolop", f"L{ln} `{ast.unparse(n)[:70]}`: and<->or"))
        elif isinstance(n, (ast.If, ast.While)) and not (isinstance(n.test, ast.Constant)):
            pts.append((i, "negtest", f"L{ln} `{type(n).__name__.lower()} {ast.unparse(n.test)[:60]}`: test negated"))
        elif isinstance(n, ast.IfExp):
            pts.append((i, "negtest", f"L{ln} `{ast.unparse(n)[:70]}`: ifexp test negated"))
        elif isinstance(n, ast.UnaryOp) and isinstance(n.op, ast.Not):
            pts.append((i, "dropnot", f"L{ln} `{ast.unparse(n)[:70]}`: not removed"))
        elif isinstance(n, ast.BinOp) and isinstance(n.op, (ast.Add, ast.Sub)):
            pts.append((i, "addsub", f"L{ln} `{ast.unparse(n)[:70]}`: +<->-"))
        elif isinstance(n, ast.Constant) and isinstance(n.value, bool):
            pts.append((i, "const", f"L{ln} constant {n.value} flipped"))
        elif isinstance(n, ast.Constant) and type(n.value) is int and n.value in (0, 1, -1, 2):
            pts.append((i, "const", f"L{ln} constant {n.value} -> {n.value + 1}"))
        if isinstance(n, ast.stmt):
            if is_docstring(n, fn) or is_log_or_print(n):
                continue
            if isinstance(n, ast.Expr) and isinstance(n.value, (ast.Call, ast.Await, ast.Yield, ast.YieldFrom)):
                pts.append((i, "delete", f"L{ln} `{ast.unparse(n)[:80]}` deleted"))
            elif isinstance(n, ast.AugAssign):
                pts.append((i, "delete", f"L{ln} `{ast.unparse(n)[:80]}` deleted"))
            elif isinstance(n, ast.Assign) and any(not isinstance(t, ast.Name) for t in n.targets):
                pts.append((i, "delete", f"L{ln} `{ast.unparse(n)[:80]}` deleted"))
            elif isinstance(n, (ast.Raise, ast.Break, ast.Continue)):
                pts.append((i, "delete", f"L{ln} `{ast.unparse(n)[:80]}` -> pass"))
            elif isinstance(n, ast.Return) and n.value is not None and not isinstance(n.value, ast.Constant):
                pts.append((i, "retnone", f"L{ln} `{ast.unparse(n)[:80]}` -> return None"))
    # swaps of adjacent simple statements
    for i, n in enumerate(nodes):
        for field in ("body", "orelse", "finalbody"):
            seq = getattr(n, field, None)
            if isinstance(seq, list):
                for k in range(len(seq) - 1):
                    a, b = seq[k], seq[k + 1]
                    if isinstance(a, SIMPLE) and isinstance(b, SIMPLE) and not is_docstring(a, fn) and not is_log_or_print(a) and not is_log_or_print(b):
                        pts.append((i, f"swap:{field}:{k}", f"L{a.lineno} `{ast.unparse(a)[:50]}` <-> `{ast.unparse(b)[:50]}` swapped"))
    # the function body itself
    for k in range(len(fn.body) - 1):
        a, b = fn.body[k], fn.body[k + 1]
        if isinstance(a, SIMPLE) and isinstance(b, SIMPLE) and not is_docstring(a, fn) and not is_log_or_print(a) and not is_log_or_print(b):
            pts.append((-1, f"swap:body:{k}", f"L{a.lineno} `{ast.unparse(a)[:50]}` <-> `{ast.unparse(b)[:50]}` swapped"))
    return pts


def replace_node(fn, old, new):
    for parent in ast.walk(fn):
        for field, val in ast.iter_fields(parent):
            if isinstance(val, list):
                for k, x in enumerate(val):
                    if x is old:
                        val[k] = new
                        return True
            elif val is old:
                setattr(parent, field, new)
                return True
    return False


def apply_mutation(src, qual, idx, op):
    tree = ast.parse(src)
    fn = find_func(tree, qual)
    if fn is None:
        return None
    n = fn if idx == -1 else own_nodes(fn)[idx]
    if op == "cmp":
        n.ops = [CMP[type(n.ops[0])]()]
    elif op == "cmp2":
        n.ops = [CMP2[type(n.ops[0])]()]
    elif op == "boolop":
        n.op = ast.Or() if isinstance(n.op, ast.And) else ast.And()
    elif op == "negtest":
        n.test = ast.UnaryOp(op=ast.Not(), operand=n.test)
    elif op == "dropnot":
        replace_node(fn, n, n.operand)
    elif op == "addsub":
        n.op = ast.Sub() if isinstance(n.op, ast.Add) else ast.Add()
    elif op == "const":
        n.value = (not n.value) if isinstance(n.value, bool) else n.value + 1
    elif op == "delete":
        replace_node(fn, n, ast.Pass())
    elif op == "retnone":
        n.value = None
    elif op.startswith("swap:"):
        _, field, k = op.split(":")
        seq = getattr(n, field)
        k = int(k)
        seq[k], seq[k + 1] = seq[k + 1], seq[k]
    ast.fix_missing_locations(tree)
    try:
        out = ast.unparse(tree)
        compile(out, "<mutant>", "exec")
    except Exception:
        return None
    return out


_G = {}


def _init(root, pids):
    _G["root"] = root
    _G["pids"] = pids
    base = {}
    repo = Repo(root)
    # baseline on the *unparsed* sources, so that reformatting alone is not counted
    srcs = {rel: ast.unparse(ast.parse(m.source)) for rel, m in repo.modules.items()}
    _G["srcs"] = srcs
    for pid in pids:
        try:
            chk, _ = run_rules(pid, Repo(root, overrides=dict(srcs)), "quick")
            base[pid] = {f.key for f in chk.findings}
        except AnalysisError:
            base[pid] = None
    _G["base"] = base


def _work(job):
    path, qual, idx, op, desc = job
    src = _G["srcs"][path]
    new = apply_mutation(src, qual, idx, op)
    if new is None or new == src:
        return (job, "invalid", [])
    ov = dict(_G["srcs"])
    ov[path] = new
    hits = []
    for pid in _G["pids"]:
        if _G["base"][pid] is None:
            continue
        try:
            chk, _ = run_rules(pid, Repo(_G["root"], overrides=ov), "quick")
            fresh = sorted({f.rule for f in chk.findings if f.key not in _G["base"][pid]})
            hits.extend(fresh)
        except AnalysisError as e:
            hits.append(f"{pid}:analysis-error")
        except Exception as e:  # noqa: BLE001
            hits.append(f"{pid}:INTERNAL:{type(e).__name__}:{str(e)[:80]}")
    return (job, "killed" if hits else "survived", hits)


def props_mentioning(path):
    """Properties whose rule module (or a sibling it imports) names the module `path`."""
    import re
    pdir = os.path.join(os.path.dirname(os.path.abspath(__file__)), "..", "sa", "props")
    text = {}
    for fn in os.listdir(pdir):
        if re.fullmatch(r"c\d\d\.py", fn):
            text[fn[:-3].upper()] = open(os.path.join(pdir, fn)).read()
    direct = {pid for pid, t in text.items() if f'"{path}"' in t}
    out = set(direct)
    for pid, t in text.items():
        for dep in re.findall(r"from \.(c\d\d) import", t):
            if dep.upper() in direct:
                out.add(pid)
    return sorted(out)


def main():
    ap = argparse.ArgumentParser()
    ap.add_argument("prop")
    ap.add_argument("--all-props", action="store_true")
    ap.add_argument("--relevant", action="store_true", help="run the rules of every property whose module names the mutated file")
    ap.add_argument("--props", default="")
    ap.add_argument("--funcs", default="")
    ap.add_argument("--root", default="/repo")
    ap.add_argument("--jobs", type=int, default=16)
    ap.add_argument("--out", default="")
    a = ap.parse_args()
    props = {}
    for line in open(os.path.join(os.path.dirname(os.path.abspath(__file__)), "..", "properties.jsonl")):
        d = json.loads(line)
        props[d["id"]] = d
    prop = props[a.prop]
    if a.all_props:
        pids = [f"C{i:02d}" for i in range(1, 19)]
    elif a.props:
        pids = a.props.split(",")
    else:
        pids = [a.prop]
    anchored = anchored_functions(prop, a.root)
    if a.relevant:
        pids = sorted(set(pids) | {p for path in anchored for p in props_mentioning(path)})
    if a.funcs:
        want = set(a.funcs.split(","))
        anchored = {p: {q for q in qs if q in want} for p, qs in anchored.items()}
    _init(a.root, pids)
    jobs = []
    for path, quals in sorted(anchored.items()):
        src = _G["srcs"].get(path)
        if src is None:
            continue
        tree = ast.parse(src)
        for q in sorted(quals):
            fn = find_func(tree, q)
            if fn is None:
                print(f"# anchored function gone: {path}::{q}")
                continue
            for idx, op, desc in mutation_points(fn):
                jobs.append((path, q, idx, op, desc))
    print(f"# {a.prop}: {len(jobs)} mutants over {sum(len(v) for v in anchored.values())} anchored functions; rules of {','.join(pids)}")
    ctx = multiprocessing.get_context("fork")
    with ctx.Pool(a.jobs) as pool:
        res = pool.map(_work, jobs, chunksize=4)
    killed = [r for r in res if r[1] == "killed"]
    surv = [r for r in res if r[1] == "survived"]
    internal = [r for r in res if any("INTERNAL" in h for h in r[2])]
    print(f"# killed {len(killed)}, survived {len(surv)}, invalid {len(res) - len(killed) - len(surv)}, internal errors {len(internal)}")
    byf = {}
    for (path, q, idx, op, desc), st, hits in res:
        byf.setdefault((path, q), [0, 0])
        if st == "killed":
            byf[(path, q)][0] += 1
        elif st == "survived":
            byf[(path, q)][1] += 1
    for (path, q), (k, s) in sorted(byf.items()):
        print(f"## {path}::{q}: killed {k}, survived {s}")
        for (p2, q2, idx, op, desc), st, hits in res:
            if (p2, q2) == (path, q) and st == "survived":
                print(f"   S {op.split(':')[0]:8s} {desc}")
    for r in internal:
        print("INTERNAL", r[0][1], r[0][4], r[2])
    if a.out:
        json.dump([dict(path=j[0], func=j[1], idx=j[2], op=j[3], desc=j[4], status=st, hits=h) for j, st, h in res], open(a.out, "w"), indent=1)


if __name__ == "__main__":
    main()
