#!/bin/bash
# usage: confirm_seed.sh <name> <dir with patch.diff and demo.py> [reference junit xml]
# Independent confirmation of a seeded change in a scratch worktree of /repo (never /repo itself):
#   demo passes on the clean tree, fails with the patch, and the pinned suite still passes with it.
# Writes /tmp/seedconf/<name>.json and removes the worktree.
set -u
name=$1
dir=$2
ref=${3:-/tmp/wtres/HEAD3.xml}
wt=/tmp/cs_$name
mkdir -p /tmp/seedconf
git -C /repo worktree remove --force $wt >/dev/null 2>&1
git -C /repo worktree add --detach $wt HEAD >/dev/null 2>&1 || { echo "cannot create worktree"; exit 3; }
cd $wt
PYTHONPATH=$wt timeout 600 /venv/bin/python $dir/demo.py > /tmp/seedconf/$name.clean.log 2>&1
rc_clean=$?
if ! git apply --check $dir/patch.diff 2>/dev/null; then echo "$name: patch does not apply"; cd /; git -C /repo worktree remove --force $wt; exit 4; fi
git apply $dir/patch.diff
PYTHONPATH=$wt timeout 600 /venv/bin/python $dir/demo.py > /tmp/seedconf/$name.patched.log 2>&1
rc_patched=$?
PYTHONPATH=$wt /venv/bin/python -c "import strax; print(strax.__file__)" > /tmp/seedconf/$name.where 2>&1
PYTHONPATH=$wt /venv/bin/python -m pytest -ra -q -p no:cacheprovider --timeout=900 --continue-on-collection-errors --junitxml=/tmp/seedconf/$name.xml > /tmp/seedconf/$name.tests.log 2>&1
cd /
git -C /repo worktree remove --force $wt
/venv/bin/python - "$name" "$ref" "$rc_clean" "$rc_patched" <<'EOF'
import json, sys
import xml.etree.ElementTree as ET
name, ref, rc_clean, rc_patched = sys.argv[1], sys.argv[2], int(sys.argv[3]), int(sys.argv[4])
def passes(p):
    out = set()
    for tc in ET.parse(p).getroot().iter("testcase"):
        if not any(c.tag in ("failure", "error", "skipped") for c in tc):
            out.add(tc.get("classname", "") + "::" + tc.get("name", ""))
    return out
refp = passes(ref)
got = passes(f"/tmp/seedconf/{name}.xml")
lost = sorted(refp - got)
where = open(f"/tmp/seedconf/{name}.where").read().strip()
res = dict(name=name, demo_clean_rc=rc_clean, demo_patched_rc=rc_patched, ref_passes=len(refp), passes=len(got), lost=lost, strax_imported_from=where)
res["confirmed"] = rc_clean == 0 and rc_patched != 0 and not lost and where.startswith(f"/tmp/cs_{name}/")
json.dump(res, open(f"/tmp/seedconf/{name}.json", "w"), indent=1)
print(json.dumps(res))
EOF
